(* C13 - lemmas about Model_Json. *)

From Coq Require Import ZArith List Bool Lia.
From ExaV Require Import gen.Gen_JsonKeys model.Model_Json.
Import ListNotations.
Open Scope Z_scope.

(* ------------------------------------------------------------------ hex digits *)

Lemma hexdigit_range : forall n, (48 <= hexdigit n <= 57) \/ (97 <= hexdigit n <= 102).
Proof.
  intros n. unfold hexdigit.
  pose proof (Z.mod_pos_bound n 16 ltac:(lia)) as Hb.
  destruct (n mod 16 <? 10) eqn:E.
  - apply Z.ltb_lt in E. left. lia.
  - apply Z.ltb_ge in E. right. lia.
Qed.

Lemma is_hex_hexdigit : forall n, is_hex (hexdigit n) = true.
Proof.
  intros n. unfold is_hex, is_digit.
  destruct (hexdigit_range n) as [H | H].
  - replace (48 <=? hexdigit n) with true by (symmetry; apply Z.leb_le; lia).
    replace (hexdigit n <=? 57) with true by (symmetry; apply Z.leb_le; lia).
    reflexivity.
  - replace (97 <=? hexdigit n) with true by (symmetry; apply Z.leb_le; lia).
    replace (hexdigit n <=? 102) with true by (symmetry; apply Z.leb_le; lia).
    rewrite !orb_true_r. reflexivity.
Qed.

Lemma hexdigit_printable : forall n, 32 <= hexdigit n <= 126 /\ hexdigit n <> 34 /\ hexdigit n <> 92.
Proof. intros n. destruct (hexdigit_range n); lia. Qed.

Definition plain (c : Z) : Prop := 32 <= c <= 126.

Lemma Forall_plain_hex4 : forall n, Forall plain (hex4 n).
Proof.
  intros n. unfold hex4. repeat constructor; unfold plain; apply hexdigit_printable.
Qed.

Lemma Forall_plain_hex2 : forall n, Forall plain (hex2 n).
Proof.
  intros n. unfold hex2. repeat constructor; unfold plain; apply hexdigit_printable.
Qed.

Lemma Forall_plain_uesc : forall n, Forall plain (uesc n).
Proof.
  intros n. unfold uesc. apply Forall_app. split.
  - repeat constructor; unfold plain; lia.
  - apply Forall_plain_hex4.
Qed.

(* ------------------------------------------------------------------ the automaton: basic facts *)

Lemma run_app : forall a b st,
  run st (a ++ b) = match run st a with Some st' => run st' b | None => None end.
Proof.
  induction a as [|c a IH]; intros b st; cbn [run app].
  - reflexivity.
  - destruct (step st c) as [st'|]; [apply IH | reflexivity].
Qed.

Lemma run_app_some : forall a b st st', run st a = Some st' -> run st (a ++ b) = run st' b.
Proof. intros a b st st' H. rewrite run_app, H. reflexivity. Qed.

Ltac destr_if :=
  match goal with
  | H : context [if ?b then _ else _] |- _ => destruct b eqn:?
  | H : context [match ?l with [] => _ | _ :: _ => _ end] |- _ => destruct l
  | H : context [match ?n with O => _ | S _ => _ end] |- _ => destruct n
  | H : context [match ?b with true => _ | false => _ end] |- _ => destruct b
  end.

Lemma after_value_ext : forall stk c stk' m' K,
  after_value stk c = Some (stk', m') -> after_value (stk ++ K) c = Some (stk' ++ K, m').
Proof.
  intros stk c stk' m' K H. unfold after_value in *.
  destruct (is_ws c).
  - inversion H; subst; reflexivity.
  - destruct stk as [|[|] r]; cbn [app]; [discriminate | |];
      destruct (c =? 44); try (inversion H; subst; reflexivity);
      [destruct (c =? 125) | destruct (c =? 93)]; inversion H; subst; reflexivity.
Qed.

Lemma start_value_ext : forall stk c stk' m' K,
  start_value stk c = Some (stk', m') -> start_value (stk ++ K) c = Some (stk' ++ K, m').
Proof.
  intros stk c stk' m' K H. unfold start_value in *.
  repeat (destr_if; [inversion H; subst; reflexivity |]).
  discriminate.
Qed.

Lemma step_num_ext : forall stk n c stk' m' K,
  step_num stk n c = Some (stk', m') -> step_num (stk ++ K) n c = Some (stk' ++ K, m').
Proof.
  intros stk n c stk' m' K H.
  destruct n; cbn [step_num] in *;
    repeat (destr_if; [inversion H; subst; reflexivity |]);
    try discriminate; apply after_value_ext; assumption.
Qed.

Lemma step_ext : forall stk m c stk' m' K,
  step (stk, m) c = Some (stk', m') -> step (stk ++ K, m) c = Some (stk' ++ K, m').
Proof.
  intros stk m c stk' m' K H.
  destruct m; cbn [step] in *.
  - destruct (is_ws c); [inversion H; subst; reflexivity | apply start_value_ext; assumption].
  - destruct (is_ws c); [inversion H; subst; reflexivity |].
    destruct (c =? 93).
    + destruct stk as [|[|] r]; cbn [app]; try discriminate. inversion H; subst; reflexivity.
    + apply start_value_ext; assumption.
  - destruct (is_ws c); [inversion H; subst; reflexivity |].
    destruct (c =? 125).
    + destruct stk as [|[|] r]; cbn [app]; try discriminate. inversion H; subst; reflexivity.
    + destruct (c =? 34); [inversion H; subst; reflexivity | discriminate].
  - destruct (is_ws c); [inversion H; subst; reflexivity |].
    destruct (c =? 34); [inversion H; subst; reflexivity | discriminate].
  - destruct (is_ws c); [inversion H; subst; reflexivity |].
    destruct (c =? 58); [inversion H; subst; reflexivity | discriminate].
  - apply after_value_ext; assumption.
  - destruct (c =? 34); [inversion H; subst; reflexivity |].
    destruct (c =? 92); [inversion H; subst; reflexivity |].
    destruct (c <? 32); [discriminate | inversion H; subst; reflexivity].
  - destruct (is_simple_escape c); [inversion H; subst; reflexivity |].
    destruct (c =? 117); [inversion H; subst; reflexivity | discriminate].
  - destruct (is_hex c); [| discriminate].
    destruct n as [|[|n']]; inversion H; subst; reflexivity.
  - destruct rest as [|x r]; [discriminate |].
    destruct (c =? x); [inversion H; subst; reflexivity | discriminate].
  - apply step_num_ext; assumption.
Qed.

Lemma run_ext : forall s stk m stk' m' K,
  run (stk, m) s = Some (stk', m') -> run (stk ++ K, m) s = Some (stk' ++ K, m').
Proof.
  induction s as [|c s IH]; intros stk m stk' m' K H; cbn [run] in *.
  - inversion H; subst; reflexivity.
  - destruct (step (stk, m) c) as [[stk1 m1]|] eqn:E; [| discriminate].
    rewrite (step_ext _ _ _ _ _ K E). apply IH; assumption.
Qed.

(* a complete value read in any context leaves the context as it was *)
Lemma wf_json_run : forall v, wf_json v = true ->
  exists q, is_after q = true /\ forall K, run (K, MVal) v = Some (K, q).
Proof.
  intros v H. unfold wf_json in H.
  destruct (run ([], MVal) v) as [[stk q]|] eqn:E; [| discriminate].
  destruct stk; [| discriminate].
  exists q. split; [assumption |].
  intros K. apply (run_ext v [] MVal [] q K E).
Qed.

Lemma wf_member_run : forall m, wf_member m = true ->
  exists q, is_after q = true /\ forall K, run (true :: K, MKey) m = Some (true :: K, q).
Proof.
  intros m H. unfold wf_member in H.
  destruct (run ([true], MKey) m) as [[stk q]|] eqn:E; [| discriminate].
  destruct stk as [|[|] [|? ?]]; try discriminate.
  exists q. split; [assumption |].
  intros K. apply (run_ext m [true] MKey [true] q K E).
Qed.

(* after a complete value, a delimiter is read the same way whether the value was a number or not *)
Definition delim (c : Z) : Prop := c = 32 \/ c = 44 \/ c = 125 \/ c = 93.

Lemma step_after : forall q stk c, is_after q = true -> delim c -> step (stk, q) c = after_value stk c.
Proof.
  intros q stk c Hq Hd.
  destruct q; try discriminate; [reflexivity |].
  destruct n; try discriminate;
    destruct Hd as [-> | [-> | [-> | ->]]]; reflexivity.
Qed.

(* ------------------------------------------------------------------ escape: the string scanner does not notice *)

Lemma step_str_plain : forall stk k c, 32 <= c -> c <> 34 -> c <> 92 -> step (stk, MStr k) c = Some (stk, MStr k).
Proof.
  intros stk k c H1 H2 H3. cbn [step].
  replace (c =? 34) with false by (symmetry; apply Z.eqb_neq; lia).
  replace (c =? 92) with false by (symmetry; apply Z.eqb_neq; lia).
  replace (c <? 32) with false by (symmetry; apply Z.ltb_ge; lia).
  reflexivity.
Qed.

Lemma run_cons_some : forall st c st' r, step st c = Some st' -> run st (c :: r) = run st' r.
Proof. intros st c st' r H. cbn [run]. rewrite H. reflexivity. Qed.

Lemma step_hex_more : forall stk k n c, is_hex c = true ->
  step (stk, MHex k (S (S n))) c = Some (stk, MHex k (S n)).
Proof. intros stk k n c H. cbn [step]. rewrite H. reflexivity. Qed.

Lemma step_hex_last : forall stk k c, is_hex c = true -> step (stk, MHex k 1) c = Some (stk, MStr k).
Proof. intros stk k c H. cbn [step]. rewrite H. reflexivity. Qed.

Lemma run_uesc : forall stk k n r, run (stk, MStr k) (uesc n ++ r) = run (stk, MStr k) r.
Proof.
  intros stk k n r. unfold uesc, hex4. cbn [app].
  rewrite (run_cons_some (stk, MStr k) 92 (stk, MEsc k)) by reflexivity.
  rewrite (run_cons_some (stk, MEsc k) 117 (stk, MHex k 4)) by reflexivity.
  rewrite (run_cons_some (stk, MHex k 4) _ (stk, MHex k 3)) by (apply step_hex_more, is_hex_hexdigit).
  rewrite (run_cons_some (stk, MHex k 3) _ (stk, MHex k 2)) by (apply step_hex_more, is_hex_hexdigit).
  rewrite (run_cons_some (stk, MHex k 2) _ (stk, MHex k 1)) by (apply step_hex_more, is_hex_hexdigit).
  rewrite (run_cons_some (stk, MHex k 1) _ (stk, MStr k)) by (apply step_hex_last, is_hex_hexdigit).
  reflexivity.
Qed.

Lemma run_simple_escape : forall stk k e r, is_simple_escape e = true ->
  run (stk, MStr k) (92 :: e :: r) = run (stk, MStr k) r.
Proof.
  intros stk k e r H.
  rewrite (run_cons_some (stk, MStr k) 92 (stk, MEsc k)) by reflexivity.
  apply run_cons_some. cbn [step]. rewrite H. reflexivity.
Qed.

Lemma run_escape_char : forall stk k c r,
  run (stk, MStr k) (escape_char c ++ r) = run (stk, MStr k) r.
Proof.
  intros stk k c r. unfold escape_char.
  destruct (c =? 34) eqn:E34; [apply run_simple_escape; reflexivity |].
  destruct (c =? 92) eqn:E92; [apply run_simple_escape; reflexivity |].
  destruct (c =? 10); [apply run_simple_escape; reflexivity |].
  destruct (c =? 13); [apply run_simple_escape; reflexivity |].
  destruct (c =? 9); [apply run_simple_escape; reflexivity |].
  destruct (c =? 8); [apply run_simple_escape; reflexivity |].
  destruct (c =? 12); [apply run_simple_escape; reflexivity |].
  destruct (printable_ascii c) eqn:P.
  - unfold printable_ascii in P. apply andb_true_iff in P. destruct P as [P1 P2].
    apply Z.leb_le in P1. apply Z.eqb_neq in E34. apply Z.eqb_neq in E92.
    cbn [app run]. rewrite step_str_plain by assumption. reflexivity.
  - destruct (c <? 65536).
    + apply run_uesc.
    + rewrite <- app_assoc. rewrite run_uesc. apply run_uesc.
Qed.

Lemma run_escape : forall s stk k r, run (stk, MStr k) (escape s ++ r) = run (stk, MStr k) r.
Proof.
  induction s as [|c s IH]; intros stk k r; unfold escape; cbn [flat_map].
  - reflexivity.
  - rewrite <- app_assoc. rewrite run_escape_char. apply IH.
Qed.

(* ------------------------------------------------------------------ escape: only printable ASCII comes out *)

Lemma escape_char_plain : forall c, Forall plain (escape_char c).
Proof.
  intros c. unfold escape_char.
  destruct (c =? 34); [repeat constructor; unfold plain; lia |].
  destruct (c =? 92); [repeat constructor; unfold plain; lia |].
  destruct (c =? 10); [repeat constructor; unfold plain; lia |].
  destruct (c =? 13); [repeat constructor; unfold plain; lia |].
  destruct (c =? 9); [repeat constructor; unfold plain; lia |].
  destruct (c =? 8); [repeat constructor; unfold plain; lia |].
  destruct (c =? 12); [repeat constructor; unfold plain; lia |].
  destruct (printable_ascii c) eqn:P.
  - unfold printable_ascii in P. apply andb_true_iff in P. destruct P as [P1 P2].
    apply Z.leb_le in P1. apply Z.leb_le in P2. constructor; [unfold plain; lia | constructor].
  - destruct (c <? 65536).
    + apply Forall_plain_uesc.
    + apply Forall_app. split; apply Forall_plain_uesc.
Qed.

Lemma escape_plain : forall s, Forall plain (escape s).
Proof.
  induction s as [|c s IH]; unfold escape; cbn [flat_map].
  - constructor.
  - apply Forall_app. split; [apply escape_char_plain | exact IH].
Qed.

Lemma escaped_string_wf : forall s, wf_json (json_string s) = true.
Proof.
  intros s. unfold wf_json, json_string.
  cbn [app].
  rewrite (run_cons_some ([], MVal) 34 ([], MStr false)) by reflexivity.
  rewrite run_escape. reflexivity.
Qed.

Lemma escaped_string_run : forall s K, run (K, MVal) (json_string s) = Some (K, MAfter).
Proof.
  intros s K. unfold json_string. cbn [app].
  rewrite (run_cons_some (K, MVal) 34 (K, MStr false)) by reflexivity.
  rewrite run_escape. reflexivity.
Qed.

Lemma plain_single_line : forall s, Forall plain s -> single_line s = true.
Proof.
  intros s H. unfold single_line. apply forallb_forall. intros c Hc.
  rewrite Forall_forall in H. specialize (H c Hc). unfold plain in H.
  replace (c =? 10) with false by (symmetry; apply Z.eqb_neq; lia).
  replace (c =? 13) with false by (symmetry; apply Z.eqb_neq; lia).
  reflexivity.
Qed.

Lemma plain_ascii_encodable : forall s, Forall plain s -> ascii_encodable s = true.
Proof.
  intros s H. unfold ascii_encodable. apply forallb_forall. intros c Hc.
  rewrite Forall_forall in H. specialize (H c Hc). unfold plain in H.
  apply andb_true_iff. split; [apply Z.leb_le | apply Z.ltb_lt]; lia.
Qed.

(* ------------------------------------------------------------------ keys, members, objects *)

Lemma run_safe_key : forall k stk r, safe_key k = true ->
  run (stk, MStr true) (k ++ r) = run (stk, MStr true) r.
Proof.
  induction k as [|c k IH]; intros stk r H.
  - reflexivity.
  - unfold safe_key in H. cbn [forallb] in H. apply andb_true_iff in H. destruct H as [Hc Hk].
    apply andb_true_iff in Hc. destruct Hc as [Hc H92].
    apply andb_true_iff in Hc. destruct Hc as [Hp H34].
    unfold printable_ascii in Hp. apply andb_true_iff in Hp. destruct Hp as [P1 P2].
    apply Z.leb_le in P1. apply negb_true_iff in H34. apply negb_true_iff in H92.
    apply Z.eqb_neq in H34. apply Z.eqb_neq in H92.
    cbn [app]. rewrite (run_cons_some (stk, MStr true) c (stk, MStr true)) by (apply step_str_plain; assumption).
    apply IH. exact Hk.
Qed.

Lemma kv_pair_member : forall k v, safe_key k = true -> wf_json v = true -> wf_member (kv_pair k v) = true.
Proof.
  intros k v Hk Hv. destruct (wf_json_run v Hv) as [q [Hq Hrun]].
  unfold wf_member, kv_pair. cbn [app].
  rewrite (run_cons_some ([true], MKey) 34 ([true], MStr true)) by reflexivity.
  rewrite run_safe_key by assumption.
  cbn [app].
  rewrite (run_cons_some ([true], MStr true) 34 ([true], MColon)) by reflexivity.
  rewrite (run_cons_some ([true], MColon) 58 ([true], MVal)) by reflexivity.
  rewrite (run_cons_some ([true], MVal) 32 ([true], MVal)) by reflexivity.
  rewrite Hrun. exact Hq.
Qed.

(* members joined by ", " inside an object whose '{' has been read *)
Lemma run_members : forall ms K m0, Forall (fun m => wf_member m = true) ms -> ms <> [] ->
  wf_member m0 = true ->
  exists q, is_after q = true /\ run (true :: K, MKey) (members_join (m0 :: ms)) = Some (true :: K, q).
Proof.
  induction ms as [|m1 ms IH]; intros K m0 Hall Hne H0; [congruence |].
  inversion Hall as [|? ? H1 Hrest]; subst.
  destruct (wf_member_run m0 H0) as [q0 [Hq0 Hr0]].
  unfold members_join. cbn [join].
  rewrite (run_app_some _ _ _ _ (Hr0 K)).
  cbn [app].
  rewrite (run_cons_some (true :: K, q0) 44 (true :: K, MKey))
    by (rewrite step_after by (auto; unfold delim; auto); reflexivity).
  rewrite (run_cons_some (true :: K, MKey) 32 (true :: K, MKey)) by reflexivity.
  destruct ms as [|m2 ms'].
  - destruct (wf_member_run m1 H1) as [q1 [Hq1 Hr1]]. exists q1. split; [assumption |].
    cbn [join]. apply Hr1.
  - apply (IH K m1 Hrest ltac:(discriminate) H1).
Qed.

Lemma run_members_any : forall ms K, Forall (fun m => wf_member m = true) ms -> ms <> [] ->
  exists q, is_after q = true /\ run (true :: K, MKey) (members_join ms) = Some (true :: K, q).
Proof.
  intros ms K Hall Hne. destruct ms as [|m0 ms]; [congruence |].
  inversion Hall as [|? ? H0 Hrest]; subst.
  destruct ms as [|m1 ms'].
  - destruct (wf_member_run m0 H0) as [q0 [Hq0 Hr0]]. exists q0. split; [assumption |].
    unfold members_join. cbn [join]. apply Hr0.
  - apply run_members; [assumption | discriminate | assumption].
Qed.

Lemma object_run : forall ms K, Forall (fun m => wf_member m = true) ms ->
  run (K, MVal) (obj_of_members ms) = Some (K, MAfter).
Proof.
  intros ms K Hall. unfold obj_of_members. cbn [app].
  rewrite (run_cons_some (K, MVal) 123 (true :: K, MKeyOrClose)) by reflexivity.
  rewrite (run_cons_some (true :: K, MKeyOrClose) 32 (true :: K, MKeyOrClose)) by reflexivity.
  destruct ms as [|m0 ms].
  - reflexivity.
  - (* the first member is read from MKeyOrClose exactly as from MKey: it starts with a quote or white space *)
    destruct (run_members_any (m0 :: ms) K Hall ltac:(discriminate)) as [q [Hq Hr]].
    assert (Hsame : forall s st, run (true :: K, MKey) s = Some st ->
                                 run (true :: K, MKeyOrClose) s = Some st \/ s = [] \/
                                 (forall c, In c s -> is_ws c = true)).
    { induction s as [|c s IHs]; intros st Hs; [right; left; reflexivity |].
      cbn [run] in Hs. cbn [run]. cbn [step] in *.
      destruct (is_ws c) eqn:W.
      - destruct (IHs st Hs) as [A | [A | A]].
        + left. exact A.
        + right. right. subst s. intros c' [<- | []]. exact W.
        + right. right. intros c' [<- | Hin]; [exact W | apply A; exact Hin].
      - destruct (c =? 34) eqn:Q; [| discriminate].
        apply Z.eqb_eq in Q. subst c. left. exact Hs. }
    set (body := members_join (m0 :: ms)) in *.
    destruct (Hsame body _ Hr) as [A | [A | A]].
    + rewrite (run_app_some _ _ _ _ A).
      rewrite (run_cons_some (true :: K, q) 32 (true :: K, MAfter))
        by (rewrite step_after by (auto; unfold delim; auto); reflexivity).
      reflexivity.
    + (* an empty body would leave the automaton in MKey, which is not an after-state *)
      rewrite A in Hr. cbn [run] in Hr. inversion Hr; subst. discriminate.
    + (* a body of white space only: same *)
      assert (Hws : forall s, (forall c, In c s -> is_ws c = true) ->
                              run (true :: K, MKey) s = Some (true :: K, MKey)).
      { induction s as [|c s IHs]; intros Hs; [reflexivity |].
        cbn [run step]. rewrite (Hs c (or_introl eq_refl)). apply IHs.
        intros c' Hc'. apply Hs. right. exact Hc'. }
      rewrite (Hws body A) in Hr. inversion Hr; subst. discriminate.
Qed.

Lemma object_wf : forall ms, Forall (fun m => wf_member m = true) ms -> wf_json (obj_of_members ms) = true.
Proof.
  intros ms Hall. unfold wf_json. rewrite (object_run ms [] Hall). reflexivity.
Qed.

(* an object is itself a value: it can be the value of a member of an outer object *)
Lemma json_object_wf : forall kvs,
  Forall (fun kv => safe_key (fst kv) = true /\ wf_json (snd kv) = true) kvs ->
  wf_json (json_object kvs) = true.
Proof.
  intros kvs H. unfold json_object. apply object_wf.
  induction H as [|kv kvs [Hk Hv] _ IH]; cbn [map]; constructor.
  - apply kv_pair_member; assumption.
  - exact IH.
Qed.

(* single line *)
Lemma single_line_app : forall a b, single_line (a ++ b) = single_line a && single_line b.
Proof. intros a b. unfold single_line. apply forallb_app. Qed.

Lemma single_line_join : forall sep ms, single_line sep = true ->
  Forall (fun m => single_line m = true) ms -> single_line (join sep ms) = true.
Proof.
  intros sep ms Hsep H. induction H as [|m ms Hm Hms IH]; [reflexivity |].
  cbn [join]. destruct ms as [|m' ms']; [exact Hm |].
  rewrite !single_line_app, Hm, Hsep, IH. reflexivity.
Qed.

Lemma object_single_line : forall ms,
  Forall (fun m => single_line m = true) ms -> single_line (obj_of_members ms) = true.
Proof.
  intros ms H. unfold obj_of_members, members_join.
  rewrite !single_line_app, (single_line_join [44; 32] ms eq_refl H). reflexivity.
Qed.

Lemma safe_key_single_line : forall k, safe_key k = true -> single_line k = true.
Proof.
  intros k H. unfold safe_key in H. unfold single_line. apply forallb_forall. intros c Hc.
  rewrite forallb_forall in H. specialize (H c Hc).
  apply andb_true_iff in H. destruct H as [H _]. apply andb_true_iff in H. destruct H as [H _].
  unfold printable_ascii in H. apply andb_true_iff in H. destruct H as [P1 _]. apply Z.leb_le in P1.
  replace (c =? 10) with false by (symmetry; apply Z.eqb_neq; lia).
  replace (c =? 13) with false by (symmetry; apply Z.eqb_neq; lia).
  reflexivity.
Qed.

Lemma kv_pair_single_line : forall k v, safe_key k = true -> single_line v = true -> single_line (kv_pair k v) = true.
Proof.
  intros k v Hk Hv. unfold kv_pair. rewrite !single_line_app, (safe_key_single_line k Hk), Hv. reflexivity.
Qed.

(* keys *)
Lemma upto_quote_safe : forall k r, safe_key k = true -> upto_quote (k ++ 34 :: r) = Some k.
Proof.
  induction k as [|c k IH]; intros r H.
  - reflexivity.
  - unfold safe_key in H. cbn [forallb] in H. apply andb_true_iff in H. destruct H as [Hc Hk].
    apply andb_true_iff in Hc. destruct Hc as [Hc _]. apply andb_true_iff in Hc. destruct Hc as [_ H34].
    apply negb_true_iff in H34. cbn [app upto_quote]. rewrite H34. rewrite (IH r Hk). reflexivity.
Qed.

Lemma member_key_kv_pair : forall k v, safe_key k = true -> member_key (kv_pair k v) = Some k.
Proof. intros k v H. unfold kv_pair, member_key. cbn [app]. apply upto_quote_safe. exact H. Qed.

Lemma list_eqb_eq : forall a b, list_eqb a b = true <-> a = b.
Proof.
  induction a as [|x a IH]; intros [|y b]; cbn [list_eqb]; split; intros H; try reflexivity; try discriminate.
  - apply andb_true_iff in H. destruct H as [H1 H2]. apply Z.eqb_eq in H1. apply IH in H2. subst. reflexivity.
  - inversion H; subst. apply andb_true_iff. split; [apply Z.eqb_refl | apply IH; reflexivity].
Qed.

Lemma dup_free_NoDup : forall ks, dup_free ks = true <-> NoDup ks.
Proof.
  induction ks as [|k ks IH]; cbn [dup_free]; split; intros H.
  - constructor.
  - reflexivity.
  - apply andb_true_iff in H. destruct H as [H1 H2]. constructor.
    + intros Hin. apply negb_true_iff in H1.
      assert (existsb (list_eqb k) ks = true) as E
        by (apply existsb_exists; exists k; split; [exact Hin | apply list_eqb_eq; reflexivity]).
      congruence.
    + apply IH. exact H2.
  - inversion H as [|? ? Hnin Hnd]; subst. apply andb_true_iff. split.
    + apply negb_true_iff. destruct (existsb (list_eqb k) ks) eqn:E; [| reflexivity].
      apply existsb_exists in E. destruct E as [x [Hin Hx]]. apply list_eqb_eq in Hx. subst x. contradiction.
    + apply IH. exact Hnd.
Qed.

Lemma json_object_keys : forall kvs, Forall (fun kv => safe_key (fst kv) = true) kvs ->
  map member_key (map (fun kv => kv_pair (fst kv) (snd kv)) kvs) = map (fun kv => Some (fst kv)) kvs.
Proof.
  intros kvs H. induction H as [|kv kvs Hk _ IH]; [reflexivity |].
  cbn [map]. rewrite member_key_kv_pair by exact Hk. rewrite IH. reflexivity.
Qed.

(* ------------------------------------------------------------------ integers and booleans *)

Ltac zb :=
  repeat match goal with
         | |- context [?a =? ?b] =>
             first [ replace (a =? b) with false by (symmetry; apply Z.eqb_neq; lia)
                   | replace (a =? b) with true by (symmetry; apply Z.eqb_eq; lia) ]
         | |- context [?a <=? ?b] =>
             first [ replace (a <=? b) with false by (symmetry; apply Z.leb_gt; lia)
                   | replace (a <=? b) with true by (symmetry; apply Z.leb_le; lia) ]
         | |- context [?a <? ?b] =>
             first [ replace (a <? b) with false by (symmetry; apply Z.ltb_ge; lia)
                   | replace (a <? b) with true by (symmetry; apply Z.ltb_lt; lia) ]
         end.

Definition digit (c : Z) : Prop := 48 <= c <= 57.

Lemma dec_fuel_shape : forall fuel n acc, 0 < n -> n < 2 ^ Z.of_nat fuel ->
  exists d ds, dec_fuel fuel n acc = d :: ds ++ acc /\ 49 <= d <= 57 /\ Forall digit ds.
Proof.
  induction fuel as [|f IH]; intros n acc Hpos Hlt.
  - cbn in Hlt. lia.
  - cbn [dec_fuel]. destruct (n <? 10) eqn:E.
    + apply Z.ltb_lt in E. exists (48 + n), []. split; [reflexivity |]. split; [lia | constructor].
    + apply Z.ltb_ge in E.
      assert (Hq : 0 < n / 10) by (apply Z.div_str_pos; lia).
      assert (Hq2 : n / 10 < 2 ^ Z.of_nat f).
      { rewrite Nat2Z.inj_succ, Z.pow_succ_r in Hlt by lia.
        assert (n / 10 <= n / 2) by (apply Z.div_le_compat_l; lia).
        assert (n / 2 < 2 ^ Z.of_nat f) by (apply Z.div_lt_upper_bound; lia). lia. }
      destruct (IH (n / 10) ((48 + n mod 10) :: acc) Hq Hq2) as [d [ds [Heq [Hd Hds]]]].
      exists d, (ds ++ [48 + n mod 10]). split.
      * rewrite Heq. rewrite <- app_assoc. reflexivity.
      * split; [exact Hd |]. apply Forall_app. split; [exact Hds |].
        constructor; [| constructor]. unfold digit.
        pose proof (Z.mod_pos_bound n 10 ltac:(lia)). lia.
Qed.

Lemma dec_nat_shape : forall n, 0 < n ->
  exists d ds, dec_nat n = d :: ds /\ 49 <= d <= 57 /\ Forall digit ds.
Proof.
  intros n Hpos. unfold dec_nat.
  assert (Hlt : n < 2 ^ Z.of_nat (S (Z.to_nat (Z.log2 n)))).
  { rewrite Nat2Z.inj_succ, Z2Nat.id by apply Z.log2_nonneg.
    apply Z.log2_spec. exact Hpos. }
  destruct (dec_fuel_shape _ n [] Hpos Hlt) as [d [ds [Heq [Hd Hds]]]].
  exists d, ds. rewrite Heq, app_nil_r. auto.
Qed.

Lemma run_digits : forall ds K, Forall digit ds -> run (K, MNum NInt) ds = Some (K, MNum NInt).
Proof.
  induction ds as [|c ds IH]; intros K H; [reflexivity |].
  inversion H as [|? ? Hc Hds]; subst. unfold digit in Hc.
  rewrite (run_cons_some (K, MNum NInt) c (K, MNum NInt)); [apply IH; exact Hds |].
  cbn [step step_num]. unfold is_digit. zb. reflexivity.
Qed.

Lemma step_first_digit : forall K d, 49 <= d <= 57 -> step (K, MVal) d = Some (K, MNum NInt).
Proof.
  intros K d H. cbn [step]. unfold is_ws, start_value, is_digit. zb. reflexivity.
Qed.

Lemma step_minus_digit : forall K d, 49 <= d <= 57 -> step (K, MNum NMinus) d = Some (K, MNum NInt).
Proof.
  intros K d H. cbn [step step_num]. unfold is_digit. zb. reflexivity.
Qed.

Lemma json_int_run : forall n K, exists q, is_after q = true /\ run (K, MVal) (json_int n) = Some (K, q).
Proof.
  intros n K. unfold json_int. destruct (n <? 0) eqn:E.
  - apply Z.ltb_lt in E.
    destruct (dec_nat_shape (- n) ltac:(lia)) as [d [ds [Heq [Hd Hds]]]].
    exists (MNum NInt). split; [reflexivity |]. rewrite Heq.
    rewrite (run_cons_some (K, MVal) 45 (K, MNum NMinus)) by reflexivity.
    rewrite (run_cons_some _ d _ _ (step_minus_digit K d Hd)).
    apply run_digits. exact Hds.
  - apply Z.ltb_ge in E. destruct (Z.eq_dec n 0) as [-> | Hn].
    + exists (MNum NZero). split; reflexivity.
    + destruct (dec_nat_shape n ltac:(lia)) as [d [ds [Heq [Hd Hds]]]].
      exists (MNum NInt). split; [reflexivity |]. rewrite Heq.
      rewrite (run_cons_some _ d _ _ (step_first_digit K d Hd)).
      apply run_digits. exact Hds.
Qed.

Lemma json_int_wf : forall n, wf_json (json_int n) = true.
Proof.
  intros n. destruct (json_int_run n []) as [q [Hq Hr]]. unfold wf_json. rewrite Hr. exact Hq.
Qed.

Lemma json_bool_wf : forall b, wf_json (json_bool b) = true.
Proof. intros [|]; reflexivity. Qed.

(* ------------------------------------------------------------------ oneline *)

Definition text_char_ok (pr : Z -> bool) (x : Z) : Prop := plain x \/ (128 <= x /\ pr x = true).

Lemma oneline_char_strong : forall pr c,
  Forall (fun x => plain x \/ (x = c /\ 128 <= c /\ pr c = true)) (oneline_char pr c).
Proof.
  intros pr c. unfold oneline_char.
  assert (Hp : forall l, Forall plain l -> Forall (fun x => plain x \/ (x = c /\ 128 <= c /\ pr c = true)) l).
  { intros l Hl. eapply Forall_impl; [| exact Hl]. intros a Ha. left. exact Ha. }
  assert (H92 : plain 92) by (unfold plain; lia).
  destruct (printable_ascii c) eqn:P.
  - unfold printable_ascii in P. apply andb_true_iff in P. destruct P as [P1 P2].
    apply Z.leb_le in P1. apply Z.leb_le in P2. constructor; [left; unfold plain; lia | constructor].
  - destruct (c =? 9); [apply Hp; repeat constructor; unfold plain; lia |].
    destruct (c =? 10); [apply Hp; repeat constructor; unfold plain; lia |].
    destruct (c =? 13); [apply Hp; repeat constructor; unfold plain; lia |].
    destruct (c <? 128) eqn:L.
    + apply Hp. apply Forall_app. split; [| apply Forall_plain_hex2].
      constructor; [exact H92 | constructor; [unfold plain; lia | constructor]].
    + apply Z.ltb_ge in L. destruct (pr c) eqn:R.
      * constructor; [right; split; [reflexivity | split; [lia | reflexivity]] | constructor].
      * destruct (c <? 256).
        { apply Hp. apply Forall_app. split; [| apply Forall_plain_hex2].
          constructor; [exact H92 | constructor; [unfold plain; lia | constructor]]. }
        destruct (c <? 65536).
        { apply Hp. apply Forall_app. split; [| apply Forall_plain_hex4].
          constructor; [exact H92 | constructor; [unfold plain; lia | constructor]]. }
        apply Hp. apply Forall_app. split.
        { constructor; [exact H92 | constructor; [unfold plain; lia | constructor]]. }
        unfold hex8. apply Forall_app. split; apply Forall_plain_hex4.
Qed.

Lemma oneline_char_ok : forall pr c, Forall (text_char_ok pr) (oneline_char pr c).
Proof.
  intros pr c. eapply Forall_impl; [| apply oneline_char_strong].
  intros a [Ha | [-> [H1 H2]]]; [left; exact Ha | right; split; assumption].
Qed.

Lemma oneline_ok : forall pr s, Forall (text_char_ok pr) (oneline pr s).
Proof.
  intros pr s. induction s as [|c s IH]; unfold oneline; cbn [flat_map].
  - constructor.
  - apply Forall_app. split; [apply oneline_char_ok | exact IH].
Qed.

Lemma oneline_no_control : forall pr s x, In x (oneline pr s) -> 32 <= x /\ x <> 127.
Proof.
  intros pr s x Hin. pose proof (oneline_ok pr s) as H. rewrite Forall_forall in H.
  destruct (H x Hin) as [Hp | [Hge _]]; unfold plain in *; lia.
Qed.

Lemma oneline_plain_partial : forall pr s,
  (forall c, In c s -> 128 <= c -> pr c = false) -> Forall plain (oneline pr s).
Proof.
  intros pr s Hs.
  induction s as [|c s IH]; unfold oneline; cbn [flat_map]; [constructor |].
  apply Forall_app. split.
  - eapply Forall_impl; [| apply oneline_char_strong].
    intros a [Ha | [_ [H1 H2]]]; [exact Ha |].
    rewrite (Hs c (or_introl eq_refl) H1) in H2. discriminate.
  - apply IH. intros c' Hc'. apply Hs. right. exact Hc'.
Qed.

Lemma oneline_ascii_partial : forall pr s,
  (forall c, In c s -> 128 <= c -> pr c = false) -> ascii_encodable (oneline pr s) = true.
Proof. intros pr s Hs. apply plain_ascii_encodable, oneline_plain_partial, Hs. Qed.

(* ------------------------------------------------------------------ the attribute object's keys *)

Lemma attr_keys_ok_sound : forall (H : Type) (t : list (Z * H * list Z * bool)),
  attr_keys_ok t = true ->
  NoDup (emitted_names t) /\
  (forall n, In n (emitted_names t) -> safe_key n = true /\ is_prefix generic_prefix n = false).
Proof.
  intros H t Hok. unfold attr_keys_ok in Hok. apply andb_true_iff in Hok. destruct Hok as [H1 H2].
  split; [apply dup_free_NoDup; exact H1 |].
  intros n Hn. rewrite forallb_forall in H2. specialize (H2 n Hn).
  apply andb_true_iff in H2. destruct H2 as [A B]. apply negb_true_iff in B. auto.
Qed.

Lemma attr_keys_ok_complete : forall (H : Type) (t : list (Z * H * list Z * bool)),
  NoDup (emitted_names t) ->
  (forall n, In n (emitted_names t) -> safe_key n = true /\ is_prefix generic_prefix n = false) ->
  attr_keys_ok t = true.
Proof.
  intros H t Hnd Hall. unfold attr_keys_ok. apply andb_true_iff. split.
  - apply dup_free_NoDup. exact Hnd.
  - apply forallb_forall. intros n Hn. destruct (Hall n Hn) as [A B]. rewrite A, B. reflexivity.
Qed.

(* ------------------------------------------------------------------ facts about the regenerated tables
   (each proof computes both sides, so it goes through on the pinned tree and on a repaired one) *)

Definition key_name {H : Type} (code : Z) (t : list (Z * H * list Z * bool)) : option (list Z) :=
  match filter (fun r => match r with (c, _, _, e) => (c =? code) && e end) t with
  | (_, _, n, _) :: _ => Some n
  | [] => None
  end.

Definition opt_eqb (a b : option (list Z)) : bool :=
  match a, b with
  | Some x, Some y => list_eqb x y
  | None, None => true
  | _, _ => false
  end.

Lemma opt_eqb_eq : forall a b, opt_eqb a b = true <-> a = b.
Proof.
  intros [x|] [y|]; cbn [opt_eqb]; split; intros H; try reflexivity; try discriminate.
  - apply list_eqb_eq in H. subst. reflexivity.
  - inversion H; subst. apply list_eqb_eq. reflexivity.
Qed.

Lemma regenerated_keys_bool :
  attr_keys_ok attr_key_table = negb (opt_eqb (key_name 18 attr_key_table) (key_name 7 attr_key_table)).
Proof. vm_compute. reflexivity. Qed.

Lemma regenerated_keys_iff :
  attr_keys_ok attr_key_table = true <-> key_name 18 attr_key_table <> key_name 7 attr_key_table.
Proof.
  rewrite regenerated_keys_bool. rewrite negb_true_iff. split.
  - intros H E. apply opt_eqb_eq in E. congruence.
  - intros H. destruct (opt_eqb _ _) eqn:E; [| reflexivity]. apply opt_eqb_eq in E. contradiction.
Qed.

Lemma regenerated_keys_partial : attr_keys_ok (drop_code 18 attr_key_table) = true.
Proof. vm_compute. reflexivity. Qed.

(* the table of the pinned tree (commit e83aeb2), copied by hand: rows (code, name, emitted) *)
Definition pinned_attr_key_table : list (Z * unit * list Z * bool) :=
  [(1, tt, [111;114;105;103;105;110], true);
   (2, tt, [97;115;45;112;97;116;104], true);
   (3, tt, [110;101;120;116;45;104;111;112], true);
   (4, tt, [109;101;100], true);
   (5, tt, [108;111;99;97;108;45;112;114;101;102;101;114;101;110;99;101], true);
   (6, tt, [97;116;111;109;105;99;45;97;103;103;114;101;103;97;116;101], true);
   (7, tt, [97;103;103;114;101;103;97;116;111;114], true);
   (8, tt, [99;111;109;109;117;110;105;116;121], true);
   (9, tt, [111;114;105;103;105;110;97;116;111;114;45;105;100], true);
   (10, tt, [99;108;117;115;116;101;114;45;108;105;115;116], true);
   (16, tt, [101;120;116;101;110;100;101;100;45;99;111;109;109;117;110;105;116;121], true);
   (18, tt, [97;103;103;114;101;103;97;116;111;114], true);
   (22, tt, [112;109;115;105], true);
   (23, tt, [116;117;110;110;101;108;45;101;110;99;97;112], true);
   (25, tt, [101;120;116;101;110;100;101;100;45;99;111;109;109;117;110;105;116;121;45;105;112;118;54], true);
   (26, tt, [97;105;103;112], true);
   (29, tt, [98;103;112;45;108;115], true);
   (32, tt, [108;97;114;103;101;45;99;111;109;109;117;110;105;116;121], true);
   (40, tt, [98;103;112;45;112;114;101;102;105;120;45;115;105;100], true);
   (65530, tt, [110;97;109;101], false);
   (65534, tt, [101;114;114;111;114], false);
   (65535, tt, [101;114;114;111;114], false)].

Lemma pinned_keys_refuted :
  key_name 7 pinned_attr_key_table = key_name 18 pinned_attr_key_table
  /\ key_name 7 pinned_attr_key_table = Some [97;103;103;114;101;103;97;116;111;114]
  /\ ~ NoDup (emitted_names pinned_attr_key_table).
Proof.
  split; [reflexivity |]. split; [reflexivity |].
  intros H. apply dup_free_NoDup in H. vm_compute in H. discriminate.
Qed.

(* is the regenerated table still the pinned one?  (names and emitted flags, row by row) *)
Definition same_rows {H1 H2 : Type} (a : list (Z * H1 * list Z * bool)) (b : list (Z * H2 * list Z * bool)) : bool :=
  list_eqb (map (fun r => match r with (c, _, _, _) => c end) a) (map (fun r => match r with (c, _, _, _) => c end) b)
  && forallb (fun c => opt_eqb (key_name c a) (key_name c b)) (map (fun r => match r with (c, _, _, _) => c end) a).

(* text encoder + Processes.write on the regenerated Latin-1 table *)
Definition latin1_range : list Z := map (fun n => 128 + Z.of_nat n) (seq 0 128).

Lemma regenerated_text_ascii_bool :
  ascii_encodable (oneline (in_table oneline_kept_latin1) latin1_range)
  = match oneline_kept_latin1 with [] => true | _ => false end.
Proof. vm_compute. reflexivity. Qed.

Lemma text_ascii_refuted : forall pr, pr 233 = true -> ascii_encodable (oneline pr [233]) = false.
Proof.
  intros pr H. unfold oneline. cbn [flat_map]. unfold oneline_char.
  change (printable_ascii 233) with false. cbn beta iota.
  change (233 =? 9) with false. change (233 =? 10) with false. change (233 =? 13) with false.
  change (233 <? 128) with false. cbn beta iota. rewrite H. reflexivity.
Qed.

(* ------------------------------------------------------------------ statements as used by Prop_C13 *)

Lemma escape_safe : forall s,
  Forall (fun c => 32 <= c <= 126) (escape s)
  /\ forall stk key rest, run (stk, MStr key) (escape s ++ rest) = run (stk, MStr key) rest.
Proof. intros s. split; [apply escape_plain | intros; apply run_escape]. Qed.

Lemma json_string_plain : forall s, Forall plain (json_string s).
Proof.
  intros s. unfold json_string. apply Forall_app. split; [repeat constructor; unfold plain; lia |].
  apply Forall_app. split; [apply escape_plain | repeat constructor; unfold plain; lia].
Qed.

Lemma escaped_string_full : forall s,
  wf_json (json_string s) = true /\ single_line (json_string s) = true /\ ascii_encodable (json_string s) = true.
Proof.
  intros s. split; [apply escaped_string_wf |].
  split; [apply plain_single_line | apply plain_ascii_encodable]; apply json_string_plain.
Qed.

Lemma scalar_wf : forall n b, wf_json (json_int n) = true /\ wf_json (json_bool b) = true.
Proof. intros n b. split; [apply json_int_wf | apply json_bool_wf]. Qed.

Lemma member_full : forall k v,
  safe_key k = true -> wf_json v = true ->
  wf_member (kv_pair k v) = true /\ member_key (kv_pair k v) = Some k.
Proof. intros k v Hk Hv. split; [apply kv_pair_member; assumption | apply member_key_kv_pair; assumption]. Qed.

Lemma object_of_members_full : forall ms,
  Forall (fun m => wf_member m = true) ms ->
  wf_json (obj_of_members ms) = true /\ forall K, run (K, MVal) (obj_of_members ms) = Some (K, MAfter).
Proof. intros ms H. split; [apply object_wf; exact H | intros K; apply object_run; exact H]. Qed.

Lemma object_full : forall kvs,
  Forall (fun kv => safe_key (fst kv) = true /\ wf_json (snd kv) = true) kvs ->
  Forall (fun kv => single_line (snd kv) = true) kvs ->
  NoDup (map fst kvs) ->
  wf_json (json_object kvs) = true
  /\ single_line (json_object kvs) = true
  /\ map member_key (map (fun kv => kv_pair (fst kv) (snd kv)) kvs) = map (fun kv => Some (fst kv)) kvs
  /\ dup_free (map fst kvs) = true.
Proof.
  intros kvs Hwf Hsl Hnd. split; [apply json_object_wf; exact Hwf |].
  split.
  - unfold json_object. apply object_single_line.
    rewrite Forall_forall in *. intros m Hm. apply in_map_iff in Hm. destruct Hm as [kv [<- Hin]].
    apply kv_pair_single_line; [apply (Hwf kv Hin) | apply (Hsl kv Hin)].
  - split.
    + apply json_object_keys. eapply Forall_impl; [| exact Hwf]. intros kv [A _]. exact A.
    + apply dup_free_NoDup. exact Hnd.
Qed.

Lemma keys_criterion : forall (H : Type) (t : list (Z * H * list Z * bool)),
  attr_keys_ok t = true <->
  (NoDup (emitted_names t)
   /\ forall n, In n (emitted_names t) -> safe_key n = true /\ is_prefix generic_prefix n = false).
Proof.
  intros H t. split; [apply attr_keys_ok_sound |].
  intros [A B]. apply attr_keys_ok_complete; assumption.
Qed.

Lemma oneline_no_control_full : forall pr s x,
  In x (oneline pr s) -> 32 <= x /\ x <> 127 /\ (x <= 126 \/ (128 <= x /\ pr x = true)).
Proof.
  intros pr s x Hin. pose proof (oneline_ok pr s) as H. rewrite Forall_forall in H.
  destruct (H x Hin) as [Hp | [Hge Hpr]]; unfold plain in *.
  - split; [lia |]. split; [lia | left; lia].
  - split; [lia |]. split; [lia | right; split; assumption].
Qed.

Lemma regenerated_text_ascii_iff :
  ascii_encodable (oneline (in_table oneline_kept_latin1) latin1_range) = true <-> oneline_kept_latin1 = [].
Proof.
  rewrite regenerated_text_ascii_bool. destruct oneline_kept_latin1; split; intros H; try reflexivity; discriminate.
Qed.
