(* C18 - value domains: the parser's accept predicates (generated from the source, gen/Gen_TextDomains.v)
   against what the wire format can hold (model/Model_Text.v).  Every proof below depends only on the SHAPE of
   the generated predicate (a boolean combination of comparisons of v with numerals): `text_iff` turns it into
   linear arithmetic and calls lia, so a repaired bound is picked up without touching the script. *)
From Coq Require Import ZArith Bool List Lia.
From ExaV Require Import gen.Gen_TextDomains model.Model_Text.
Import ListNotations.
Open Scope Z_scope.

(* ---- shape tactics *)
Ltac fold_pows :=
  repeat match goal with
  | |- context [2 ^ ?w] => let c := eval vm_compute in (2 ^ w) in change (2 ^ w) with c
  | H : context [2 ^ ?w] |- _ => let c := eval vm_compute in (2 ^ w) in change (2 ^ w) with c in H
  end.
Ltac b2p :=
  repeat (rewrite ?Z.gtb_ltb, ?Z.geb_leb in * );
  repeat (rewrite ?andb_true_iff, ?orb_true_iff, ?negb_true_iff, ?andb_false_iff, ?orb_false_iff, ?negb_false_iff,
                  ?Z.leb_le, ?Z.ltb_lt, ?Z.leb_gt, ?Z.ltb_ge, ?Z.eqb_eq, ?Z.eqb_neq in * ).
Ltac text_unfold := cbv [fits within]; fold_pows.
(* accept v = true <-> repr v = true, both sides boolean combinations of comparisons with numerals *)
Ltac text_iff := text_unfold; b2p; lia.
Ltac text_refute w := exists w; vm_compute; discriminate.

(* ---- big-endian encoders *)
Lemma rd_be_app : forall l b acc, rd_be (l ++ [b]) acc = rd_be l acc * 256 + b.
Proof. induction l as [|x l IH]; intros b acc; cbn [rd_be app]; [reflexivity | apply IH]. Qed.

Lemma be_length : forall n v, length (be n v) = n.
Proof.
  induction n as [|n IH]; intros v; cbn [be]; [reflexivity|].
  rewrite app_length, IH. cbn [length]. lia.
Qed.

Lemma be_roundtrip : forall n v, 0 <= v < 256 ^ Z.of_nat n -> rd_be (be n v) 0 = v.
Proof.
  induction n as [|n IH]; intros v Hv.
  - change (256 ^ Z.of_nat 0) with 1 in Hv. cbn [be rd_be]. lia.
  - cbn [be]. rewrite rd_be_app. rewrite Nat2Z.inj_succ, Z.pow_succ_r in Hv by lia.
    rewrite IH.
    + pose proof (Z.div_mod v 256 ltac:(lia)) as E. lia.
    + split; [apply Z.div_pos; lia | apply Z.div_lt_upper_bound; lia].
Qed.

Lemma u_encodes : forall n w v, 2 ^ w <= 256 ^ Z.of_nat n -> fits w v = true ->
  dec_u (be n v) = v /\ length (be n v) = n.
Proof.
  intros n w v Hw Hf. split; [|apply be_length].
  unfold dec_u. apply be_roundtrip. unfold fits in Hf. b2p. lia.
Qed.

Lemma within_encodes : forall hi v, hi < 256 -> within 0 hi v = true -> dec_u (be 1 v) = v /\ length (be 1 v) = 1%nat.
Proof.
  intros hi v Hh Hf. split; [|reflexivity].
  unfold dec_u. apply be_roundtrip. change (256 ^ Z.of_nat 1) with 256. unfold within in Hf. b2p. lia.
Qed.

Lemma label_encodes : forall v, fits 20 v = true -> dec_label (enc_label v) = v /\ length (enc_label v) = 3%nat.
Proof.
  intros v Hf. split; [|apply be_length].
  unfold dec_label, enc_label, dec_u. rewrite be_roundtrip.
  - symmetry. apply (Z.div_unique (v * 16 + 1) 16 v 1); lia.
  - change (256 ^ Z.of_nat 3) with 16777216. revert Hf. text_unfold. b2p. lia.
Qed.

Lemma flow12_encodes : forall v, fits 16 v = true ->
  dec_u (enc_flow12 v) = v /\ (length (enc_flow12 v) = 1%nat \/ length (enc_flow12 v) = 2%nat).
Proof.
  intros v Hf. revert Hf. text_unfold. intros Hf. b2p. unfold enc_flow12, dec_u.
  destruct (Z.ltb_spec v 256).
  - split; [apply be_roundtrip; change (256 ^ Z.of_nat 1) with 256; lia | left; reflexivity].
  - split; [apply be_roundtrip; change (256 ^ Z.of_nat 2) with 65536; lia | right; reflexivity].
Qed.

Lemma flow124_encodes : forall v, fits 20 v = true ->
  dec_u (enc_flow124 v) = v /\ In (length (enc_flow124 v)) [1%nat; 2%nat; 4%nat].
Proof.
  intros v Hf. revert Hf. text_unfold. intros Hf. b2p. unfold enc_flow124, dec_u.
  destruct (Z.ltb_spec v 256); [|destruct (Z.ltb_spec v 65536)].
  - split; [apply be_roundtrip; change (256 ^ Z.of_nat 1) with 256; lia | cbn; auto].
  - split; [apply be_roundtrip; change (256 ^ Z.of_nat 2) with 65536; lia | cbn; auto].
  - split; [apply be_roundtrip; change (256 ^ Z.of_nat 4) with 4294967296; lia | cbn; auto].
Qed.

Lemma rd_encodes : forall n s, repr_rd n s = true -> dec_rd (enc_rd n s) = (n, s) /\ length (enc_rd n s) = 8%nat.
Proof.
  intros n s H. unfold repr_rd in H. revert H. text_unfold. intros H. b2p. unfold enc_rd.
  destruct (Z.ltb_spec n 65536) as [Hn|Hn].
  - assert (Hs : 0 <= s < 4294967296) by lia.
    cbn [be app]. cbn [dec_rd]. split; [|reflexivity]. unfold dec_u. cbn [rd_be]. f_equal.
    + pose proof (Z.div_mod n 256 ltac:(lia)). assert (n / 256 / 256 = 0) by (apply Z.div_small; split; [apply Z.div_pos; lia | apply Z.div_lt_upper_bound; lia]).
      pose proof (Z.div_mod (n / 256) 256 ltac:(lia)). lia.
    + change (rd_be (be 4 s) 0 = s). apply be_roundtrip. change (256 ^ Z.of_nat 4) with 4294967296. lia.
  - assert (Hs : 0 <= s < 65536 /\ 0 <= n < 4294967296) by lia.
    cbn [be app]. cbn [dec_rd]. split; [|reflexivity]. unfold dec_u. f_equal.
    + change (rd_be (be 4 n) 0 = n). apply be_roundtrip. change (256 ^ Z.of_nat 4) with 4294967296. lia.
    + change (rd_be (be 2 s) 0 = s). apply be_roundtrip. change (256 ^ Z.of_nat 2) with 65536. lia.
Qed.

(* ---- per field.  representable_encodes_<f> is about the wire format only (holds whatever the parser does) *)

(* med *)
Lemma representable_encodes_med : forall v, repr_med v = true -> dec_med (enc_med v) = v /\ length (enc_med v) = 4%nat.
Proof. intros v H. apply (u_encodes 4 32); [vm_compute; discriminate | exact H]. Qed.
Lemma accept_iff_repr_med : forall v, accept_med v = true <-> repr_med v = true.
Proof. intros v; unfold accept_med, repr_med; text_iff. Qed.
Lemma accepted_encodes_med : forall v, accept_med v = true -> dec_med (enc_med v) = v /\ length (enc_med v) = 4%nat.
Proof. intros v H. apply representable_encodes_med. apply accept_iff_repr_med. exact H. Qed.

(* local_preference *)
Lemma representable_encodes_local_preference : forall v, repr_local_preference v = true -> dec_local_preference (enc_local_preference v) = v /\ length (enc_local_preference v) = 4%nat.
Proof. intros v H. apply (u_encodes 4 32); [vm_compute; discriminate | exact H]. Qed.
Lemma accept_iff_repr_local_preference : forall v, accept_local_preference v = true <-> repr_local_preference v = true.
Proof. intros v; unfold accept_local_preference, repr_local_preference; text_iff. Qed.
Lemma accepted_encodes_local_preference : forall v, accept_local_preference v = true -> dec_local_preference (enc_local_preference v) = v /\ length (enc_local_preference v) = 4%nat.
Proof. intros v H. apply representable_encodes_local_preference. apply accept_iff_repr_local_preference. exact H. Qed.

(* aigp *)
Lemma representable_encodes_aigp : forall v, repr_aigp v = true -> dec_aigp (enc_aigp v) = v /\ length (enc_aigp v) = 8%nat.
Proof. intros v H. apply (u_encodes 8 64); [vm_compute; discriminate | exact H]. Qed.
Lemma accept_iff_repr_aigp : forall v, accept_aigp v = true <-> repr_aigp v = true.
Proof. intros v; unfold accept_aigp, repr_aigp; text_iff. Qed.
Lemma accepted_encodes_aigp : forall v, accept_aigp v = true -> dec_aigp (enc_aigp v) = v /\ length (enc_aigp v) = 8%nat.
Proof. intros v H. apply representable_encodes_aigp. apply accept_iff_repr_aigp. exact H. Qed.

(* asn *)
Lemma representable_encodes_asn : forall v, repr_asn v = true -> dec_asn (enc_asn v) = v /\ length (enc_asn v) = 4%nat.
Proof. intros v H. apply (u_encodes 4 32); [vm_compute; discriminate | exact H]. Qed.
Lemma accept_iff_repr_asn : forall v, accept_asn v = true <-> repr_asn v = true.
Proof. intros v; unfold accept_asn, repr_asn; text_iff. Qed.
Lemma accepted_encodes_asn : forall v, accept_asn v = true -> dec_asn (enc_asn v) = v /\ length (enc_asn v) = 4%nat.
Proof. intros v H. apply representable_encodes_asn. apply accept_iff_repr_asn. exact H. Qed.

(* asn_dotted_part *)
Lemma representable_encodes_asn_dotted_part : forall v, repr_asn_dotted_part v = true -> dec_asn_dotted_part (enc_asn_dotted_part v) = v /\ length (enc_asn_dotted_part v) = 2%nat.
Proof. intros v H. apply (u_encodes 2 16); [vm_compute; discriminate | exact H]. Qed.
Lemma accept_iff_repr_asn_dotted_part : forall v, accept_asn_dotted_part v = true <-> repr_asn_dotted_part v = true.
Proof. intros v; unfold accept_asn_dotted_part, repr_asn_dotted_part; text_iff. Qed.
Lemma accepted_encodes_asn_dotted_part : forall v, accept_asn_dotted_part v = true -> dec_asn_dotted_part (enc_asn_dotted_part v) = v /\ length (enc_asn_dotted_part v) = 2%nat.
Proof. intros v H. apply representable_encodes_asn_dotted_part. apply accept_iff_repr_asn_dotted_part. exact H. Qed.

(* community_high *)
Lemma representable_encodes_community_high : forall v, repr_community_high v = true -> dec_community_high (enc_community_high v) = v /\ length (enc_community_high v) = 2%nat.
Proof. intros v H. apply (u_encodes 2 16); [vm_compute; discriminate | exact H]. Qed.
Lemma accept_iff_repr_community_high : forall v, accept_community_high v = true <-> repr_community_high v = true.
Proof. intros v; unfold accept_community_high, repr_community_high; text_iff. Qed.
Lemma accepted_encodes_community_high : forall v, accept_community_high v = true -> dec_community_high (enc_community_high v) = v /\ length (enc_community_high v) = 2%nat.
Proof. intros v H. apply representable_encodes_community_high. apply accept_iff_repr_community_high. exact H. Qed.

(* community_low *)
Lemma representable_encodes_community_low : forall v, repr_community_low v = true -> dec_community_low (enc_community_low v) = v /\ length (enc_community_low v) = 2%nat.
Proof. intros v H. apply (u_encodes 2 16); [vm_compute; discriminate | exact H]. Qed.
Lemma accept_iff_repr_community_low : forall v, accept_community_low v = true <-> repr_community_low v = true.
Proof. intros v; unfold accept_community_low, repr_community_low; text_iff. Qed.
Lemma accepted_encodes_community_low : forall v, accept_community_low v = true -> dec_community_low (enc_community_low v) = v /\ length (enc_community_low v) = 2%nat.
Proof. intros v H. apply representable_encodes_community_low. apply accept_iff_repr_community_low. exact H. Qed.

(* community_number *)
Lemma representable_encodes_community_number : forall v, repr_community_number v = true -> dec_community_number (enc_community_number v) = v /\ length (enc_community_number v) = 4%nat.
Proof. intros v H. apply (u_encodes 4 32); [vm_compute; discriminate | exact H]. Qed.
Lemma accept_iff_repr_community_number : forall v, accept_community_number v = true <-> repr_community_number v = true.
Proof. intros v; unfold accept_community_number, repr_community_number; text_iff. Qed.
Lemma accepted_encodes_community_number : forall v, accept_community_number v = true -> dec_community_number (enc_community_number v) = v /\ length (enc_community_number v) = 4%nat.
Proof. intros v H. apply representable_encodes_community_number. apply accept_iff_repr_community_number. exact H. Qed.

(* large_community_part *)
Lemma representable_encodes_large_community_part : forall v, repr_large_community_part v = true -> dec_large_community_part (enc_large_community_part v) = v /\ length (enc_large_community_part v) = 4%nat.
Proof. intros v H. apply (u_encodes 4 32); [vm_compute; discriminate | exact H]. Qed.
Lemma accept_iff_repr_large_community_part : forall v, accept_large_community_part v = true <-> repr_large_community_part v = true.
Proof. intros v; unfold accept_large_community_part, repr_large_community_part; text_iff. Qed.
Lemma accepted_encodes_large_community_part : forall v, accept_large_community_part v = true -> dec_large_community_part (enc_large_community_part v) = v /\ length (enc_large_community_part v) = 4%nat.
Proof. intros v H. apply representable_encodes_large_community_part. apply accept_iff_repr_large_community_part. exact H. Qed.

(* label *)
Lemma representable_encodes_label : forall v, repr_label v = true -> dec_label (enc_label v) = v /\ length (enc_label v) = 3%nat.
Proof. exact label_encodes. Qed.
Lemma accept_iff_repr_label : forall v, accept_label v = true <-> repr_label v = true.
Proof. intros v; unfold accept_label, repr_label; text_iff. Qed.
Lemma accepted_encodes_label : forall v, accept_label v = true -> dec_label (enc_label v) = v /\ length (enc_label v) = 3%nat.
Proof. intros v H. apply representable_encodes_label. apply accept_iff_repr_label. exact H. Qed.

(* path_information *)
Lemma representable_encodes_path_information : forall v, repr_path_information v = true -> dec_path_information (enc_path_information v) = v /\ length (enc_path_information v) = 4%nat.
Proof. intros v H. apply (u_encodes 4 32); [vm_compute; discriminate | exact H]. Qed.
Lemma accept_iff_repr_path_information : forall v, accept_path_information v = true <-> repr_path_information v = true.
Proof. intros v; unfold accept_path_information, repr_path_information; text_iff. Qed.
Lemma accepted_encodes_path_information : forall v, accept_path_information v = true -> dec_path_information (enc_path_information v) = v /\ length (enc_path_information v) = 4%nat.
Proof. intros v H. apply representable_encodes_path_information. apply accept_iff_repr_path_information. exact H. Qed.

(* attribute_code *)
Lemma representable_encodes_attribute_code : forall v, repr_attribute_code v = true -> dec_attribute_code (enc_attribute_code v) = v /\ length (enc_attribute_code v) = 1%nat.
Proof. intros v H. apply (u_encodes 1 8); [vm_compute; discriminate | exact H]. Qed.
Lemma accept_iff_repr_attribute_code : forall v, accept_attribute_code v = true <-> repr_attribute_code v = true.
Proof. intros v; unfold accept_attribute_code, repr_attribute_code; text_iff. Qed.
Lemma accepted_encodes_attribute_code : forall v, accept_attribute_code v = true -> dec_attribute_code (enc_attribute_code v) = v /\ length (enc_attribute_code v) = 1%nat.
Proof. intros v H. apply representable_encodes_attribute_code. apply accept_iff_repr_attribute_code. exact H. Qed.

(* attribute_flag *)
Lemma representable_encodes_attribute_flag : forall v, repr_attribute_flag v = true -> dec_attribute_flag (enc_attribute_flag v) = v /\ length (enc_attribute_flag v) = 1%nat.
Proof. intros v H. apply (u_encodes 1 8); [vm_compute; discriminate | exact H]. Qed.
Lemma accept_iff_repr_attribute_flag : forall v, accept_attribute_flag v = true <-> repr_attribute_flag v = true.
Proof. intros v; unfold accept_attribute_flag, repr_attribute_flag; text_iff. Qed.
Lemma accepted_encodes_attribute_flag : forall v, accept_attribute_flag v = true -> dec_attribute_flag (enc_attribute_flag v) = v /\ length (enc_attribute_flag v) = 1%nat.
Proof. intros v H. apply representable_encodes_attribute_flag. apply accept_iff_repr_attribute_flag. exact H. Qed.

(* vpls_endpoint *)
Lemma representable_encodes_vpls_endpoint : forall v, repr_vpls_endpoint v = true -> dec_vpls_endpoint (enc_vpls_endpoint v) = v /\ length (enc_vpls_endpoint v) = 2%nat.
Proof. intros v H. apply (u_encodes 2 16); [vm_compute; discriminate | exact H]. Qed.
Lemma accept_iff_repr_vpls_endpoint : forall v, accept_vpls_endpoint v = true <-> repr_vpls_endpoint v = true.
Proof. intros v; unfold accept_vpls_endpoint, repr_vpls_endpoint; text_iff. Qed.
Lemma accepted_encodes_vpls_endpoint : forall v, accept_vpls_endpoint v = true -> dec_vpls_endpoint (enc_vpls_endpoint v) = v /\ length (enc_vpls_endpoint v) = 2%nat.
Proof. intros v H. apply representable_encodes_vpls_endpoint. apply accept_iff_repr_vpls_endpoint. exact H. Qed.

(* vpls_size *)
Lemma representable_encodes_vpls_size : forall v, repr_vpls_size v = true -> dec_vpls_size (enc_vpls_size v) = v /\ length (enc_vpls_size v) = 2%nat.
Proof. intros v H. apply (u_encodes 2 16); [vm_compute; discriminate | exact H]. Qed.
Lemma accept_iff_repr_vpls_size : forall v, accept_vpls_size v = true <-> repr_vpls_size v = true.
Proof. intros v; unfold accept_vpls_size, repr_vpls_size; text_iff. Qed.
Lemma accepted_encodes_vpls_size : forall v, accept_vpls_size v = true -> dec_vpls_size (enc_vpls_size v) = v /\ length (enc_vpls_size v) = 2%nat.
Proof. intros v H. apply representable_encodes_vpls_size. apply accept_iff_repr_vpls_size. exact H. Qed.

(* vpls_offset *)
Lemma representable_encodes_vpls_offset : forall v, repr_vpls_offset v = true -> dec_vpls_offset (enc_vpls_offset v) = v /\ length (enc_vpls_offset v) = 2%nat.
Proof. intros v H. apply (u_encodes 2 16); [vm_compute; discriminate | exact H]. Qed.
Lemma accept_iff_repr_vpls_offset : forall v, accept_vpls_offset v = true <-> repr_vpls_offset v = true.
Proof. intros v; unfold accept_vpls_offset, repr_vpls_offset; text_iff. Qed.
Lemma accepted_encodes_vpls_offset : forall v, accept_vpls_offset v = true -> dec_vpls_offset (enc_vpls_offset v) = v /\ length (enc_vpls_offset v) = 2%nat.
Proof. intros v H. apply representable_encodes_vpls_offset. apply accept_iff_repr_vpls_offset. exact H. Qed.

(* vpls_base *)
Lemma representable_encodes_vpls_base : forall v, repr_vpls_base v = true -> dec_vpls_base (enc_vpls_base v) = v /\ length (enc_vpls_base v) = 3%nat.
Proof. exact label_encodes. Qed.
Lemma accept_iff_repr_vpls_base : forall v, accept_vpls_base v = true <-> repr_vpls_base v = true.
Proof. intros v; unfold accept_vpls_base, repr_vpls_base; text_iff. Qed.
Lemma accepted_encodes_vpls_base : forall v, accept_vpls_base v = true -> dec_vpls_base (enc_vpls_base v) = v /\ length (enc_vpls_base v) = 3%nat.
Proof. intros v H. apply representable_encodes_vpls_base. apply accept_iff_repr_vpls_base. exact H. Qed.

(* flow_port *)
Lemma representable_encodes_flow_port : forall v, repr_flow_port v = true -> dec_flow_port (enc_flow_port v) = v /\ (length (enc_flow_port v) = 1%nat \/ length (enc_flow_port v) = 2%nat).
Proof. exact flow12_encodes. Qed.
Lemma accept_iff_repr_flow_port : forall v, accept_flow_port v = true <-> repr_flow_port v = true.
Proof. intros v; unfold accept_flow_port, repr_flow_port; text_iff. Qed.
Lemma accepted_encodes_flow_port : forall v, accept_flow_port v = true -> dec_flow_port (enc_flow_port v) = v /\ (length (enc_flow_port v) = 1%nat \/ length (enc_flow_port v) = 2%nat).
Proof. intros v H. apply representable_encodes_flow_port. apply accept_iff_repr_flow_port. exact H. Qed.

(* flow_packet_length *)
Lemma representable_encodes_flow_packet_length : forall v, repr_flow_packet_length v = true -> dec_flow_packet_length (enc_flow_packet_length v) = v /\ (length (enc_flow_packet_length v) = 1%nat \/ length (enc_flow_packet_length v) = 2%nat).
Proof. exact flow12_encodes. Qed.
Lemma accept_iff_repr_flow_packet_length : forall v, accept_flow_packet_length v = true <-> repr_flow_packet_length v = true.
Proof. intros v; unfold accept_flow_packet_length, repr_flow_packet_length; text_iff. Qed.
Lemma accepted_encodes_flow_packet_length : forall v, accept_flow_packet_length v = true -> dec_flow_packet_length (enc_flow_packet_length v) = v /\ (length (enc_flow_packet_length v) = 1%nat \/ length (enc_flow_packet_length v) = 2%nat).
Proof. intros v H. apply representable_encodes_flow_packet_length. apply accept_iff_repr_flow_packet_length. exact H. Qed.

(* flow_protocol *)
Lemma representable_encodes_flow_protocol : forall v, repr_flow_protocol v = true -> dec_flow_protocol (enc_flow_protocol v) = v /\ length (enc_flow_protocol v) = 1%nat.
Proof. intros v H. apply (u_encodes 1 8); [vm_compute; discriminate | exact H]. Qed.
Lemma accept_iff_repr_flow_protocol : forall v, accept_flow_protocol v = true <-> repr_flow_protocol v = true.
Proof. intros v; unfold accept_flow_protocol, repr_flow_protocol; text_iff. Qed.
Lemma accepted_encodes_flow_protocol : forall v, accept_flow_protocol v = true -> dec_flow_protocol (enc_flow_protocol v) = v /\ length (enc_flow_protocol v) = 1%nat.
Proof. intros v H. apply representable_encodes_flow_protocol. apply accept_iff_repr_flow_protocol. exact H. Qed.

(* flow_next_header *)
Lemma representable_encodes_flow_next_header : forall v, repr_flow_next_header v = true -> dec_flow_next_header (enc_flow_next_header v) = v /\ length (enc_flow_next_header v) = 1%nat.
Proof. intros v H. apply (u_encodes 1 8); [vm_compute; discriminate | exact H]. Qed.
Lemma accept_iff_repr_flow_next_header : forall v, accept_flow_next_header v = true <-> repr_flow_next_header v = true.
Proof. intros v; unfold accept_flow_next_header, repr_flow_next_header; text_iff. Qed.
Lemma accepted_encodes_flow_next_header : forall v, accept_flow_next_header v = true -> dec_flow_next_header (enc_flow_next_header v) = v /\ length (enc_flow_next_header v) = 1%nat.
Proof. intros v H. apply representable_encodes_flow_next_header. apply accept_iff_repr_flow_next_header. exact H. Qed.

(* flow_icmp_type *)
Lemma representable_encodes_flow_icmp_type : forall v, repr_flow_icmp_type v = true -> dec_flow_icmp_type (enc_flow_icmp_type v) = v /\ length (enc_flow_icmp_type v) = 1%nat.
Proof. intros v H. apply (u_encodes 1 8); [vm_compute; discriminate | exact H]. Qed.
Lemma accept_iff_repr_flow_icmp_type : forall v, accept_flow_icmp_type v = true <-> repr_flow_icmp_type v = true.
Proof. intros v; unfold accept_flow_icmp_type, repr_flow_icmp_type; text_iff. Qed.
Lemma accepted_encodes_flow_icmp_type : forall v, accept_flow_icmp_type v = true -> dec_flow_icmp_type (enc_flow_icmp_type v) = v /\ length (enc_flow_icmp_type v) = 1%nat.
Proof. intros v H. apply representable_encodes_flow_icmp_type. apply accept_iff_repr_flow_icmp_type. exact H. Qed.

(* flow_icmp_code *)
Lemma representable_encodes_flow_icmp_code : forall v, repr_flow_icmp_code v = true -> dec_flow_icmp_code (enc_flow_icmp_code v) = v /\ length (enc_flow_icmp_code v) = 1%nat.
Proof. intros v H. apply (u_encodes 1 8); [vm_compute; discriminate | exact H]. Qed.
Lemma accept_iff_repr_flow_icmp_code : forall v, accept_flow_icmp_code v = true <-> repr_flow_icmp_code v = true.
Proof. intros v; unfold accept_flow_icmp_code, repr_flow_icmp_code; text_iff. Qed.
Lemma accepted_encodes_flow_icmp_code : forall v, accept_flow_icmp_code v = true -> dec_flow_icmp_code (enc_flow_icmp_code v) = v /\ length (enc_flow_icmp_code v) = 1%nat.
Proof. intros v H. apply representable_encodes_flow_icmp_code. apply accept_iff_repr_flow_icmp_code. exact H. Qed.

(* flow_dscp *)
Lemma representable_encodes_flow_dscp : forall v, repr_flow_dscp v = true -> dec_flow_dscp (enc_flow_dscp v) = v /\ length (enc_flow_dscp v) = 1%nat.
Proof. intros v H. apply (u_encodes 1 6); [vm_compute; discriminate | exact H]. Qed.
Lemma accept_iff_repr_flow_dscp : forall v, accept_flow_dscp v = true <-> repr_flow_dscp v = true.
Proof. intros v; unfold accept_flow_dscp, repr_flow_dscp; text_iff. Qed.
Lemma accepted_encodes_flow_dscp : forall v, accept_flow_dscp v = true -> dec_flow_dscp (enc_flow_dscp v) = v /\ length (enc_flow_dscp v) = 1%nat.
Proof. intros v H. apply representable_encodes_flow_dscp. apply accept_iff_repr_flow_dscp. exact H. Qed.

(* flow_traffic_class *)
Lemma representable_encodes_flow_traffic_class : forall v, repr_flow_traffic_class v = true -> dec_flow_traffic_class (enc_flow_traffic_class v) = v /\ length (enc_flow_traffic_class v) = 1%nat.
Proof. intros v H. apply (u_encodes 1 8); [vm_compute; discriminate | exact H]. Qed.
Lemma accept_iff_repr_flow_traffic_class : forall v, accept_flow_traffic_class v = true <-> repr_flow_traffic_class v = true.
Proof. intros v; unfold accept_flow_traffic_class, repr_flow_traffic_class; text_iff. Qed.
Lemma accepted_encodes_flow_traffic_class : forall v, accept_flow_traffic_class v = true -> dec_flow_traffic_class (enc_flow_traffic_class v) = v /\ length (enc_flow_traffic_class v) = 1%nat.
Proof. intros v H. apply representable_encodes_flow_traffic_class. apply accept_iff_repr_flow_traffic_class. exact H. Qed.

(* flow_flow_label *)
Lemma representable_encodes_flow_flow_label : forall v, repr_flow_flow_label v = true -> dec_flow_flow_label (enc_flow_flow_label v) = v /\ In (length (enc_flow_flow_label v)) [1%nat; 2%nat; 4%nat].
Proof. exact flow124_encodes. Qed.
Lemma accept_iff_repr_flow_flow_label : forall v, accept_flow_flow_label v = true <-> repr_flow_flow_label v = true.
Proof. intros v; unfold accept_flow_flow_label, repr_flow_flow_label; text_iff. Qed.
Lemma accepted_encodes_flow_flow_label : forall v, accept_flow_flow_label v = true -> dec_flow_flow_label (enc_flow_flow_label v) = v /\ In (length (enc_flow_flow_label v)) [1%nat; 2%nat; 4%nat].
Proof. intros v H. apply representable_encodes_flow_flow_label. apply accept_iff_repr_flow_flow_label. exact H. Qed.

(* flow_mark *)
Lemma representable_encodes_flow_mark : forall v, repr_flow_mark v = true -> dec_flow_mark (enc_flow_mark v) = v /\ length (enc_flow_mark v) = 1%nat.
Proof. intros v H. apply (u_encodes 1 6); [vm_compute; discriminate | exact H]. Qed.
Lemma accept_iff_repr_flow_mark : forall v, accept_flow_mark v = true <-> repr_flow_mark v = true.
Proof. intros v; unfold accept_flow_mark, repr_flow_mark; text_iff. Qed.
Lemma accepted_encodes_flow_mark : forall v, accept_flow_mark v = true -> dec_flow_mark (enc_flow_mark v) = v /\ length (enc_flow_mark v) = 1%nat.
Proof. intros v H. apply representable_encodes_flow_mark. apply accept_iff_repr_flow_mark. exact H. Qed.

(* mask_ipv4 *)
Lemma representable_encodes_mask_ipv4 : forall v, repr_mask_ipv4 v = true -> dec_mask_ipv4 (enc_mask_ipv4 v) = v /\ length (enc_mask_ipv4 v) = 1%nat.
Proof. intros v H. apply (within_encodes 32); [lia | exact H]. Qed.
Lemma accept_iff_repr_mask_ipv4 : forall v, accept_mask_ipv4 v = true <-> repr_mask_ipv4 v = true.
Proof. intros v; unfold accept_mask_ipv4, repr_mask_ipv4; text_iff. Qed.
Lemma accepted_encodes_mask_ipv4 : forall v, accept_mask_ipv4 v = true -> dec_mask_ipv4 (enc_mask_ipv4 v) = v /\ length (enc_mask_ipv4 v) = 1%nat.
Proof. intros v H. apply representable_encodes_mask_ipv4. apply accept_iff_repr_mask_ipv4. exact H. Qed.

(* mask_ipv6 *)
Lemma representable_encodes_mask_ipv6 : forall v, repr_mask_ipv6 v = true -> dec_mask_ipv6 (enc_mask_ipv6 v) = v /\ length (enc_mask_ipv6 v) = 1%nat.
Proof. intros v H. apply (within_encodes 128); [lia | exact H]. Qed.
Lemma accept_iff_repr_mask_ipv6 : forall v, accept_mask_ipv6 v = true <-> repr_mask_ipv6 v = true.
Proof. intros v; unfold accept_mask_ipv6, repr_mask_ipv6; text_iff. Qed.
Lemma accepted_encodes_mask_ipv6 : forall v, accept_mask_ipv6 v = true -> dec_mask_ipv6 (enc_mask_ipv6 v) = v /\ length (enc_mask_ipv6 v) = 1%nat.
Proof. intros v H. apply representable_encodes_mask_ipv6. apply accept_iff_repr_mask_ipv6. exact H. Qed.

(* flow_mask_ipv4 *)
Lemma representable_encodes_flow_mask_ipv4 : forall v, repr_flow_mask_ipv4 v = true -> dec_flow_mask_ipv4 (enc_flow_mask_ipv4 v) = v /\ length (enc_flow_mask_ipv4 v) = 1%nat.
Proof. intros v H. apply (within_encodes 32); [lia | exact H]. Qed.
Lemma accept_iff_repr_flow_mask_ipv4 : forall v, accept_flow_mask_ipv4 v = true <-> repr_flow_mask_ipv4 v = true.
Proof. intros v; unfold accept_flow_mask_ipv4, repr_flow_mask_ipv4; text_iff. Qed.
Lemma accepted_encodes_flow_mask_ipv4 : forall v, accept_flow_mask_ipv4 v = true -> dec_flow_mask_ipv4 (enc_flow_mask_ipv4 v) = v /\ length (enc_flow_mask_ipv4 v) = 1%nat.
Proof. intros v H. apply representable_encodes_flow_mask_ipv4. apply accept_iff_repr_flow_mask_ipv4. exact H. Qed.

(* flow_mask_ipv6 *)
Lemma representable_encodes_flow_mask_ipv6 : forall v, repr_flow_mask_ipv6 v = true -> dec_flow_mask_ipv6 (enc_flow_mask_ipv6 v) = v /\ length (enc_flow_mask_ipv6 v) = 1%nat.
Proof. intros v H. apply (within_encodes 128); [lia | exact H]. Qed.
Lemma accept_iff_repr_flow_mask_ipv6 : forall v, accept_flow_mask_ipv6 v = true <-> repr_flow_mask_ipv6 v = true.
Proof. intros v; unfold accept_flow_mask_ipv6, repr_flow_mask_ipv6; text_iff. Qed.
Lemma accepted_encodes_flow_mask_ipv6 : forall v, accept_flow_mask_ipv6 v = true -> dec_flow_mask_ipv6 (enc_flow_mask_ipv6 v) = v /\ length (enc_flow_mask_ipv6 v) = 1%nat.
Proof. intros v H. apply representable_encodes_flow_mask_ipv6. apply accept_iff_repr_flow_mask_ipv6. exact H. Qed.

(* rd, <number>:<number> form *)
Lemma representable_encodes_rd : forall n s, repr_rd n s = true -> dec_rd (enc_rd n s) = (n, s) /\ length (enc_rd n s) = 8%nat.
Proof. exact rd_encodes. Qed.
Lemma accept_iff_repr_rd : forall n s, accept_rd n s = true <-> repr_rd n s = true.
Proof. intros n s; unfold accept_rd, repr_rd; text_iff. Qed.
Lemma accepted_encodes_rd : forall n s, accept_rd n s = true -> dec_rd (enc_rd n s) = (n, s) /\ length (enc_rd n s) = 8%nat.
Proof. intros n s H. apply rd_encodes. apply accept_iff_repr_rd. exact H. Qed.
