(* C02 / C08 - lemmas about Model_Update (the UPDATE decoder) against Spec_Wire (the RFC reference).
   fixed = true is the repaired generation (dec_update), fixed = false the pinned tree (dec_update_pinned). *)
From Coq Require Import ZArith List Bool Lia.
From ExaV Require Import gen.Gen_AttrTable gen.Gen_NlriRegistry model.Model_Nlri model.Model_Update spec.Spec_Wire proofs.Proofs_Nlri.
Import ListNotations.
Open Scope Z_scope.
(* C02 / C08 - lemmas about Model_Update (the UPDATE decoder) against Spec_Wire (the RFC reference).
   fixed = true is the repaired generation (dec_update), fixed = false the pinned tree (dec_update_pinned). *)


(* ------------------------------------------------------------------ small facts *)

Lemma hasbit_ext f : hasbit f F_EXTENDED_LENGTH = f_extended f.
Proof.
  unfold hasbit, f_extended, F_EXTENDED_LENGTH.
  destruct ((f / 16) mod 2 =? 1) eqn:E; destruct (16 <=? f mod 32) eqn:E2; try reflexivity;
  [apply Z.eqb_eq in E; apply Z.leb_gt in E2 | apply Z.eqb_neq in E; apply Z.leb_le in E2];
  exfalso; revert E E2; 
  pose proof (Z.div_mod f 16 ltac:(lia)); pose proof (Z.mod_pos_bound f 16 ltac:(lia));
  pose proof (Z.div_mod (f / 16) 2 ltac:(lia)); pose proof (Z.mod_pos_bound (f / 16) 2 ltac:(lia));
  pose proof (Z.div_mod f 32 ltac:(lia)); pose proof (Z.mod_pos_bound f 32 ltac:(lia));
  lia.
Qed.

Lemma blen_zlen l : blen l = zlen l. Proof. reflexivity. Qed.

Lemma ahas_aadd m a : ahas (aadd m a) (a_code a) = true.
Proof.
  unfold aadd. destruct (ahas m (a_code a)) eqn:E; [exact E|].
  unfold ahas. rewrite existsb_app. cbn. rewrite Z.eqb_refl. now rewrite orb_true_r.
Qed.

Lemma ahas_aadd_keep m a c : ahas m c = true -> ahas (aadd m a) c = true.
Proof.
  intros H. unfold aadd. destruct (ahas m (a_code a)); [exact H|].
  unfold ahas in *. rewrite existsb_app, H. reflexivity.
Qed.

(* ------------------------------------------------------------------ C08_no_overrun *)

Definition has_taw (m : amap) : bool := ahas m CODE_TREAT_AS_WITHDRAW.

Definition parse_refuses (r : pres) : Prop :=
  match r with POk m => has_taw m = true | PNotify _ _ => True | PExc => True end.

Lemma taw_has m aid : has_taw (aadd m (taw aid)) = true.
Proof. unfold has_taw. exact (ahas_aadd m (taw aid)). Qed.

Lemma parse_block_malformed opq s : forall fuel d m,
  tlvs fuel d = None -> parse_refuses (parse fuel true opq s d m).
Proof.
  induction fuel as [|f IH]; intros d m H.
  - destruct d as [|fl [|c rest]]; cbn in H; try discriminate.
    + cbn. apply taw_has.
    + cbn [parse next_tlv].
      destruct (if hasbit fl F_EXTENDED_LENGTH then match rest with h :: l :: r => Some (h * 256 + l, r) | _ => None end
                else match rest with l :: r => Some (l, r) | _ => None end) as [[len body]|];
      [destruct (true && (zlen body <? len))|]; cbn; auto using taw_has.
  - destruct d as [|fl [|c rest]]; cbn [tlvs] in H; try discriminate.
    { cbn. apply taw_has. }
    cbn [parse next_tlv]. rewrite hasbit_ext.
    destruct (if f_extended fl then match rest with h :: l :: r => Some (h * 256 + l, r) | _ => None end
              else match rest with l :: r => Some (l, r) | _ => None end) as [[len body]|] eqn:Eh.
    2:{ cbn. apply taw_has. }
    rewrite blen_zlen in H. cbn [andb].
    destruct (zlen body <? len) eqn:El.
    { cbn. apply taw_has. }
    destruct (tlvs f (skipn (Z.to_nat len) body)) eqn:Et; [discriminate|].
    destruct (step true opq s fl c len (firstn (Z.to_nat len) body) m); cbn; auto.
Qed.

Lemma split_sections b w a n : sections b = Some (w, a, n) -> split b = SplitOk w a n.
Proof.
  unfold sections, split, blen, zlen, be16, rd16.
  destruct (Z.of_nat (length b) <? 4); [discriminate|].
  destruct (Z.of_nat (length b) <? 4 + (nth 0 b 0 * 256 + nth 1 b 0)); [discriminate|].
  match goal with |- context [Z.of_nat (length b) <? ?x] => destruct (Z.of_nat (length b) <? x) end; [discriminate|].
  intros H. injection H as <- <- <-. reflexivity.
Qed.

Lemma has_taw_remove m c : c <> CODE_TREAT_AS_WITHDRAW -> has_taw m = true -> has_taw (aremove m c) = true.
Proof.
  intros Hc. unfold has_taw, ahas, aremove. induction m as [|a m IH]; cbn; [auto|].
  destruct (a_code a =? CODE_TREAT_AS_WITHDRAW) eqn:E; cbn.
  - intros _. apply Z.eqb_eq in E. destruct (a_code a =? c) eqn:E2; cbn.
    + apply Z.eqb_eq in E2. congruence.
    + rewrite (proj2 (Z.eqb_eq _ _) E). reflexivity.
  - intros H. destruct (a_code a =? c); cbn; [auto|]. rewrite E. cbn. auto.
Qed.

Definition no_announce (o : outcome) : Prop :=
  match o with
  | Refused _ _ => True
  | PyError => True        (* only an abstracted value decoder raising an untyped exception *)
  | EndOfRib _ _ => False
  | Decoded u => u_ann u = [] /\ has_taw (u_attrs u) = true
  end.

Lemma unpack_attrs_refuses opq s ab :
  parse_refuses (parse (length ab) true opq s ab []) -> parse_refuses (unpack_attrs true opq s ab).
Proof.
  intros P. unfold unpack_attrs.
  destruct (parse (length ab) true opq s ab []) as [m| |]; cbn in *; auto.
  unfold post_parse. unfold has_taw in P. rewrite P. exact P.
Qed.

Lemma payload_taw opq s b :
  match parse_payload true opq s b with
  | (Decoded u, m, _) => has_taw m = true -> u_ann u = [] /\ has_taw (u_attrs u) = true
  | _ => True
  end.
Proof.
  unfold parse_payload.
  destruct (split b) as [wb ab nb|]; [|exact I].
  destruct (unpack_attrs true opq s ab) as [m| |]; try exact I.
  destruct (nlri_loop (length wb) true _ 1 1 wb); [|exact I].
  destruct (nlri_loop (length nb) false _ 1 1 nb); [|exact I].
  destruct (match bytes_of (aget m A_MP_UNREACH_NLRI) with Some v => mp_unreach_routes s v | None => Some [] end); [|exact I].
  destruct (match bytes_of (aget m A_MP_REACH_NLRI) with Some v => mp_reach_routes s v | None => Some [] end); [|exact I].
  cbn [andb]. destruct (ahas m CODE_TREAT_AS_WITHDRAW) eqn:Ht.
  - intros _. cbn [u_ann u_attrs]. split; [reflexivity|].
    apply has_taw_remove; [discriminate|]. apply has_taw_remove; [discriminate|]. exact Ht.
  - unfold has_taw. rewrite Ht. discriminate.
Qed.

Lemma payload_refuses opq s b wb ab nb :
  sections b = Some (wb, ab, nb) -> parse_refuses (parse (length ab) true opq s ab []) ->
  match parse_payload true opq s b with
  | (Refused _ _, _, _) | (PyError, _, _) => True
  | (Decoded u, _, _) => u_ann u = [] /\ has_taw (u_attrs u) = true
  | (EndOfRib _ _, _, _) => False
  end.
Proof.
  intros Hs Ht. pose proof (payload_taw opq s b) as P. revert P.
  unfold parse_payload. rewrite (split_sections _ _ _ _ Hs).
  pose proof (unpack_attrs_refuses opq s ab Ht) as R.
  destruct (unpack_attrs true opq s ab) as [m| |]; try (intros; exact I). cbn in R.
  destruct (nlri_loop (length wb) true _ 1 1 wb); [|intros; exact I].
  destruct (nlri_loop (length nb) false _ 1 1 nb); [|intros; exact I].
  destruct (match bytes_of (aget m A_MP_UNREACH_NLRI) with Some v => mp_unreach_routes s v | None => Some [] end); [|intros; exact I].
  destruct (match bytes_of (aget m A_MP_REACH_NLRI) with Some v => mp_reach_routes s v | None => Some [] end); [|intros; exact I].
  cbn [andb]. unfold has_taw in R. rewrite R. intros P. apply P. exact R.
Qed.

Lemma list_eqb_true a b : list_eqb a b = true -> a = b.
Proof.
  revert b; induction a as [|x a IH]; intros [|y b]; cbn; try discriminate; auto.
  intros H. apply andb_prop in H as [H1 H2]. apply Z.eqb_eq in H1. f_equal; auto.
Qed.

(* the two End-of-RIB marker shapes have a well-formed attribute block: none, or one MP_UNREACH_NLRI *)
Lemma marker_blocks b wb ab nb :
  sections b = Some (wb, ab, nb) ->
  ((zlen b =? EOR_V4_LENGTH) && list_eqb b [0;0;0;0] = true -> tlvs (length ab) ab = Some [])
  /\ ((zlen b =? EOR_PREFIX_LENGTH) && is_prefix EOR_PREFIX b = true ->
      exists x y z, tlvs (length ab) ab = Some [mkRaw 144 15 [x; y; z]]).
Proof.
  intros Hs. split; intros E.
  - apply andb_prop in E as [_ E]. apply list_eqb_true in E. subst b. cbn in Hs. injection Hs as <- <- <-. reflexivity.
  - apply andb_prop in E as [El Ep]. apply Z.eqb_eq in El. unfold is_prefix in Ep. apply list_eqb_true in Ep.
    unfold zlen, EOR_PREFIX_LENGTH in El.
    do 12 (destruct b as [|? b]; [cbn in El; try lia|]). 2:{ cbn [length] in El. lia. }
    cbn in Ep. injection Ep as <- <- <- <- <- <- <- <-. cbn in Hs. injection Hs as <- <- <-.
    do 3 eexists. reflexivity.
Qed.

Lemma refuses_no_announce opq s b wb ab nb :
  sections b = Some (wb, ab, nb) -> parse_refuses (parse (length ab) true opq s ab []) ->
  (zlen b =? EOR_V4_LENGTH) && list_eqb b [0;0;0;0] = false ->
  (zlen b =? EOR_PREFIX_LENGTH) && is_prefix EOR_PREFIX b = false ->
  no_announce (dec_update opq s b).
Proof.
  intros Hs Ht E1 E2. unfold dec_update, dec_update_gen. rewrite E1, E2.
  pose proof (payload_refuses opq s b wb ab nb Hs Ht) as P.
  destruct (parse_payload true opq s b) as [[o m] ab']. destruct o as [c sc| |a sf|u]; cbn; auto.
  destruct P as [Pa Pt]. 
  assert (En : is_nil (u_attrs u) = false).
  { destruct (u_attrs u); [cbn in Pt; discriminate|reflexivity]. }
  rewrite En. cbn. auto.
Qed.

Theorem no_overrun opq s b wb ab nb :
  sections b = Some (wb, ab, nb) -> tlvs (length ab) ab = None -> no_announce (dec_update opq s b).
Proof.
  intros Hs Ht. destruct (marker_blocks b wb ab nb Hs) as [M1 M2].
  apply (refuses_no_announce opq s b wb ab nb Hs).
  - apply parse_block_malformed. exact Ht.
  - destruct ((zlen b =? EOR_V4_LENGTH) && list_eqb b [0;0;0;0]); [|reflexivity]. rewrite M1 in Ht by reflexivity. discriminate.
  - destruct ((zlen b =? EOR_PREFIX_LENGTH) && is_prefix EOR_PREFIX b); [|reflexivity].
    destruct (M2 eq_refl) as (x & y & z & M). rewrite M in Ht. discriminate.
Qed.


(* ------------------------------------------------------------------ AS4 merge *)

Lemma path_count_hops p : path_count p = path_hops p.
Proof.
  unfold path_count, path_hops, sumz. induction p as [|[t a] p IH]; cbn [map fold_right]; [reflexivity|].
  rewrite IH. reflexivity.
Qed.

Lemma take_lead_leading : forall p k, take_lead p k = leading p k.
Proof.
  induction p as [|[t a] p IH]; intros k; cbn [take_lead leading fst snd]; [reflexivity|].
  unfold is_confed, SEG_CONFED_SEQUENCE, SEG_CONFED_SET, SEG_SET, SEG_SEQUENCE. cbn [fst snd].
  destruct ((t =? 3) || (t =? 4)); [now rewrite IH|].
  destruct (k <=? 0); [reflexivity|].
  destruct (t =? 1); [now rewrite IH|].
  rewrite IH. reflexivity.
Qed.

Lemma seg_chunks_split255 : forall fuel t l, seg_chunks fuel t l = split255 fuel t l.
Proof.
  induction fuel as [|f IH]; intros t l; cbn [seg_chunks split255]; [reflexivity|].
  destruct l; [reflexivity|]. destruct (length (z :: l) <=? 255)%nat; [reflexivity|]. now rewrite IH.
Qed.

Lemma repack_wire_form p : repack p = wire_form p.
Proof.
  unfold repack, wire_form. induction p as [|sg p IH]; cbn [flat_map]; [reflexivity|].
  now rewrite IH, seg_chunks_split255.
Qed.

Theorem merge_fixed_rfc p2 p4 : merge_fixed p2 p4 = VPath true (wire_form (rfc6793 p2 p4)).
Proof.
  unfold merge_fixed, rfc6793. rewrite !path_count_hops, repack_wire_form.
  destruct (path_hops p2 <? path_hops p4) eqn:E.
  - assert (path_hops p2 - path_hops p4 <? 0 = true) as -> by (apply Z.ltb_lt; apply Z.ltb_lt in E; lia). reflexivity.
  - assert (path_hops p2 - path_hops p4 <? 0 = false) as -> by (apply Z.ltb_ge; apply Z.ltb_ge in E; lia).
    now rewrite take_lead_leading.
Qed.

(* lookups in the collection *)
Lemma aget_aremove_same m c : aget (aremove m c) c = None.
Proof.
  unfold aget, aremove. induction m as [|a m IH]; cbn; [reflexivity|].
  destruct (a_code a =? c) eqn:E; cbn; [exact IH|]. rewrite E. exact IH.
Qed.

Lemma aget_aremove_other m c d : c <> d -> aget (aremove m c) d = aget m d.
Proof.
  intros Hcd. unfold aget, aremove. induction m as [|a m IH]; cbn; [reflexivity|].
  destruct (a_code a =? c) eqn:E; cbn.
  - apply Z.eqb_eq in E. assert (a_code a =? d = false) as -> by (apply Z.eqb_neq; congruence). exact IH.
  - destruct (a_code a =? d); [reflexivity|exact IH].
Qed.

Lemma ahas_aget m c : ahas m c = match aget m c with Some _ => true | None => false end.
Proof.
  unfold ahas, aget. induction m as [|a m IH]; cbn; [reflexivity|]. destruct (a_code a =? c); cbn; auto.
Qed.

Lemma aget_aadd_new m a : aget m (a_code a) = None -> aget (aadd m a) (a_code a) = Some a.
Proof.
  intros H. unfold aadd. rewrite ahas_aget, H. unfold aget in *. assert (F : forall l1 l2, find (fun x => a_code x =? a_code a) (l1 ++ l2) = match find (fun x => a_code x =? a_code a) l1 with Some y => Some y | None => find (fun x => a_code x =? a_code a) l2 end) by (induction l1 as [|y l1 IHl]; intros l2; cbn; [reflexivity|]; destruct (a_code y =? a_code a); auto). rewrite F, H. cbn. now rewrite Z.eqb_refl.
Qed.

Lemma aget_aadd_other m a c : a_code a <> c -> aget (aadd m a) c = aget m c.
Proof.
  intros H. unfold aadd. destruct (ahas m (a_code a)); [reflexivity|].
  unfold aget.
  assert (F : forall l1 l2, find (fun x => a_code x =? c) (l1 ++ l2) = match find (fun x => a_code x =? c) l1 with Some y => Some y | None => find (fun x => a_code x =? c) l2 end) by (induction l1 as [|y l1 IHl]; intros l2; cbn; [reflexivity|]; destruct (a_code y =? c); auto).
  rewrite F. destruct (find _ m); [reflexivity|]. cbn.
  assert (a_code a =? c = false) as -> by (apply Z.eqb_neq; exact H). reflexivity.
Qed.

Theorem post_parse_merges m f2 f4 a2 a4 p2 p4 :
  ahas m CODE_TREAT_AS_WITHDRAW = false ->
  aget m A_AS_PATH = Some (mkA A_AS_PATH f2 (VPath a2 p2)) ->
  aget m A_AS4_PATH = Some (mkA A_AS4_PATH f4 (VPath a4 p4)) ->
  exists m', post_parse true m = POk m'
    /\ aget m' A_AS_PATH = Some (mkA A_AS_PATH 64 (VPath true (wire_form (rfc6793 p2 p4))))
    /\ aget m' A_AS4_PATH = None
    /\ forall c, c <> A_AS_PATH -> c <> A_AS4_PATH -> aget m' c = aget m c.
Proof.
  intros Ht H2 H4. unfold post_parse. rewrite Ht, !ahas_aget, H2, H4. cbn [andb path_of].
  eexists. split; [reflexivity|]. rewrite merge_fixed_rfc.
  set (rest := aremove (aremove m A_AS_PATH) A_AS4_PATH).
  assert (Hr : aget rest A_AS_PATH = None).
  { unfold rest. rewrite aget_aremove_other by discriminate. apply aget_aremove_same. }
  split; [|split].
  - exact (aget_aadd_new rest (mkA A_AS_PATH 64 _) Hr).
  - rewrite aget_aadd_other by discriminate. unfold rest. apply aget_aremove_same.
  - intros c Hc2 Hc4. rewrite aget_aadd_other by (cbn; congruence).
    unfold rest. rewrite aget_aremove_other by congruence. apply aget_aremove_other. congruence.
Qed.

(* the pinned merge: a crash and a lost path *)
Theorem merge_pinned_refuted :
  merge_pinned [(2, [23456])] [(2, [70000])] = None
  /\ merge_pinned [(2, [65534])] [] = Some (VPath false [])
  /\ wire_form (rfc6793 [(2, [23456])] [(2, [70000])]) = [(2, [70000])]
  /\ wire_form (rfc6793 [(2, [65534])] []) = [(2, [65534])].
Proof. repeat split; vm_compute; reflexivity. Qed.

(* ------------------------------------------------------------------ End-of-RIB *)

Theorem eor_v4 opq s : dec_update opq s [0;0;0;0] = EndOfRib 1 1.
Proof. reflexivity. Qed.

Theorem eor_prefix_form opq s afi safi :
  0 <= afi < 65536 ->
  dec_update opq s (EOR_PREFIX ++ [afi / 256; afi mod 256; safi]) = EndOfRib afi safi.
Proof.
  intros H. unfold dec_update, dec_update_gen. cbn [EOR_PREFIX app length zlen].
  change (Z.of_nat 11 =? EOR_V4_LENGTH) with false. cbn [andb].
  change (Z.of_nat 11 =? EOR_PREFIX_LENGTH) with true. 
  change (is_prefix [0; 0; 0; 7; 144; 15; 0; 3] [0; 0; 0; 7; 144; 15; 0; 3; afi / 256; afi mod 256; safi]) with true.
  cbn [andb skipn rd16 nth]. unfold rd16. cbn [nth]. replace (afi / 256 * 256 + afi mod 256) with afi; [reflexivity|]. pose proof (Z.div_mod afi 256 ltac:(lia)) as D. rewrite D at 1. ring.
Qed.

Definition eor_shape (opq : Z -> list Z -> vres) (s : sess) (b : list Z) : Prop :=
  b = [0;0;0;0]
  \/ (zlen b = 11 /\ firstn 8 b = EOR_PREFIX)
  \/ (exists u m ab, parse_payload true opq s b = (Decoded u, m, ab) /\ u_ann u = [] /\ u_wd u = [] /\ u_attrs u = []).


Lemma is_nil_true {A} (l : list A) : is_nil l = true -> l = [].
Proof. destruct l; [reflexivity|discriminate]. Qed.

Lemma payload_not_eor fixed opq s b a sf m ab : parse_payload fixed opq s b <> (EndOfRib a sf, m, ab).
Proof.
  unfold parse_payload.
  destruct (split b) as [wb ab' nb|]; [|discriminate].
  destruct (unpack_attrs fixed opq s ab') as [m'| |]; try discriminate.
  destruct (nlri_loop (length wb) true _ 1 1 wb); [|discriminate].
  destruct (nlri_loop (length nb) false _ 1 1 nb); [|discriminate].
  destruct (match bytes_of (aget m' A_MP_UNREACH_NLRI) with Some v => mp_unreach_routes s v | None => Some [] end); [|discriminate].
  destruct (match bytes_of (aget m' A_MP_REACH_NLRI) with Some v => mp_reach_routes s v | None => Some [] end); [|discriminate].
  destruct (fixed && ahas m' CODE_TREAT_AS_WITHDRAW); discriminate.
Qed.

Theorem eor_only opq s b afi safi : dec_update opq s b = EndOfRib afi safi -> eor_shape opq s b.
Proof.
  unfold dec_update, dec_update_gen, eor_shape.
  destruct ((zlen b =? EOR_V4_LENGTH) && list_eqb b [0;0;0;0]) eqn:E1.
  { intros _. left. apply andb_prop in E1 as [_ E]. now apply list_eqb_true in E. }
  destruct ((zlen b =? EOR_PREFIX_LENGTH) && is_prefix EOR_PREFIX b) eqn:E2.
  { intros _. right; left. apply andb_prop in E2 as [El Ep]. apply Z.eqb_eq in El. unfold is_prefix in Ep.
    apply list_eqb_true in Ep. split; [exact El|]. symmetry. exact Ep. }
  destruct (parse_payload true opq s b) as [[o m] ab] eqn:Ep. destruct o as [c sc| |a sf|u]; try discriminate.
  - exfalso. exact (payload_not_eor _ _ _ _ _ _ _ _ Ep).
  - destruct (is_nil (u_attrs u) && is_nil (u_ann u) && is_nil (u_wd u)) eqn:En; [|discriminate].
    intros _. right; right. apply andb_prop in En as [En E3]. apply andb_prop in En as [E4 E5].
    exists u, m, ab. split; [reflexivity|]. split; [now apply is_nil_true|]. split; now apply is_nil_true.
Qed.


(* ------------------------------------------------------------------ flags: registered <-> no conflict (byte sweep) *)

Definition bytes256 : list Z := map Z.of_nat (seq 0 256).
Lemma in_bytes256 f : 0 <= f < 256 -> In f bytes256.
Proof.
  intros H. unfold bytes256. apply in_map_iff. exists (Z.to_nat f). split; [lia|]. apply in_seq. lia.
Qed.

Definition masked (aid f : Z) : Z := if is_optional aid then clrbit f F_PARTIAL else f.

Lemma registered_sweep :
  forallb (fun k => forallb (fun f => implb (registered k (masked k f)) (negb (flags_conflict k f))) bytes256)
          registered_codes = true.
Proof. vm_compute. reflexivity. Qed.

Lemma registered_no_conflict k f :
  In k registered_codes -> 0 <= f < 256 -> registered k (masked k f) = true -> flags_conflict k f = false.
Proof.
  intros Hk Hf Hr. pose proof registered_sweep as S.
  rewrite forallb_forall in S. specialize (S k Hk). rewrite forallb_forall in S.
  specialize (S f (in_bytes256 f Hf)). rewrite Hr in S. cbn in S. now apply negb_true_iff in S.
Qed.

(* ------------------------------------------------------------------ one turn of the parser *)

Definition step_refuses (r : sres) : Prop := match r with SCont m => has_taw m = true | _ => True end.

Lemma ahas_aadd_other m a c : a_code a <> c -> ahas (aadd m a) c = ahas m c.
Proof.
  intros H. unfold aadd. destruct (ahas m (a_code a)); [reflexivity|].
  unfold ahas. rewrite existsb_app. cbn. assert (a_code a =? c = false) as -> by (apply Z.eqb_neq; exact H).
  now rewrite !orb_false_r.
Qed.

Ltac break_step :=
  repeat match goal with
  | |- context [match ?x with _ => _ end] => destruct x eqn:?
  end.

Lemma step_keeps_taw opq s f aid dlen v m : has_taw m = true -> step_refuses (step true opq s f aid dlen v m).
Proof.
  intros H. unfold step. break_step; cbn [step_refuses]; auto; unfold has_taw in *;
  repeat apply ahas_aadd_keep; auto.
Qed.

Lemma parse_keeps_taw opq s : forall fuel d m, has_taw m = true -> parse_refuses (parse fuel true opq s d m).
Proof.
  induction fuel as [|f IH]; intros d m H; cbn [parse]; destruct (next_tlv true d); cbn [parse_refuses];
  auto; unfold has_taw in *; try (apply ahas_aadd_keep; exact H).
  pose proof (step_keeps_taw opq s flag aid dlen value m H) as S.
  destruct (step true opq s flag aid dlen value m); cbn in *; auto.
Qed.

Lemma step_other_codes opq s f aid dlen v m m' x :
  step true opq s f aid dlen v m = SCont m' ->
  x <> aid -> x <> CODE_TREAT_AS_WITHDRAW -> x <> CODE_DISCARD -> ahas m' x = ahas m x.
Proof.
  intros H Hx Ht Hd. unfold step in H. revert H. break_step; intros H; try discriminate; injection H as <-;
  unfold taw, discard, pseudo; repeat (rewrite ahas_aadd_other by (cbn; congruence)); reflexivity.
Qed.

(* the branch taken when (aid, flag) is not a registration key of a known attribute *)
Lemma step_wrong_flags opq s f aid dlen v m k :
  klass_by_id aid = Some k -> ahas m aid = false -> registered aid (masked aid f) = false ->
  ac_discard k = false -> step_refuses (step true opq s f aid dlen v m).
Proof.
  intros Hk Hm Hr Hd. unfold step. fold (masked aid f). rewrite Hm, Hr, Hk, Hd. cbn [andb].
  destruct (ac_taw k); cbn [negb step_refuses]; unfold has_taw.
  - exact (ahas_aadd m (taw None)).
  - exact (ahas_aadd m (taw (Some aid))).
Qed.

Lemma step_registered opq s f aid v m k :
  klass_by_id aid = Some k -> ahas m aid = false -> registered aid (masked aid f) = true ->
  step true opq s f aid (zlen v) v m =
    if (zlen v =? 0) && negb (ac_vzero k) then SCont (aadd m (taw (Some aid))) else
    match unpack_value true opq s aid (zlen v) v with
    | VOk x => SCont (aadd m (mkA aid (ac_flag k) x))
    | VPseudoDiscard => SCont (aadd m (discard (Some aid)))
    | VValueError => if ac_taw k then SCont (aadd m (taw (Some aid))) else
                     if ac_discard k then SCont (aadd m (discard None)) else SExc
    | VNotify c sc => if ac_taw k then SCont (aadd m (taw None)) else
                      if ac_discard k then SCont (aadd m (discard None)) else SNotify c sc
    | VOther => SExc
    end.
Proof.
  intros Hk Hm Hr. unfold step. fold (masked aid f). rewrite Hm, Hr, Hk. reflexivity.
Qed.

(* the types whose RFC 7606 approach is treat-as-withdraw and whose value rule is proved here
   (AS_PATH's segment structure is tied by the correspondence only) *)
Definition taw_codes : list Z := [1; 3; 4; 5; 8; 9; 10; 16; 25; 32].

Lemma taw_refuses m a : step_refuses (SCont (aadd m (taw a))).
Proof. cbn. apply taw_has. Qed.

Lemma step_malformed opq s other m f code v :
  In code taw_codes -> 0 <= f < 256 -> ahas m code = false ->
  flags_conflict code f || value_malformed other (s_asn4 s) code v = true ->
  step_refuses (step true opq s f code (zlen v) v m).
Proof.
  intros Hc Hf Hm Hbad.
  assert (Hreg : In code registered_codes).
  { cbn in Hc. cbn. intuition. }
  destruct (registered code (masked code f)) eqn:Hr.
  2:{ cbn in Hc. repeat destruct Hc as [Hc|Hc]; try contradiction; subst code;
      (eapply step_wrong_flags; [reflexivity|exact Hm|exact Hr|reflexivity]). }
  rewrite (registered_no_conflict code f Hreg Hf Hr) in Hbad. cbn [orb] in Hbad.
  cbn in Hc. repeat destruct Hc as [Hc|Hc]; try contradiction; subst code;
  (erewrite step_registered; [|reflexivity|exact Hm|exact Hr]); cbn [ac_vzero ac_taw ac_discard ac_flag negb andb];
  rewrite andb_true_r; destruct (zlen v =? 0) eqn:Ez; try apply taw_refuses.
  - (* ORIGIN *)
    change (unpack_value true opq s 1 (zlen v) v) with
      (if zlen v =? 1 then (if 2 <? nth 0 v 0 then VValueError else VOk (VBytes v)) else VValueError).
    change (value_malformed other (s_asn4 s) 1 v) with (negb ((zlen v =? 1) && (nth 0 v 0 <=? 2))) in Hbad.
    destruct (zlen v =? 1); [|apply taw_refuses]. cbn [andb] in Hbad.
    destruct (2 <? nth 0 v 0) eqn:E2; [apply taw_refuses|].
    apply Z.ltb_ge in E2. apply negb_true_iff in Hbad. apply Z.leb_gt in Hbad. lia.
  - (* NEXT_HOP *)
    change (value_malformed other (s_asn4 s) 3 v) with (negb (zlen v =? 4)) in Hbad.
    change (unpack_value true opq s 3 (zlen v) v) with
      (if true && negb (zlen v =? 4) then VValueError else
       match v with [] => VOk (VBytes []) | _ => if (zlen v =? 4) || (zlen v =? 16) then VOk (VBytes v) else VValueError end).
    rewrite Hbad. apply taw_refuses.
  - (* MED *)
    change (value_malformed other (s_asn4 s) 4 v) with (negb (zlen v =? 4)) in Hbad.
    change (unpack_value true opq s 4 (zlen v) v) with (len_is v 4). unfold len_is.
    apply negb_true_iff in Hbad. rewrite Hbad. apply taw_refuses.
  - (* LOCAL_PREF *)
    change (value_malformed other (s_asn4 s) 5 v) with (negb (zlen v =? 4)) in Hbad.
    change (unpack_value true opq s 5 (zlen v) v) with (len_is v 4). unfold len_is.
    apply negb_true_iff in Hbad. rewrite Hbad. apply taw_refuses.
  - (* COMMUNITY *)
    change (value_malformed other (s_asn4 s) 8 v) with (negb ((0 <? zlen v) && (zlen v mod 4 =? 0))) in Hbad.
    change (unpack_value true opq s 8 (zlen v) v) with (len_mult v 4 (VNotify 3 1)). unfold len_mult.
    destruct (zlen v mod 4 =? 0) eqn:E4; [|exact I].
    exfalso. apply negb_true_iff in Hbad. rewrite andb_true_r in Hbad. apply Z.ltb_ge in Hbad.
    apply Z.eqb_neq in Ez. pose proof (zlen_nonneg v). lia.
  - (* ORIGINATOR_ID *)
    change (value_malformed other (s_asn4 s) 9 v) with (negb (zlen v =? 4)) in Hbad.
    change (unpack_value true opq s 9 (zlen v) v) with (len_is v 4). unfold len_is.
    apply negb_true_iff in Hbad. rewrite Hbad. apply taw_refuses.
  - (* CLUSTER_LIST *)
    change (value_malformed other (s_asn4 s) 10 v) with (negb ((0 <? zlen v) && (zlen v mod 4 =? 0))) in Hbad.
    change (unpack_value true opq s 10 (zlen v) v) with (len_mult v 4 VValueError). unfold len_mult.
    destruct (zlen v mod 4 =? 0) eqn:E4; [|apply taw_refuses].
    exfalso. apply negb_true_iff in Hbad. rewrite andb_true_r in Hbad. apply Z.ltb_ge in Hbad.
    apply Z.eqb_neq in Ez. pose proof (zlen_nonneg v). lia.
  - (* EXTENDED_COMMUNITY *)
    change (value_malformed other (s_asn4 s) 16 v) with (negb ((0 <? zlen v) && (zlen v mod 8 =? 0))) in Hbad.
    change (unpack_value true opq s 16 (zlen v) v) with (len_mult v 8 (VNotify 3 1)). unfold len_mult.
    destruct (zlen v mod 8 =? 0) eqn:E4; [|exact I].
    exfalso. apply negb_true_iff in Hbad. rewrite andb_true_r in Hbad. apply Z.ltb_ge in Hbad.
    apply Z.eqb_neq in Ez. pose proof (zlen_nonneg v). lia.
  - (* IPV6_EXTENDED_COMMUNITY *)
    change (value_malformed other (s_asn4 s) 25 v) with (negb ((0 <? zlen v) && (zlen v mod 20 =? 0))) in Hbad.
    change (unpack_value true opq s 25 (zlen v) v) with (len_mult v 20 (VNotify 3 1)). unfold len_mult.
    destruct (zlen v mod 20 =? 0) eqn:E4; [|exact I].
    exfalso. apply negb_true_iff in Hbad. rewrite andb_true_r in Hbad. apply Z.ltb_ge in Hbad.
    apply Z.eqb_neq in Ez. pose proof (zlen_nonneg v). lia.
  - (* LARGE_COMMUNITY *)
    change (value_malformed other (s_asn4 s) 32 v) with (negb ((0 <? zlen v) && (zlen v mod 12 =? 0))) in Hbad.
    change (unpack_value true opq s 32 (zlen v) v) with
      (if zlen v mod 12 =? 0 then VOk (VBytes (dedup12 v)) else VNotify 3 1).
    destruct (zlen v mod 12 =? 0) eqn:E4; [|apply taw_refuses].
    exfalso. apply negb_true_iff in Hbad. rewrite andb_true_r in Hbad. apply Z.ltb_ge in Hbad.
    apply Z.eqb_neq in Ez. pose proof (zlen_nonneg v). lia.
Qed.


Lemma zlen_firstn_exact (l : list Z) n : 0 <= n <= zlen l -> zlen (firstn (Z.to_nat n) l) = n.
Proof. intros H. unfold zlen in *. rewrite firstn_length. lia. Qed.

Lemma wfb_cons_inv x l : wfb (x :: l) -> byte x /\ wfb l.
Proof. intros H. inversion H; subst. split; assumption. Qed.

(* the first attribute of the block with a given code is malformed => the parser refuses or records treat-as-withdraw *)
Lemma parse_malformed opq s other : forall fuel d l m r,
  wfb d -> tlvs fuel d = Some l -> find_raw l (r_code r) = Some r -> In (r_code r) taw_codes ->
  flags_conflict (r_code r) (r_flags r) || value_malformed other (s_asn4 s) (r_code r) (r_val r) = true ->
  ahas m (r_code r) = false ->
  parse_refuses (parse fuel true opq s d m).
Proof.
  induction fuel as [|f IH]; intros d l m r Hw Ht Hfind Hin Hbad Hm.
  - destruct d as [|fl [|c rest]]; cbn in Ht; try discriminate. injection Ht as <-. discriminate.
  - destruct d as [|fl [|c rest]]; cbn [tlvs] in Ht; try discriminate.
    { injection Ht as <-. discriminate. }
    apply wfb_cons_inv in Hw as [Hfl Hw]. apply wfb_cons_inv in Hw as [Hcb Hw].
    cbn [parse next_tlv]. rewrite hasbit_ext.
    destruct (if f_extended fl then match rest with h :: l0 :: r0 => Some (h * 256 + l0, r0) | _ => None end
              else match rest with l0 :: r0 => Some (l0, r0) | _ => None end) as [[len body]|] eqn:Eh; [|discriminate].
    assert (Hlb : 0 <= len /\ wfb body).
    { destruct (f_extended fl).
      - destruct rest as [|h [|l0 r0]]; try discriminate. injection Eh as <- <-.
        apply wfb_cons_inv in Hw as [Hh Hw]. apply wfb_cons_inv in Hw as [Hl0 Hw]. unfold byte in *. split; [lia|exact Hw].
      - destruct rest as [|l0 r0]; try discriminate. injection Eh as <- <-.
        apply wfb_cons_inv in Hw as [Hl0 Hw]. unfold byte in *. split; [lia|exact Hw]. }
    destruct Hlb as [Hlen Hwb].
    rewrite blen_zlen in Ht. cbn [andb].
    destruct (zlen body <? len) eqn:El; [discriminate|]. apply Z.ltb_ge in El.
    destruct (tlvs f (skipn (Z.to_nat len) body)) as [t|] eqn:Et; [|discriminate].
    injection Ht as <-.
    cbn [find_raw find r_code] in Hfind.
    destruct (c =? r_code r) eqn:Ec.
    + (* this is the malformed attribute *)
      injection Hfind as <-. cbn [r_code r_flags r_val] in *.
      pose proof (step_malformed opq s other m fl c (firstn (Z.to_nat len) body) Hin Hfl Hm Hbad) as S.
      rewrite zlen_firstn_exact in S by lia.
      destruct (step true opq s fl c len (firstn (Z.to_nat len) body) m) as [m'| |]; cbn in *; auto.
      apply parse_keeps_taw. exact S.
    + destruct (step true opq s fl c len (firstn (Z.to_nat len) body) m) as [m'| |] eqn:Es; cbn; auto.
      apply (IH _ t m' r); auto.
      * apply wfb_skipn. exact Hwb.
      * apply Z.eqb_neq in Ec.
        rewrite (step_other_codes _ _ _ _ _ _ _ _ _ Es); auto.
        -- intros E; rewrite E in Hin; cbn in Hin; intuition discriminate.
        -- intros E; rewrite E in Hin; cbn in Hin; intuition discriminate.
Qed.

Theorem rfc7606_taw opq s other b wb ab nb l r :
  wfb b -> sections b = Some (wb, ab, nb) -> tlvs (length ab) ab = Some l ->
  find_raw l (r_code r) = Some r -> In (r_code r) taw_codes ->
  flags_conflict (r_code r) (r_flags r) || value_malformed other (s_asn4 s) (r_code r) (r_val r) = true ->
  no_announce (dec_update opq s b).
Proof.
  intros Hw Hs Ht Hf Hin Hbad. destruct (marker_blocks b wb ab nb Hs) as [M1 M2].
  assert (Hwa : wfb ab).
  { unfold sections in Hs.
    destruct (blen b <? 4); [discriminate|]. destruct (blen b <? 4 + be16 b); [discriminate|].
    match type of Hs with (if ?c then _ else _) = _ => destruct c; [discriminate|] end.
    injection Hs as _ <- _. apply wfb_firstn. apply wfb_skipn. exact Hw. }
  apply (refuses_no_announce opq s b wb ab nb Hs).
  - apply (parse_malformed opq s other (length ab) ab l [] r); auto.
  - destruct ((zlen b =? EOR_V4_LENGTH) && list_eqb b [0;0;0;0]); [|reflexivity].
    rewrite M1 in Ht by reflexivity. injection Ht as <-. discriminate.
  - destruct ((zlen b =? EOR_PREFIX_LENGTH) && is_prefix EOR_PREFIX b); [|reflexivity].
    destruct (M2 eq_refl) as (x & y & z & M). rewrite M in Ht. injection Ht as <-.
    cbn [find_raw find r_code] in Hf. destruct (15 =? r_code r) eqn:E; [|discriminate].
    apply Z.eqb_eq in E. rewrite <- E in Hin. cbn in Hin. intuition discriminate.
Qed.

(* whatever the body: a recorded treat-as-withdraw never leaves an announced route *)
Lemma has_taw_remove_inv m c : has_taw (aremove m c) = true -> has_taw m = true.
Proof.
  unfold has_taw, ahas, aremove. induction m as [|a m IH]; cbn; [auto|].
  destruct (a_code a =? c); cbn.
  - intros H. rewrite (IH H). apply orb_true_r.
  - destruct (a_code a =? CODE_TREAT_AS_WITHDRAW); cbn; auto.
Qed.

Theorem taw_never_announces opq s b u :
  dec_update opq s b = Decoded u -> has_taw (u_attrs u) = true -> u_ann u = [].
Proof.
  unfold dec_update, dec_update_gen.
  destruct ((zlen b =? EOR_V4_LENGTH) && list_eqb b [0;0;0;0]); [discriminate|].
  destruct ((zlen b =? EOR_PREFIX_LENGTH) && is_prefix EOR_PREFIX b); [discriminate|].
  pose proof (payload_taw opq s b) as P. revert P.
  unfold parse_payload.
  destruct (split b) as [wb ab nb|]; [|discriminate].
  destruct (unpack_attrs true opq s ab) as [m| |]; try discriminate.
  destruct (nlri_loop (length wb) true _ 1 1 wb); [|discriminate].
  destruct (nlri_loop (length nb) false _ 1 1 nb); [|discriminate].
  destruct (match bytes_of (aget m A_MP_UNREACH_NLRI) with Some v => mp_unreach_routes s v | None => Some [] end); [|discriminate].
  destruct (match bytes_of (aget m A_MP_REACH_NLRI) with Some v => mp_reach_routes s v | None => Some [] end); [|discriminate].
  cbn [andb]. destruct (ahas m CODE_TREAT_AS_WITHDRAW) eqn:Hm.
  - intros _. cbn [u_attrs u_ann u_wd].
    match goal with |- (if ?c then _ else _) = _ -> _ => destruct c end; intros H;
      [repeat (match type of H with context [match ?x with _ => _ end] => destruct x end); discriminate|].
    injection H as <-. reflexivity.
  - intros _. cbn [u_attrs u_ann u_wd].
    match goal with |- (if ?c then _ else _) = _ -> _ => destruct c end; intros H;
      [repeat (match type of H with context [match ?x with _ => _ end] => destruct x end); discriminate|].
    injection H as <-. cbn [u_attrs]. intros Ht. apply has_taw_remove_inv in Ht. apply has_taw_remove_inv in Ht.
    unfold has_taw in Ht. congruence.
Qed.


(* ------------------------------------------------------------------ witnesses (the pinned generation) *)

Definition s_v4 : sess := mkS true [(1, 1)] [] [].
Definition no_opq : Z -> list Z -> vres := fun _ _ => VValueError.
Definition rs_of (s : sess) : rsess := mkRS (s_asn4 s) (s_fams s) (s_addpath s) (s_extnh s).

(* ORIGIN igp, AS_PATH ( 65001 ), NEXT_HOP 10.0.0.1 *)
Definition base_attrs : list Z := [64;1;1;0; 64;2;6;2;1;0;0;253;233; 64;3;4;10;0;0;1].
Definition body_of (attrs nlri : list Z) : list Z :=
  [0; 0; zlen attrs / 256; zlen attrs mod 256] ++ attrs ++ nlri.

(* D5: MED of length 3, NLRI 10.1.2.0/24 *)
Definition w_med3 : list Z := body_of (base_attrs ++ [128;4;3;0;0;7]) [24;10;1;2].
(* D5: COMMUNITY declaring 8 bytes, 4 left in the block *)
Definition w_overrun : list Z := body_of (base_attrs ++ [192;8;8;253;232;0;1]) [24;10;1;2].

Definition announces (o : outcome) : list (nlri * list Z) := match o with Decoded u => u_ann u | _ => [] end.
Definition attrs_of (o : outcome) : amap := match o with Decoded u => u_attrs u | _ => [] end.

Lemma w_med3_pinned :
  verdict (fun _ _ => false) (rs_of s_v4) w_med3 = [1;0; 2;0; 3;0; 4;1]
  /\ announces (dec_update_pinned no_opq s_v4 w_med3) = [(mkN 1 1 None [] [] 24 [10;1;2], [10;0;0;1])]
  /\ ahas (attrs_of (dec_update_pinned no_opq s_v4 w_med3)) CODE_TREAT_AS_WITHDRAW = true.
Proof. repeat split; vm_compute; reflexivity. Qed.

Lemma w_med3_fixed :
  exists u, dec_update no_opq s_v4 w_med3 = Decoded u /\ u_ann u = [] /\ u_wd u = [mkN 1 1 None [] [] 24 [10;1;2]].
Proof. eexists. repeat split; vm_compute; reflexivity. Qed.

Lemma w_overrun_pinned :
  exists wb ab nb, sections w_overrun = Some (wb, ab, nb) /\ tlvs (length ab) ab = None
  /\ announces (dec_update_pinned no_opq s_v4 w_overrun) = [(mkN 1 1 None [] [] 24 [10;1;2], [10;0;0;1])]
  /\ aget (attrs_of (dec_update_pinned no_opq s_v4 w_overrun)) A_COMMUNITY = Some (mkA 8 192 (VBytes [253;232;0;1]))
  /\ ahas (attrs_of (dec_update_pinned no_opq s_v4 w_overrun)) CODE_TREAT_AS_WITHDRAW = false.
Proof. do 3 eexists. repeat split; vm_compute; reflexivity. Qed.

(* COMMUNITY with the Optional bit cleared: dropped silently by the pinned generation, route announced without it *)
Definition w_flags : list Z := body_of (base_attrs ++ [64;8;4;253;232;0;1]) [24;10;1;2].
Lemma w_flags_pinned :
  verdict (fun _ _ => false) (rs_of s_v4) w_flags = [1;0; 2;0; 3;0; 8;1]
  /\ announces (dec_update_pinned no_opq s_v4 w_flags) = [(mkN 1 1 None [] [] 24 [10;1;2], [10;0;0;1])]
  /\ ahas (attrs_of (dec_update_pinned no_opq s_v4 w_flags)) CODE_TREAT_AS_WITHDRAW = false
  /\ aget (attrs_of (dec_update_pinned no_opq s_v4 w_flags)) A_COMMUNITY = None
  /\ announces (dec_update no_opq s_v4 w_flags) = [].
Proof. repeat split; vm_compute; reflexivity. Qed.

(* known finding: AS_PATH ( 65001 ) followed by a segment of length zero (`02 00`) is malformed per RFC 7606 7.2;
   both generations accept it and announce the route with the attribute as read *)
Definition w_zero_seg : list Z :=
  body_of [64;1;1;0; 64;2;8;2;1;0;0;253;233;2;0; 64;3;4;10;0;0;1] [24;10;1;2].
Lemma w_zero_seg_accepted :
  verdict (fun _ _ => false) (rs_of s_v4) w_zero_seg = [1;0; 2;1; 3;0]
  /\ announces (dec_update no_opq s_v4 w_zero_seg) = [(mkN 1 1 None [] [] 24 [10;1;2], [10;0;0;1])]
  /\ ahas (attrs_of (dec_update no_opq s_v4 w_zero_seg)) CODE_TREAT_AS_WITHDRAW = false
  /\ aget (attrs_of (dec_update no_opq s_v4 w_zero_seg)) A_AS_PATH = Some (mkA 2 64 (VPath true [(2, [65001]); (2, [])])).
Proof. repeat split; vm_compute; reflexivity. Qed.

(* malformed AGGREGATOR (discard class): the pinned read_message drops the whole UPDATE *)
Definition w_aggr : list Z := body_of (base_attrs ++ [192;7;3;1;2;3]) [24;10;1;2].
Lemma w_aggr_rib :
  exists u, dec_update_pinned no_opq s_v4 w_aggr = Decoded u /\ u_ann u <> [] /\ aget (u_attrs u) A_AGGREGATOR = None
  /\ ribin_apply false [] u = [] /\ length (ribin_apply true [] u) = 1%nat.
Proof. eexists. repeat split; try (vm_compute; reflexivity). vm_compute. discriminate. Qed.

(* non-vacuity for the End-of-RIB statements: ipv6 unicast as an MP_UNREACH_NLRI with no route, written
   without the extended-length bit (10 bytes: the third recognition path) *)
Lemma eor_third_path :
  dec_update no_opq (mkS true [(1,1);(2,1)] [] []) [0;0;0;6;128;15;3;0;2;1] = EndOfRib 2 1
  /\ dec_update no_opq (mkS true [(1,1);(2,1)] [] []) [0;0;0;3;128;99;0] = EndOfRib 1 1.
Proof. split; vm_compute; reflexivity. Qed.


(* ------------------------------------------------------------------ C02: the attribute set of a well-formed block *)

Lemma hasbit_pow f m : m = 32 \/ m = 64 -> hasbit f m = (m <=? f mod (2 * m)).
Proof.
  intros Hm. unfold hasbit.
  destruct ((f / m) mod 2 =? 1) eqn:E; destruct (m <=? f mod (2 * m)) eqn:E2; try reflexivity;
  [apply Z.eqb_eq in E; apply Z.leb_gt in E2 | apply Z.eqb_neq in E; apply Z.leb_le in E2];
  exfalso; destruct Hm; subst m;
  match goal with |- _ => 
  pose proof (Z.div_mod f 32 ltac:(lia)); pose proof (Z.mod_pos_bound f 32 ltac:(lia));
  pose proof (Z.div_mod f 64 ltac:(lia)); pose proof (Z.mod_pos_bound f 64 ltac:(lia));
  pose proof (Z.div_mod f 128 ltac:(lia)); pose proof (Z.mod_pos_bound f 128 ltac:(lia));
  pose proof (Z.div_mod (f / 32) 2 ltac:(lia)); pose proof (Z.mod_pos_bound (f / 32) 2 ltac:(lia));
  pose proof (Z.div_mod (f / 64) 2 ltac:(lia)); pose proof (Z.mod_pos_bound (f / 64) 2 ltac:(lia)) end;
  change (2 * 32) with 64 in *; change (2 * 64) with 128 in *; lia.
Qed.

Definition wf_flags (k f : Z) : bool :=
  (f_unused f =? 0) && (f_optional f || negb (f_partial f)) && negb (flags_conflict k f).

Lemma wellformed_sweep :
  forallb (fun k => forallb (fun f => implb (wf_flags k f) (registered k (masked k f))) bytes256) registered_codes = true.
Proof. vm_compute. reflexivity. Qed.

Lemma wellformed_registered k f :
  In k registered_codes -> 0 <= f < 256 -> wf_flags k f = true -> registered k (masked k f) = true.
Proof.
  intros Hk Hf Hw. pose proof wellformed_sweep as S.
  rewrite forallb_forall in S. specialize (S k Hk). rewrite forallb_forall in S.
  specialize (S f (in_bytes256 f Hf)). rewrite Hw in S. exact S.
Qed.

Lemma unknown_sweep :
  forallb (fun c => implb (match category_of c with None => true | Some _ => false end)
                          (match klass_by_id c with None => true | Some _ => false end)) bytes256 = true.
Proof. vm_compute. reflexivity. Qed.

Lemma unknown_no_class c : 0 <= c < 256 -> category_of c = None -> klass_by_id c = None.
Proof.
  intros Hc Hn. pose proof unknown_sweep as S. rewrite forallb_forall in S.
  specialize (S c (in_bytes256 c Hc)). rewrite Hn in S. cbn in S. destruct (klass_by_id c); [discriminate|reflexivity].
Qed.

Definition entry_of (a : attr) : Z * Z * sval :=
  (a_code a, a_flag a, match a_val a with VBytes b => SBytes b | VPath _ p => SPath p end).

(* the types whose value is reported as the bytes received, proved here; AS paths, LARGE_COMMUNITY and
   the MP attributes are tied by the correspondence only *)
Definition scalar_codes : list Z := [1; 3; 4; 5; 6; 7; 8; 9; 10; 16; 18; 25].

Definition simple (r : raw) : bool :=
  zin (r_code r) scalar_codes || match category_of (r_code r) with None => true | Some _ => false end.

Lemma aadd_new m a : ahas m (a_code a) = false -> aadd m a = m ++ [a].
Proof. intros H. unfold aadd. now rewrite H. Qed.

Lemma cont_add m a e : ahas m (a_code a) = false -> entry_of a = e ->
  exists m', SCont (aadd m a) = SCont m' /\ map entry_of m' = map entry_of m ++ [e]
             /\ (forall x, x <> a_code a -> ahas m' x = ahas m x).
Proof.
  intros Hm He. eexists. split; [reflexivity|]. split.
  - rewrite aadd_new by exact Hm. rewrite map_app. cbn. now rewrite He.
  - intros x Hx. apply ahas_aadd_other. congruence.
Qed.

Ltac len4 Hval v code :=
  change (value_malformed _ _ code v) with (negb (zlen v =? 4)) in Hval;
  apply negb_false_iff in Hval;
  match goal with |- context [unpack_value true ?o ?s code (zlen v) v] =>
    change (unpack_value true o s code (zlen v) v) with (len_is v 4) end;
  unfold len_is; rewrite Hval; apply Z.eqb_eq in Hval;
  assert (zlen v =? 0 = false) as -> by (apply Z.eqb_neq; lia); cbn [andb].

Ltac lenmult Hval v code n bad :=
  change (value_malformed _ _ code v) with (negb ((0 <? zlen v) && (zlen v mod n =? 0))) in Hval;
  apply negb_false_iff in Hval; apply andb_prop in Hval as [Hpos Hmod];
  match goal with |- context [unpack_value true ?o ?s code (zlen v) v] =>
    change (unpack_value true o s code (zlen v) v) with (len_mult v n bad) end;
  unfold len_mult; rewrite Hmod; apply Z.ltb_lt in Hpos;
  assert (zlen v =? 0 = false) as -> by (apply Z.eqb_neq; lia); cbn [andb].

Lemma step_wellformed opq s other m r :
  attr_wellformed other (rs_of s) r = true -> simple r = true ->
  0 <= r_code r < 256 -> ahas m (r_code r) = false ->
  exists m', step true opq s (r_flags r) (r_code r) (zlen (r_val r)) (r_val r) m = SCont m'
             /\ map entry_of m' = map entry_of m ++ attr_entry (rs_of s) r
             /\ (forall x, x <> r_code r -> ahas m' x = ahas m x).
Proof.
  destruct r as [f code v]. cbn [r_flags r_code r_val]. intros Hwf Hs Hcode Hm.
  unfold attr_wellformed in Hwf. cbn [r_flags r_code r_val] in Hwf.
  apply andb_prop in Hwf as [Hwf Hcat]. apply andb_prop in Hwf as [Hwf Hpart].
  apply andb_prop in Hwf as [Hwf Hhi]. apply andb_prop in Hwf as [Hlow Hlo].
  assert (Hf : 0 <= f < 256) by (apply Z.leb_le in Hlo; apply Z.ltb_lt in Hhi; lia).
  unfold simple in Hs. cbn [r_code] in Hs.
  destruct (category_of code) as [cat|] eqn:Ecat.
  - (* a recognised scalar attribute *)
    rewrite orb_false_r in Hs. apply andb_prop in Hcat as [Hconf Hval].
    assert (Hreg : registered code (masked code f) = true).
    { apply wellformed_registered; auto.
      - unfold zin in Hs. cbn in Hs. cbn.
        repeat match type of Hs with (?a =? ?b) || _ = true => destruct (Z.eqb_spec a b); [subst; intuition|cbn [orb] in Hs] end.
        discriminate.
      - unfold wf_flags. now rewrite Hlow, Hpart, Hconf. }
    apply negb_true_iff in Hval. cbn [rs_asn4 rs_of] in Hval.
    unfold zin in Hs. cbn [existsb scalar_codes] in Hs.
    repeat match type of Hs with
    | (?a =? ?b) || _ = true => destruct (Z.eqb_spec a b); [subst code; clear Hs|cbn [orb] in Hs]
    | false = true => discriminate
    end;
    (erewrite step_registered; [|reflexivity|exact Hm|exact Hreg]); cbn [ac_vzero ac_taw ac_discard ac_flag negb andb];
    unfold attr_entry; cbn [r_code r_val r_flags]; injection Ecat as <-; cbn [category_flags orb Z.eqb Pos.eqb].
    + (* ORIGIN *)
      change (value_malformed other (s_asn4 s) 1 v) with (negb ((zlen v =? 1) && (nth 0 v 0 <=? 2))) in Hval.
      apply negb_false_iff in Hval. apply andb_prop in Hval as [H1 H2].
      change (unpack_value true opq s 1 (zlen v) v) with
        (if zlen v =? 1 then (if 2 <? nth 0 v 0 then VValueError else VOk (VBytes v)) else VValueError).
      rewrite H1. apply Z.eqb_eq in H1. assert (zlen v =? 0 = false) as -> by (apply Z.eqb_neq; lia). cbn [andb].
      assert (2 <? nth 0 v 0 = false) as -> by (apply Z.ltb_ge; apply Z.leb_le in H2; lia).
      apply cont_add; [exact Hm|reflexivity].
    + (* NEXT_HOP *)
      change (value_malformed other (s_asn4 s) 3 v) with (negb (zlen v =? 4)) in Hval. apply negb_false_iff in Hval.
      change (unpack_value true opq s 3 (zlen v) v) with
        (if true && negb (zlen v =? 4) then VValueError else
         match v with [] => VOk (VBytes []) | _ => if (zlen v =? 4) || (zlen v =? 16) then VOk (VBytes v) else VValueError end).
      rewrite Hval. cbn [negb andb orb]. apply Z.eqb_eq in Hval.
      assert (zlen v =? 0 = false) as -> by (apply Z.eqb_neq; lia). cbn [andb].
      destruct v as [|v0 v']; [cbn in Hval; lia|]. apply cont_add; [exact Hm|reflexivity].
    + len4 Hval v 4. apply cont_add; [exact Hm|reflexivity].
    + len4 Hval v 5. apply cont_add; [exact Hm|reflexivity].
    + (* ATOMIC_AGGREGATE *)
      change (value_malformed other (s_asn4 s) 6 v) with (negb (zlen v =? 0)) in Hval. apply negb_false_iff in Hval.
      change (unpack_value true opq s 6 (zlen v) v) with (len_is v 0). unfold len_is. rewrite Hval. cbn [andb].
      apply cont_add; [exact Hm|reflexivity].
    + (* AGGREGATOR *)
      change (value_malformed other (s_asn4 s) 7 v) with (negb (zlen v =? (if s_asn4 s then 8 else 6))) in Hval.
      apply negb_false_iff in Hval.
      change (unpack_value true opq s 7 (zlen v) v) with (len_is v (if s_asn4 s then 8 else 6)). unfold len_is.
      rewrite Hval. apply Z.eqb_eq in Hval.
      assert (zlen v =? 0 = false) as -> by (apply Z.eqb_neq; destruct (s_asn4 s); lia). cbn [andb].
      apply cont_add; [exact Hm|reflexivity].
    + lenmult Hval v 8 4 (VNotify 3 1). apply cont_add; [exact Hm|reflexivity].
    + len4 Hval v 9. apply cont_add; [exact Hm|reflexivity].
    + lenmult Hval v 10 4 VValueError. apply cont_add; [exact Hm|reflexivity].
    + lenmult Hval v 16 8 (VNotify 3 1). apply cont_add; [exact Hm|reflexivity].
    + (* AS4_AGGREGATOR *)
      change (value_malformed other (s_asn4 s) 18 v) with (negb (zlen v =? 8)) in Hval. apply negb_false_iff in Hval.
      change (unpack_value true opq s 18 (zlen v) v) with (len_is v 8). unfold len_is. rewrite Hval.
      apply Z.eqb_eq in Hval. assert (zlen v =? 0 = false) as -> by (apply Z.eqb_neq; lia). cbn [andb].
      apply cont_add; [exact Hm|reflexivity].
    + lenmult Hval v 25 20 (VNotify 3 1). apply cont_add; [exact Hm|reflexivity].
  - (* an unrecognised attribute: optional; transitive ones are kept with the Partial bit, the others dropped *)
    pose proof (unknown_no_class code Hcode Ecat) as Hk.
    unfold step, is_optional, registered. rewrite Hk, Hm. unfold attr_entry. cbn [r_code r_flags r_val]. rewrite Ecat.
    change F_TRANSITIVE with 64. change F_PARTIAL with 32.
    rewrite (hasbit_pow f 64) by auto. change (2 * 64) with 128. fold (f_transitive f).
    destruct (f_transitive f).
    + unfold setbit. rewrite (hasbit_pow f 32) by auto. change (2 * 32) with 64. fold (f_partial f).
      apply cont_add; [exact Hm|]. unfold entry_of. cbn [a_code a_flag a_val]. reflexivity.
    + exists m. split; [reflexivity|]. split; [now rewrite app_nil_r|auto].
Qed.

Lemma simple_not_path r : simple r = true -> r_code r <> 2 /\ r_code r <> 17.
Proof.
  unfold simple. intros H. split; intros E; rewrite E in H; vm_compute in H; discriminate.
Qed.

Lemma attrs_agree opq s other : forall fuel d l m,
  wfb d -> tlvs fuel d = Some l ->
  forallb (attr_wellformed other (rs_of s)) l = true -> forallb simple l = true -> nodup_codes l = true ->
  (forall r, In r l -> ahas m (r_code r) = false) ->
  exists m', parse fuel true opq s d m = POk m'
    /\ map entry_of m' = map entry_of m ++ flat_map (attr_entry (rs_of s)) l
    /\ (forall x, (forall r, In r l -> r_code r <> x) -> ahas m' x = ahas m x)
    /\ Forall (fun r => 0 <= r_code r < 256) l.
Proof.
  induction fuel as [|f IH]; intros d l m Hw Ht Hwf Hsi Hnd Hm.
  - destruct d as [|fl [|c rest]]; cbn in Ht; try discriminate. injection Ht as <-.
    exists m. cbn. rewrite app_nil_r. auto.
  - destruct d as [|fl [|c rest]]; cbn [tlvs] in Ht; try discriminate.
    { injection Ht as <-. exists m. cbn. rewrite app_nil_r. auto. }
    apply wfb_cons_inv in Hw as [Hfl Hw]. apply wfb_cons_inv in Hw as [Hcb Hw].
    cbn [parse next_tlv]. rewrite hasbit_ext.
    destruct (if f_extended fl then match rest with h :: l0 :: r0 => Some (h * 256 + l0, r0) | _ => None end
              else match rest with l0 :: r0 => Some (l0, r0) | _ => None end) as [[len body]|] eqn:Eh; [|discriminate].
    assert (Hlb : 0 <= len /\ wfb body).
    { destruct (f_extended fl).
      - destruct rest as [|h [|l0 r0]]; try discriminate. injection Eh as <- <-.
        apply wfb_cons_inv in Hw as [Hh Hw]. apply wfb_cons_inv in Hw as [Hl0 Hw]. unfold byte in *. split; [lia|exact Hw].
      - destruct rest as [|l0 r0]; try discriminate. injection Eh as <- <-.
        apply wfb_cons_inv in Hw as [Hl0 Hw]. unfold byte in *. split; [lia|exact Hw]. }
    destruct Hlb as [Hlen Hwb].
    rewrite blen_zlen in Ht. cbn [andb].
    destruct (zlen body <? len) eqn:El; [discriminate|]. apply Z.ltb_ge in El.
    destruct (tlvs f (skipn (Z.to_nat len) body)) as [t|] eqn:Et; [|discriminate].
    injection Ht as <-.
    cbn [forallb] in Hwf, Hsi. apply andb_prop in Hwf as [Hwf0 Hwft]. apply andb_prop in Hsi as [Hsi0 Hsit].
    cbn [nodup_codes r_code] in Hnd. apply andb_prop in Hnd as [Hnd0 Hndt].
    set (r0 := mkRaw fl c (firstn (Z.to_nat len) body)) in *.
    assert (Hm0 : ahas m (r_code r0) = false) by (apply Hm; left; reflexivity).
    destruct (step_wellformed opq s other m r0 Hwf0 Hsi0 Hcb Hm0) as (m1 & Hs1 & He1 & Hk1).
    cbn [r_flags r_code r_val r0] in Hs1. rewrite zlen_firstn_exact in Hs1 by lia. rewrite Hs1.
    assert (Hfresh : forall r, In r t -> r_code r <> c).
    { intros r Hr E. apply negb_true_iff in Hnd0.
      assert (existsb (fun x => r_code x =? c) t = true); [|congruence].
      apply existsb_exists. exists r. split; [exact Hr|]. now apply Z.eqb_eq. }
    destruct (IH (skipn (Z.to_nat len) body) t m1) as (m' & Hp & He & Hk & Hb); auto.
    { apply wfb_skipn. exact Hwb. }
    { intros r Hr. rewrite Hk1 by (cbn; apply Hfresh; exact Hr). apply Hm. right. exact Hr. }
    exists m'. split; [exact Hp|]. split; [|split].
    + rewrite He, He1. cbn [flat_map]. now rewrite <- app_assoc.
    + intros x Hx. rewrite Hk by (intros r Hr; apply Hx; right; exact Hr).
      apply Hk1. cbn. intros E. apply (Hx r0); [left; reflexivity|]. cbn. congruence.
    + constructor; [exact Hcb|exact Hb].
Qed.

(* C02, attribute part: a well-formed block of scalar and unrecognised attributes, in any order, with or
   without the extended-length bit, with or without the Partial bit on optional attributes, is reported
   exactly as the reference reports it: no treat-as-withdraw, no discard, nothing dropped or invented *)
Theorem attributes_agree opq s other ab l :
  wfb ab -> tlvs (length ab) ab = Some l ->
  forallb (attr_wellformed other (rs_of s)) l = true -> nodup_codes l = true -> forallb simple l = true ->
  exists m, unpack_attrs true opq s ab = POk m /\ map entry_of m = flat_map (attr_entry (rs_of s)) l.
Proof.
  intros Hw Ht Hwf Hnd Hsi.
  destruct (attrs_agree opq s other (length ab) ab l [] Hw Ht Hwf Hsi Hnd (fun _ _ => eq_refl)) as (m & Hp & He & Hk & Hb).
  exists m. split; [|exact He].
  unfold unpack_attrs. rewrite Hp. unfold post_parse.
  assert (Hnone : forall x, (x = CODE_TREAT_AS_WITHDRAW \/ x = A_AS_PATH) -> ahas m x = false).
  { intros x Hx. rewrite Hk; [reflexivity|]. intros r Hr E.
    rewrite Forall_forall in Hb. specialize (Hb r Hr).
    rewrite forallb_forall in Hsi. specialize (Hsi r Hr). apply simple_not_path in Hsi as [S2 S17].
    destruct Hx as [-> | ->]; [rewrite E in Hb; unfold CODE_TREAT_AS_WITHDRAW in Hb; lia|exact (S2 E)]. }
  rewrite (Hnone CODE_TREAT_AS_WITHDRAW) by auto. rewrite (Hnone A_AS_PATH) by auto. reflexivity.
Qed.
