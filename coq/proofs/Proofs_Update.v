From Coq Require Import ZArith List Bool Lia.
From ExaV Require Import gen.Gen_AttrTable gen.Gen_NlriRegistry model.Model_Nlri model.Model_Update spec.Spec_Wire.
Import ListNotations.
Open Scope Z_scope.
Lemma placeholder_true : True. Proof. exact I. Qed.
