(* C02 - Reported routes are exactly what the peer sent.
   Statements only; every proof is `exact <lemma>`; assumptions are printed.
   dec_update is the REPAIRED generation of the decoder (Model_Update, fixed = true: proposed repairs R1-R6),
   dec_update_pinned / merge_pinned the pinned tree.  Spec_Wire is the RFC reference.
   Proved for ALL byte strings: agreement with the reference on the whole UPDATE body for sessions of the eight IP
   families, mpls-vpn included (C02_agrees_with_reference), End-of-RIB recognition, the RFC 6793 merge, Adj-RIB-In.
   The five abstracted attribute types are tied by
   the correspondence (harness/c02.py: implementation = model = Spec_Wire.ref_update evaluated in Coq = content
   owned by the generator); the syntax of one prefix NLRI is C15. *)
From Coq Require Import ZArith Bool List.
From ExaV Require Import gen.Gen_AttrTable gen.Gen_NlriRegistry model.Model_Nlri model.Model_Update spec.Spec_Wire
  proofs.Proofs_Nlri proofs.Proofs_Update proofs.Proofs_Update2 proofs.Proofs_Update3 proofs.Proofs_Update4.
Import ListNotations.
Open Scope Z_scope.

(* ---- agreement with the reference decoder, attribute part.
   ab: any byte string (the Path Attributes field); l: its TLVs per RFC 4271 4.3; every attribute well formed as a
   conforming peer writes it (attr_wellformed), no code twice, each either one of ORIGIN, NEXT_HOP, MED, LOCAL_PREF,
   ATOMIC_AGGREGATE, AGGREGATOR, COMMUNITY, ORIGINATOR_ID, CLUSTER_LIST, EXTENDED_COMMUNITY, AS4_AGGREGATOR,
   IPV6_EXTENDED_COMMUNITY or unrecognised (simple).  Then the decoder raises nothing, records no treat-as-withdraw
   and no discard, and its attribute collection is, entry by entry and in order, the reference's: recognised
   attributes with their bytes, unrecognised transitive ones with the Partial bit set, unrecognised
   non-transitive ones left out. *)
Theorem C02_agrees_with_reference_attributes : forall opq s other ab l,
  wfb ab -> tlvs (length ab) ab = Some l ->
  forallb (attr_wellformed other (rs_of s)) l = true -> nodup_codes l = true -> forallb simple l = true ->
  exists m, unpack_attrs true opq s ab = POk m /\ map entry_of m = flat_map (attr_entry (rs_of s)) l.
Proof. exact attributes_agree. Qed.

(* ---- agreement with the reference decoder, WHOLE UPDATE BODY.
   s: any session whose negotiated families are among the eight IP families ipv4/ipv6 unicast, multicast, nlri-mpls,
   mpls-vpn (ip_sess), with or
   without ADD-PATH per family, 2- or 4-octet AS numbers, with or without the RFC 8950 extended next hop per family;
   b: any byte string of bytes; no attribute of its block is one of the five abstracted types PMSI, TUNNEL_ENCAP, AIGP,
   BGP-LS, PREFIX_SID (modelled); the reference decoder (RFC 4271 4.3 sections and TLVs, RFC 7606 well-formedness of
   every attribute, no duplicate, RFC 4760 MP_REACH / MP_UNREACH framing with the next hop length table incl.
   RFC 8950, RFC 6793 reconstruction, RFC 8092 de-duplication, RFC 4724 End-of-RIB; prefix syntax = Model_Nlri, C15)
   accepts b with content r.  Then the decoder raises nothing and reports exactly r: the same End-of-RIB family, or
   the same announced routes each with the same next hop, the same withdrawn routes, and the same attribute list
   (AS_PATH / AS4_PATH merged, MP attributes consumed) - lists equal element by element, in order. *)
Theorem C02_agrees_with_reference : forall opq s other b r,
  ip_sess s -> wfb b ->
  (forall wb ab nb l, sections b = Some (wb, ab, nb) -> tlvs (length ab) ab = Some l -> forallb modelled l = true) ->
  ref_update_gen unpack_nlri other (rs_of s) b = Some r ->
  match r with
  | REor a sf => dec_update opq s b = EndOfRib a sf
  | RUpdate u => exists u', dec_update opq s b = Decoded u' /\ u_ann u' = ru_announced u /\ u_wd u' = ru_withdrawn u
                            /\ map entry_of (u_attrs u') = ru_attrs u
  end.
Proof. exact agrees_with_reference. Qed.

(* ---- Adj-RIB-In (UpdateHandler + Cache.update_cache / update_cache_withdraw; key = Route.index, C15) as a finite
   map.  ref_rib_after (Spec_Wire) is the RFC 4271 4.3 update: withdrawn routes removed, announced ones installed, the
   last announce of a route wins, and a route that the same UPDATE both withdraws and announces STAYS ANNOUNCED.
   The handler with its withdraw loop before its announce loop computes exactly that ... *)
Theorem C02_ribin : forall r u k,
  rib_get (ribin_apply_gen true true r u) k =
  ref_rib_after rib_key list_eqb (rib_get r) (u_ann u) (u_wd u) (u_attrs u) k.
Proof. exact ribin_rfc. Qed.

(* ... and that is the tree under check when T5 reads this loop order in UpdateHandler.handle / handle_async
   (Gen_AttrTable.RIBIN_WITHDRAW_FIRST, regenerated on every run; the harness has the obligation that it is true) *)
Theorem C02_ribin_tree : RIBIN_WITHDRAW_FIRST = true -> forall r u k,
  rib_get (ribin_apply true r u) k =
  ref_rib_after rib_key list_eqb (rib_get r) (u_ann u) (u_wd u) (u_attrs u) k.
Proof. exact ribin_tree. Qed.

(* the other order (announces stored first, then withdraws removed): 10.1.2.0/24 withdrawn and announced by one UPDATE
   is absent from the table, where the reference (and the withdraw-first handler) keep it *)
Theorem C02_ribin_refuted :
  rib_get (ribin_apply_gen false true [] w_both_update) (rib_key w_both_route) = None
  /\ ref_rib_after rib_key list_eqb (rib_get []) (u_ann w_both_update) (u_wd w_both_update) (u_attrs w_both_update)
       (rib_key w_both_route) = Some (w_both_route, [10;0;0;1], [])
  /\ rib_get (ribin_apply_gen true true [] w_both_update) (rib_key w_both_route) = Some (w_both_route, [10;0;0;1], []).
Proof. exact ribin_announce_first_refuted. Qed.

(* composed with C02_agrees_with_reference: after a well-formed UPDATE the table is the RFC one for exactly the
   reference's routes, next hops and attribute list *)
Theorem C02_ribin_reference : forall opq s other b u,
  RIBIN_WITHDRAW_FIRST = true ->
  ip_sess s -> wfb b ->
  (forall wb ab nb l, sections b = Some (wb, ab, nb) -> tlvs (length ab) ab = Some l -> forallb modelled l = true) ->
  ref_update_gen unpack_nlri other (rs_of s) b = Some (RUpdate u) ->
  exists u', dec_update opq s b = Decoded u' /\ map entry_of (u_attrs u') = ru_attrs u
    /\ forall r k, rib_get (ribin_apply true r u') k =
         ref_rib_after rib_key list_eqb (rib_get r) (ru_announced u) (ru_withdrawn u) (u_attrs u') k.
Proof. exact ribin_reference. Qed.

(* ---- End-of-RIB: the RFC 4724 markers are recognised for their family ... *)
Theorem C02_eor_v4 : forall opq s, dec_update opq s [0;0;0;0] = EndOfRib 1 1.
Proof. exact eor_v4. Qed.

Theorem C02_eor_mp : forall opq s afi safi, 0 <= afi < 65536 ->
  dec_update opq s (EOR_PREFIX ++ [afi / 256; afi mod 256; safi]) = EndOfRib afi safi.
Proof. exact eor_prefix_form. Qed.

(* ... and only for End-of-RIB shapes: the two markers, or an UPDATE that yields no route and no attribute *)
Theorem C02_eor_only : forall opq s b afi safi,
  dec_update opq s b = EndOfRib afi safi ->
  b = [0;0;0;0]
  \/ (zlen b = 11 /\ firstn 8 b = EOR_PREFIX)
  \/ (exists u m ab, parse_payload true opq s b = (Decoded u, m, ab) /\ u_ann u = [] /\ u_wd u = [] /\ u_attrs u = []).
Proof. exact eor_only. Qed.

(* ---- AS_PATH + AS4_PATH are replaced by the RFC 6793 4.2.3 reconstruction (Spec_Wire.rfc6793), every other
   attribute untouched *)
Theorem C02_as4_merge : forall m f2 f4 a2 a4 p2 p4,
  ahas m CODE_TREAT_AS_WITHDRAW = false ->
  aget m A_AS_PATH = Some (mkA A_AS_PATH f2 (VPath a2 p2)) ->
  aget m A_AS4_PATH = Some (mkA A_AS4_PATH f4 (VPath a4 p4)) ->
  exists m', post_parse true m = POk m'
    /\ aget m' A_AS_PATH = Some (mkA A_AS_PATH 64 (VPath true (wire_form (rfc6793 p2 p4))))
    /\ aget m' A_AS4_PATH = None
    /\ forall c, c <> A_AS_PATH -> c <> A_AS4_PATH -> aget m' c = aget m c.
Proof. exact post_parse_merges. Qed.

(* the pinned merge (defect D4): AS_PATH ( 23456 ) + AS4_PATH ( 70000 ) raises struct.error (None);
   AS_PATH ( 65534 ) + an AS4_PATH without sequence loses the whole path; the RFC gives ( 70000 ) and ( 65534 ) *)
Theorem C02_as4_merge_refuted :
  merge_pinned [(2, [23456])] [(2, [70000])] = None
  /\ merge_pinned [(2, [65534])] [] = Some (VPath false [])
  /\ wire_form (rfc6793 [(2, [23456])] [(2, [70000])]) = [(2, [70000])]
  /\ wire_form (rfc6793 [(2, [65534])] []) = [(2, [65534])].
Proof. exact merge_pinned_refuted. Qed.

(* non-vacuity: the third End-of-RIB path (an MP_UNREACH_NLRI without route, written without the extended
   length bit) and an UPDATE carrying only an unrecognised non-transitive attribute *)
Example C02_example :
  dec_update no_opq (mkS true [(1,1);(2,1)] [] []) [0;0;0;6;128;15;3;0;2;1] = EndOfRib 2 1
  /\ dec_update no_opq (mkS true [(1,1);(2,1)] [] []) [0;0;0;3;128;99;0] = EndOfRib 1 1.
Proof. exact eor_third_path. Qed.

Print Assumptions C02_agrees_with_reference_attributes.
Print Assumptions C02_agrees_with_reference.
Print Assumptions C02_ribin.
Print Assumptions C02_ribin_tree.
Print Assumptions C02_ribin_refuted.
Print Assumptions C02_ribin_reference.
Print Assumptions C02_eor_v4.
Print Assumptions C02_eor_mp.
Print Assumptions C02_eor_only.
Print Assumptions C02_as4_merge.
Print Assumptions C02_as4_merge_refuted.
