(* C15 - Every family and attribute survives an encode/decode round trip.
   Statements only; every proof is `exact <lemma>`; assumptions are printed.
   Proved here for ALL values: the prefix NLRI classes (INET, Label, IPVPN incl. ADD-PATH) and the
   (family, bytes) framing of the packed-bytes-first classes.  The inner value syntax of the other
   families and of the attributes is tied by the correspondence harness only (harness/c15.py). *)
From Coq Require Import ZArith Bool List.
From ExaV Require Import gen.Gen_NlriRegistry model.Model_Nlri proofs.Proofs_Nlri.
Import ListNotations.
Open Scope Z_scope.

(* the decoder classes of the eight IP families are the ones the model describes (regenerated table) *)
Theorem C15_registry :
  nlri_class 1 1 = Some KInet /\ nlri_class 1 2 = Some KInet /\ nlri_class 2 1 = Some KInet /\ nlri_class 2 2 = Some KInet
  /\ nlri_class 1 4 = Some KLabel /\ nlri_class 2 4 = Some KLabel
  /\ nlri_class 1 128 = Some KIpvpn /\ nlri_class 2 128 = Some KIpvpn.
Proof. repeat split. Qed.

(* the model of Family.index() gives the bytes the code gives, for every registered family *)
Theorem C15_family_index_matches_code :
  forallb (fun e => match e with (a, s, idx) => list_eqb (fam_index a s) idx end) family_index_table = true
  /\ map (fun e => match e with (a, s, _) => (a, s) end) family_index_table = registered_families.
Proof. exact fam_index_matches_code. Qed.

(* ---- decode (encode n) = n, any trailing bytes untouched; `w` = decoding a withdraw *)

Theorem C15_inet_roundtrip : forall w addpath n rest,
  nlri_class (n_afi n) (n_safi n) = Some KInet -> wf w n -> (n_pid n = None <-> addpath = false) ->
  unpack_nlri w addpath (n_afi n) (n_safi n) (pack_inet addpath n ++ rest) = Some (n, rest).
Proof. exact inet_roundtrip. Qed.

Theorem C15_label_roundtrip : forall w addpath n rest,
  nlri_class (n_afi n) (n_safi n) = Some KLabel -> wf w n -> (n_pid n = None <-> addpath = false) ->
  norm_labels (n_labels n) = n_labels n ->
  unpack_nlri w addpath (n_afi n) (n_safi n) (pack_label addpath n ++ rest) = Some (n, rest).
Proof. exact label_roundtrip. Qed.

(* label stacks built by Labels.make_labels satisfy the normal-form hypothesis above *)
Theorem C15_make_labels_normal : forall vs, norm_labels (make_labels vs) = make_labels vs.
Proof. exact norm_make_labels. Qed.

Theorem C15_ipvpn_roundtrip : forall w addpath n rest,
  nlri_class (n_afi n) (n_safi n) = Some KIpvpn -> wf w n -> (n_pid n = None <-> addpath = false) ->
  unpack_nlri w addpath (n_afi n) (n_safi n) (pack_ipvpn addpath n ++ rest) = Some (n, rest).
Proof. exact ipvpn_roundtrip. Qed.

(* whatever the session: the fields survive, the path-id becomes what the session dictates *)
Theorem C15_roundtrip_any_session : forall w addpath n rest,
  wf w n ->
  unpack_core w addpath (n_afi n) (n_safi n) (pack_nlri addpath n ++ rest)
  = Some (pid_seen addpath (n_pid n), n_labels n, n_rd n, n_mask n, n_pfx n, rest).
Proof. exact roundtrip_any_session. Qed.

(* ---- encode (decode b) = b for every byte string a decoder accepts *)

Theorem C15_canonical_bytes : forall w addpath afi safi data n rest,
  wfb data ->
  unpack_nlri w addpath afi safi data = Some (n, rest) ->
  (nlri_class afi safi = Some KLabel -> forall pid ls rd m pfx r,
     unpack_core w addpath afi safi data = Some (pid, ls, rd, m, pfx, r) -> norm_labels ls = ls) ->
  pack_nlri addpath n ++ rest = data.
Proof. exact canonical_bytes. Qed.

Theorem C15_decoded_shape : forall w addpath afi safi data n rest,
  wfb data -> unpack_nlri w addpath afi safi data = Some (n, rest) ->
  n_afi n = afi /\ n_safi n = safi /\ (n_pid n = None <-> addpath = false)
  /\ match n_pid n with Some b => length b = 4%nat | None => True end
  /\ zlen (n_rd n) = rd_size afi safi /\ 0 <= n_mask n <= ip_length afi * 8 /\ zlen (n_pfx n) = csize (n_mask n).
Proof. exact decoded_shape. Qed.

(* ---- index: routes that differ in family, path identifier, prefix or rd never share an index
        (index with the length-prefixed path-id tag, i.e. the repaired code; labels are
         deliberately not part of a labelled route's index) *)

Theorem C15_index_injective_inet : forall n1 n2,
  wfx n1 -> wfx n2 -> n_labels n1 = [] -> n_rd n1 = [] -> n_labels n2 = [] -> n_rd n2 = [] ->
  index_inet n1 = index_inet n2 -> n1 = n2.
Proof. exact index_inet_injective. Qed.

Theorem C15_index_injective_label : forall n1 n2,
  wfx n1 -> wfx n2 -> index_label n1 = index_label n2 ->
  n_afi n1 = n_afi n2 /\ n_safi n1 = n_safi n2 /\ n_pid n1 = n_pid n2 /\ n_mask n1 = n_mask n2 /\ n_pfx n1 = n_pfx n2.
Proof. exact index_label_injective. Qed.

Theorem C15_index_injective_ipvpn : forall n1 n2,
  wfx n1 -> wfx n2 -> zlen (n_rd n1) = 8 -> zlen (n_rd n2) = 8 -> index_ipvpn n1 = index_ipvpn n2 ->
  n_afi n1 = n_afi n2 /\ n_safi n1 = n_safi n2 /\ n_pid n1 = n_pid n2 /\ n_rd n1 = n_rd n2
  /\ n_mask n1 = n_mask n2 /\ n_pfx n1 = n_pfx n2.
Proof. exact index_ipvpn_injective. Qed.

Theorem C15_route_index_injective : forall k n1 n2,
  0 <= n_afi n1 < 256 -> 0 <= n_safi n1 < 256 -> 0 <= n_afi n2 < 256 -> 0 <= n_safi n2 < 256 ->
  route_index k n1 = route_index k n2 -> index_of k n1 = index_of k n2.
Proof. exact route_index_injective. Qed.

(* a == b (index equality) implies equal hash inputs *)
Theorem C15_eq_implies_index_hash_equal : forall k n1 n2,
  0 <= n_afi n1 < 256 -> 0 <= n_safi n1 < 256 -> 0 <= n_afi n2 < 256 -> 0 <= n_safi n2 < 256 ->
  nlri_eqb k n1 n2 = true -> hash_key k n1 = hash_key k n2.
Proof. exact eq_implies_hash. Qed.

(* ---- the pinned tree (index without the length byte, hash of the stored bytes): both statements
        are false there; witnesses D15 (three classes) and D14 *)

Theorem C15_index_injective_refuted :
  (exists a b, wf false a /\ wf false b /\ nlri_class (n_afi a) (n_safi a) = Some KLabel
     /\ index_label_pinned a = index_label_pinned b /\ n_pid a <> n_pid b /\ n_mask a <> n_mask b /\ n_pfx a <> n_pfx b)
  /\ (exists a b, wf false a /\ wf false b /\ nlri_class (n_afi a) (n_safi a) = Some KInet
     /\ index_inet_pinned a = index_inet_pinned b /\ n_pid a <> n_pid b /\ n_mask a <> n_mask b /\ n_pfx a <> n_pfx b)
  /\ (exists a b, wf false a /\ wf false b /\ nlri_class (n_afi a) (n_safi a) = Some KIpvpn
     /\ index_ipvpn_pinned a = index_ipvpn_pinned b /\ n_pid a <> n_pid b /\ n_rd a <> n_rd b /\ n_mask a <> n_mask b).
Proof. exact index_pinned_not_injective. Qed.

Theorem C15_eq_hash_refuted :
  exists a b, wf false a /\ wf false b /\ nlri_eqb_pinned KLabel a b = true /\ hash_key_pinned a <> hash_key_pinned b.
Proof. exact eq_hash_pinned_refuted. Qed.

(* ---- packed-bytes-first classes: index = Family.index + stored bytes *)

Theorem C15_opaque_index_injective : forall f g b1 b2,
  In f registered_families -> In g registered_families ->
  opaque_index (fst f) (snd f) b1 = opaque_index (fst g) (snd g) b2 -> f = g /\ b1 = b2.
Proof. exact opaque_index_injective. Qed.

(* non-vacuity: 10.0.0.0/24 label 100 rd 65000:1 path-information 0.0.0.5 (bytes as ExaBGP writes them)
   is well formed, round-trips with trailing bytes, and its index is the repaired one *)
Example C15_example :
  wf false ex_vpn /\ wfx ex_vpn
  /\ pack_ipvpn true ex_vpn = [0;0;0;5;112;0;6;65;0;0;253;232;0;0;0;1;10;0;0]
  /\ unpack_nlri false true 1 128 (pack_ipvpn true ex_vpn ++ [24;10;1;1]) = Some (ex_vpn, [24;10;1;1])
  /\ index_ipvpn ex_vpn = [48;49;56;48; 4;0;0;0;5; 88; 0;0;253;232;0;0;0;1; 10;0;0].
Proof. exact ex_vpn_ok. Qed.

Print Assumptions C15_registry.
Print Assumptions C15_family_index_matches_code.
Print Assumptions C15_inet_roundtrip.
Print Assumptions C15_label_roundtrip.
Print Assumptions C15_make_labels_normal.
Print Assumptions C15_ipvpn_roundtrip.
Print Assumptions C15_roundtrip_any_session.
Print Assumptions C15_canonical_bytes.
Print Assumptions C15_decoded_shape.
Print Assumptions C15_index_injective_inet.
Print Assumptions C15_index_injective_label.
Print Assumptions C15_index_injective_ipvpn.
Print Assumptions C15_route_index_injective.
Print Assumptions C15_eq_implies_index_hash_equal.
Print Assumptions C15_index_injective_refuted.
Print Assumptions C15_eq_hash_refuted.
Print Assumptions C15_opaque_index_injective.
