(* C15 - Every family and attribute survives an encode/decode round trip.
   Statements only; every proof is `exact <lemma>`; assumptions are printed.
   Proved here for ALL values: the prefix NLRI classes (INET, Label, IPVPN incl. ADD-PATH) and the
   (family, bytes) framing of the packed-bytes-first classes.  The inner value syntax of the other
   families and of the attributes is tied by the correspondence harness only (harness/c15.py). *)
From Coq Require Import ZArith Bool List Permutation.
From ExaV Require Import gen.Gen_NlriRegistry model.Model_Nlri model.Model_Attr model.Model_NlriX spec.Spec_Nlri
  proofs.Proofs_Nlri proofs.Proofs_NlriSpec proofs.Proofs_NlriX proofs.Proofs_AttrVal proofs.Proofs_AttrSet.
Import ListNotations.
Open Scope Z_scope.

(* the decoder classes of the eight IP families are the ones the model describes (regenerated table) *)
Theorem C15_registry :
  nlri_class 1 1 = Some KInet /\ nlri_class 1 2 = Some KInet /\ nlri_class 2 1 = Some KInet /\ nlri_class 2 2 = Some KInet
  /\ nlri_class 1 4 = Some KLabel /\ nlri_class 2 4 = Some KLabel
  /\ nlri_class 1 128 = Some KIpvpn /\ nlri_class 2 128 = Some KIpvpn.
Proof. repeat split. Qed.

(* the model of Family.index() gives the bytes the code gives, for every registered family *)
Theorem C15_family_index_matches_code :
  forallb (fun e => match e with (a, s, idx) => list_eqb (fam_index a s) idx end) family_index_table = true
  /\ map (fun e => match e with (a, s, _) => (a, s) end) family_index_table = registered_families.
Proof. exact fam_index_matches_code. Qed.

(* ---- decode (encode n) = n, any trailing bytes untouched; `w` = decoding a withdraw *)

Theorem C15_inet_roundtrip : forall w addpath n rest,
  nlri_class (n_afi n) (n_safi n) = Some KInet -> wf w n -> (n_pid n = None <-> addpath = false) ->
  unpack_nlri w addpath (n_afi n) (n_safi n) (pack_inet addpath n ++ rest) = Some (n, rest).
Proof. exact inet_roundtrip. Qed.

Theorem C15_label_roundtrip : forall w addpath n rest,
  nlri_class (n_afi n) (n_safi n) = Some KLabel -> wf w n -> (n_pid n = None <-> addpath = false) ->
  norm_labels (n_labels n) = n_labels n ->
  unpack_nlri w addpath (n_afi n) (n_safi n) (pack_label addpath n ++ rest) = Some (n, rest).
Proof. exact label_roundtrip. Qed.

(* label stacks built by Labels.make_labels satisfy the normal-form hypothesis above *)
Theorem C15_make_labels_normal : forall vs, norm_labels (make_labels vs) = make_labels vs.
Proof. exact norm_make_labels. Qed.

Theorem C15_ipvpn_roundtrip : forall w addpath n rest,
  nlri_class (n_afi n) (n_safi n) = Some KIpvpn -> wf w n -> (n_pid n = None <-> addpath = false) ->
  unpack_nlri w addpath (n_afi n) (n_safi n) (pack_ipvpn addpath n ++ rest) = Some (n, rest).
Proof. exact ipvpn_roundtrip. Qed.

(* whatever the session: the fields survive, the path-id becomes what the session dictates *)
Theorem C15_roundtrip_any_session : forall w addpath n rest,
  wf w n ->
  unpack_core w addpath (n_afi n) (n_safi n) (pack_nlri addpath n ++ rest)
  = Some (pid_seen addpath (n_pid n), n_labels n, n_rd n, n_mask n, n_pfx n, rest).
Proof. exact roundtrip_any_session. Qed.

(* ---- encode (decode b) = b for every byte string a decoder accepts *)

Theorem C15_canonical_bytes : forall w addpath afi safi data n rest,
  wfb data ->
  unpack_nlri w addpath afi safi data = Some (n, rest) ->
  (nlri_class afi safi = Some KLabel -> forall pid ls rd m pfx r,
     unpack_core w addpath afi safi data = Some (pid, ls, rd, m, pfx, r) -> norm_labels ls = ls) ->
  pack_nlri addpath n ++ rest = data.
Proof. exact canonical_bytes. Qed.

Theorem C15_decoded_shape : forall w addpath afi safi data n rest,
  wfb data -> unpack_nlri w addpath afi safi data = Some (n, rest) ->
  n_afi n = afi /\ n_safi n = safi /\ (n_pid n = None <-> addpath = false)
  /\ match n_pid n with Some b => length b = 4%nat | None => True end
  /\ zlen (n_rd n) = rd_size afi safi /\ 0 <= n_mask n <= ip_length afi * 8 /\ zlen (n_pfx n) = csize (n_mask n).
Proof. exact decoded_shape. Qed.

(* ---- index: routes that differ in family, path identifier, prefix or rd never share an index
        (index with the length-prefixed path-id tag, i.e. the repaired code; labels are
         deliberately not part of a labelled route's index) *)

Theorem C15_index_injective_inet : forall n1 n2,
  wfx n1 -> wfx n2 -> n_labels n1 = [] -> n_rd n1 = [] -> n_labels n2 = [] -> n_rd n2 = [] ->
  index_inet n1 = index_inet n2 -> n1 = n2.
Proof. exact index_inet_injective. Qed.

Theorem C15_index_injective_label : forall n1 n2,
  wfx n1 -> wfx n2 -> index_label n1 = index_label n2 ->
  n_afi n1 = n_afi n2 /\ n_safi n1 = n_safi n2 /\ n_pid n1 = n_pid n2 /\ n_mask n1 = n_mask n2 /\ n_pfx n1 = n_pfx n2.
Proof. exact index_label_injective. Qed.

Theorem C15_index_injective_ipvpn : forall n1 n2,
  wfx n1 -> wfx n2 -> zlen (n_rd n1) = 8 -> zlen (n_rd n2) = 8 -> index_ipvpn n1 = index_ipvpn n2 ->
  n_afi n1 = n_afi n2 /\ n_safi n1 = n_safi n2 /\ n_pid n1 = n_pid n2 /\ n_rd n1 = n_rd n2
  /\ n_mask n1 = n_mask n2 /\ n_pfx n1 = n_pfx n2.
Proof. exact index_ipvpn_injective. Qed.

Theorem C15_route_index_injective : forall k n1 n2,
  0 <= n_afi n1 < 256 -> 0 <= n_safi n1 < 256 -> 0 <= n_afi n2 < 256 -> 0 <= n_safi n2 < 256 ->
  route_index k n1 = route_index k n2 -> index_of k n1 = index_of k n2.
Proof. exact route_index_injective. Qed.

(* a == b (index equality) implies equal hash inputs *)
Theorem C15_eq_implies_index_hash_equal : forall k n1 n2,
  0 <= n_afi n1 < 256 -> 0 <= n_safi n1 < 256 -> 0 <= n_afi n2 < 256 -> 0 <= n_safi n2 < 256 ->
  nlri_eqb k n1 n2 = true -> hash_key k n1 = hash_key k n2.
Proof. exact eq_implies_hash. Qed.

(* ---- the pinned tree (index without the length byte, hash of the stored bytes): both statements
        are false there; witnesses D15 (three classes) and D14 *)

Theorem C15_index_injective_refuted :
  (exists a b, wf false a /\ wf false b /\ nlri_class (n_afi a) (n_safi a) = Some KLabel
     /\ index_label_pinned a = index_label_pinned b /\ n_pid a <> n_pid b /\ n_mask a <> n_mask b /\ n_pfx a <> n_pfx b)
  /\ (exists a b, wf false a /\ wf false b /\ nlri_class (n_afi a) (n_safi a) = Some KInet
     /\ index_inet_pinned a = index_inet_pinned b /\ n_pid a <> n_pid b /\ n_mask a <> n_mask b /\ n_pfx a <> n_pfx b)
  /\ (exists a b, wf false a /\ wf false b /\ nlri_class (n_afi a) (n_safi a) = Some KIpvpn
     /\ index_ipvpn_pinned a = index_ipvpn_pinned b /\ n_pid a <> n_pid b /\ n_rd a <> n_rd b /\ n_mask a <> n_mask b).
Proof. exact index_pinned_not_injective. Qed.

Theorem C15_eq_hash_refuted :
  exists a b, wf false a /\ wf false b /\ nlri_eqb_pinned KLabel a b = true /\ hash_key_pinned a <> hash_key_pinned b.
Proof. exact eq_hash_pinned_refuted. Qed.

(* ---- packed-bytes-first classes: index = Family.index + stored bytes *)

Theorem C15_opaque_index_injective : forall f g b1 b2,
  In f registered_families -> In g registered_families ->
  opaque_index (fst f) (snd f) b1 = opaque_index (fst g) (snd g) b2 -> f = g /\ b1 = b2.
Proof. exact opaque_index_injective. Qed.

(* non-vacuity: 10.0.0.0/24 label 100 rd 65000:1 path-information 0.0.0.5 (bytes as ExaBGP writes them)
   is well formed, round-trips with trailing bytes, and its index is the repaired one *)
Example C15_example :
  wf false ex_vpn /\ wfx ex_vpn
  /\ pack_ipvpn true ex_vpn = [0;0;0;5;112;0;6;65;0;0;253;232;0;0;0;1;10;0;0]
  /\ unpack_nlri false true 1 128 (pack_ipvpn true ex_vpn ++ [24;10;1;1]) = Some (ex_vpn, [24;10;1;1])
  /\ index_ipvpn ex_vpn = [48;49;56;48; 4;0;0;0;5; 88; 0;0;253;232;0;0;0;1; 10;0;0].
Proof. exact ex_vpn_ok. Qed.

(* ---- refinement: the modelled encoders write the RFC 4271 / 7911 / 8277 / 4364 encoding (Spec_Nlri,
        written from the RFCs over integers) of the route the stored bytes stand for *)

Theorem C15_pack_is_rfc : forall w n,
  wf w n -> canon (n_labels n) ->
  wfb (pid_bytes (n_pid n)) -> wfb (n_rd n) -> wfb (n_pfx n) ->
  pack_nlri (sends n) n = rfc_encode (abs n).
Proof. exact pack_is_rfc. Qed.

Theorem C15_canon_make_labels : forall vs, canon (make_labels vs).
Proof. exact canon_make_labels. Qed.

Theorem C15_canon_normal : forall ls, canon ls -> norm_labels ls = ls.
Proof. exact canon_norm. Qed.

(* ---- VPLS (RFC 4761): fields, round trip, the single-NLRI restriction of the decoder, canonical bytes, index *)

Theorem C15_vpls_fields : forall v, wf_vpls v -> vpls_fields (make_vpls v) = v.
Proof. exact vpls_fields_make. Qed.

Theorem C15_vpls_roundtrip : forall v, wf_vpls v -> unpack_vpls (make_vpls v) = Some (make_vpls v, []).
Proof. exact vpls_roundtrip. Qed.

Theorem C15_vpls_no_trailing : forall v rest, wf_vpls v -> rest <> [] -> unpack_vpls (make_vpls v ++ rest) = None.
Proof. exact vpls_no_trailing. Qed.

Theorem C15_vpls_canonical : forall data p rest,
  unpack_vpls data = Some (p, rest) -> rd16 data = 17 -> p = data /\ rest = [].
Proof. exact vpls_canonical. Qed.

Theorem C15_vpls_index_injective : forall v1 v2, wf_vpls v1 -> wf_vpls v2 ->
  vpls_index (make_vpls v1) = vpls_index (make_vpls v2) -> v1 = v2.
Proof. exact vpls_index_injective. Qed.

(* ---- RTC (RFC 4684): a prefix of 0 (wildcard) or 32..96 bits; the NLRI takes the length octet and
        ceil(length / 8) octets; the object keeps the 13-octet zero padded form *)

(* every legal length: decode (encode p ++ rest) = (p, rest) *)
Theorem C15_rtc_roundtrip_any_length : forall p rest,
  wf_rtc p -> unpack_rtc (pack_rtc p ++ rest) = Some (p, rest).
Proof. exact rtc_roundtrip_any_length. Qed.

Theorem C15_rtc_roundtrip : forall origin rt rest,
  0 <= origin < 4294967296 -> wf_rt rt ->
  unpack_rtc (pack_rtc (make_rtc origin (Some rt)) ++ rest) = Some (make_rtc origin (Some rt), rest)
  /\ rtc_origin (make_rtc origin (Some rt)) = origin
  /\ rtc_rt (make_rtc origin (Some rt)) = Some (reset_flags (hd 0 rt) :: tl rt).
Proof. exact rtc_roundtrip. Qed.

Theorem C15_rtc_wildcard_roundtrip : forall origin rest,
  unpack_rtc (pack_rtc (make_rtc origin None) ++ rest) = Some (make_rtc origin None, rest).
Proof. exact rtc_wildcard_roundtrip. Qed.

(* whatever the decoder accepts has a legal length, consumed exactly rtc_size(length) octets, is stored well
   formed, and re-encodes to the consumed octets when the two flag bits of the route target type octet (present
   when the prefix is longer than 32 bits) were clear; the bits beyond the prefix inside its last octet are kept *)
Theorem C15_rtc_canonical : forall data p rest,
  wfb data -> unpack_rtc data = Some (p, rest) ->
  rtc_len_ok (nth 0 data 0)
  /\ (exists consumed, data = consumed ++ rest /\ zlen consumed = rtc_size (nth 0 data 0)
        /\ ((32 < nth 0 data 0 -> nth 5 data 0 < 64) -> pack_rtc p = consumed))
  /\ (nth 0 data 0 <> 0 -> wf_rtc p).
Proof. exact rtc_canonical. Qed.

Theorem C15_rtc_index_injective : forall o1 o2 rt1 rt2,
  0 <= o1 < 4294967296 -> 0 <= o2 < 4294967296 -> wf_rt rt1 -> wf_rt rt2 ->
  rtc_index (make_rtc o1 (Some rt1)) = rtc_index (make_rtc o2 (Some rt2)) ->
  o1 = o2 /\ reset_flags (hd 0 rt1) = reset_flags (hd 0 rt2) /\ tl rt1 = tl rt2.
Proof. exact make_rtc_injective. Qed.

(* ---- EVPN (RFC 7432 7): the (route type, length, payload) framing *)

Theorem C15_evpn_frame_roundtrip : forall code payload rest,
  zlen payload < 256 ->
  unpack_evpn_frame (pack_evpn code payload ++ rest) = Some (pack_evpn code payload, rest).
Proof. exact evpn_frame_roundtrip. Qed.

Theorem C15_evpn_frame_canonical : forall data p rest,
  wfb data -> unpack_evpn_frame data = Some (p, rest) ->
  p ++ rest = data /\ zlen p = 2 + nth 1 data 0 /\ p = pack_evpn (nth 0 data 0) (skipn 2 p).
Proof. exact evpn_frame_canonical. Qed.

(* ---- attributes: header (flag, code, one / two octet length) and the fixed-layout values, decoded
        back from what Model_Attr (the C01 model of pack_attribute) writes *)

Theorem C15_attr_header_roundtrip : forall flag code value rest,
  0 <= flag -> zlen value < 65536 ->
  dec_tlv (tlv_raw flag code value ++ rest) = Some (flag_sent flag value, code, value, rest).
Proof. exact tlv_roundtrip. Qed.

Theorem C15_attr_header_canonical : forall d flag code value rest,
  wfb d -> dec_tlv d = Some (flag, code, value, rest) ->
  (has_bit flag 16 = true -> 255 < zlen value) ->
  tlv_raw flag code value ++ rest = d.
Proof. exact tlv_canonical. Qed.

Theorem C15_attr_nums_canonical : forall w fuel d l,
  (0 < w)%nat -> wfb d -> dec_nums fuel w d = Some l -> flat_map (be w) l = d /\ Forall (in_range w) l.
Proof. exact dec_nums_canonical. Qed.

Theorem C15_attr_roundtrip : forall flag code w l rest,
  0 <= flag -> (0 < w)%nat -> l <> [] -> Forall (in_range w) l -> Z.of_nat (w * length l) < 65536 ->
  let value := flat_map (be w) l in
  dec_tlv (attr_tlv flag code value ++ rest) = Some (flag_sent flag value, code, value, rest)
  /\ dec_nums (length value) w value = Some l.
Proof. exact nums_attr_roundtrip. Qed.

Theorem C15_attr_roundtrip_community : forall s vs rest,
  vs <> [] -> Forall (in_range 4) vs -> Z.of_nat (4 * length (csort vs)) < 65536 -> csort vs <> [] ->
  exists value, dec_tlv (pack_item s (ICommunity vs) ++ rest) = Some (flag_sent 192 value, 8, value, rest)
                /\ dec_community value = Some (csort vs).
Proof. exact community_roundtrip. Qed.

Theorem C15_attr_roundtrip_cluster_list : forall s ids rest,
  ids <> [] -> Forall (in_range 4) ids -> Z.of_nat (4 * length ids) < 65536 ->
  exists value, dec_tlv (pack_item s (ICluster ids) ++ rest) = Some (flag_sent 128 value, 10, value, rest)
                /\ dec_cluster value = Some ids.
Proof. exact cluster_roundtrip. Qed.

Theorem C15_attr_roundtrip_extended : forall s vs rest,
  Forall (in_range 8) vs -> Z.of_nat (8 * length (csort vs)) < 65536 -> csort vs <> [] ->
  exists value, dec_tlv (pack_item s (IExtended vs) ++ rest) = Some (flag_sent 192 value, 16, value, rest)
                /\ dec_extended value = Some (csort vs).
Proof. exact extended_roundtrip. Qed.

Theorem C15_attr_roundtrip_large : forall s vs rest,
  Forall (in_range 12) vs -> Z.of_nat (12 * length (csort_nodup vs)) < 65536 -> csort_nodup vs <> [] ->
  exists value, dec_tlv (pack_item s (ILarge vs) ++ rest) = Some (flag_sent 192 value, 32, value, rest)
                /\ dec_large value = Some (csort_nodup vs).
Proof. exact large_roundtrip. Qed.

Theorem C15_attr_roundtrip_originator : forall s ip rest,
  length ip = 4%nat ->
  dec_tlv (pack_item s (IOriginator ip) ++ rest) = Some (128, 9, ip, rest) /\ dec_originator ip = Some ip.
Proof. exact originator_roundtrip. Qed.

Theorem C15_attr_roundtrip_aggregator : forall asn ip rest,
  length ip = 4%nat -> 0 <= asn < 4294967296 ->
  (dec_tlv (pack_aggregator true asn ip ++ rest) = Some (192, 7, be32 asn ++ ip, rest)
   /\ dec_aggregator true (be32 asn ++ ip) = Some (asn, ip))
  /\ (asn <= 65535 ->
      dec_tlv (pack_aggregator false asn ip ++ rest) = Some (192, 7, be16 asn ++ ip, rest)
      /\ dec_aggregator false (be16 asn ++ ip) = Some (asn, ip))
  /\ (65535 < asn ->
      dec_tlv (pack_aggregator false asn ip ++ rest)
        = Some (192, 7, be16 AS_TRANS ++ ip, attr_tlv 192 18 (be32 asn ++ ip) ++ rest)
      /\ dec_tlv (attr_tlv 192 18 (be32 asn ++ ip) ++ rest) = Some (192, 18, be32 asn ++ ip, rest)
      /\ dec_aggregator false (be16 AS_TRANS ++ ip) = Some (AS_TRANS, ip)
      /\ dec_aggregator true (be32 asn ++ ip) = Some (asn, ip)).
Proof. exact aggregator_roundtrip. Qed.

(* non-vacuity of the new statements: a VPLS route and a community list of 64 entries (256 octets) *)
Example C15_example_vpls :
  wf_vpls (mkV [0;0;253;232;0;0;0;1] 5 1 8 10702)
  /\ make_vpls (mkV [0;0;253;232;0;0;0;1] 5 1 8 10702) = [0;17;0;0;253;232;0;0;0;1;0;5;0;1;0;8;2;156;225].
Proof. exact ex_vpls_ok. Qed.

(* ---- set-like attributes: equality ignores the order (sameValuesAs sorts both sides), and everything that
        is packed / rendered / indexed / hashed is computed from the sorted list, so it is a function of the
        multiset of values and never of the order they were written or received in *)

Theorem C15_set_rendering_of_multiset : forall l1 l2, Permutation l1 l2 -> csort l1 = csort l2.
Proof. exact csort_of_multiset. Qed.

Theorem C15_set_sort_idempotent : forall l, csort (csort l) = csort l.
Proof. exact csort_idempotent. Qed.

Theorem C15_set_eq_iff_permutation : forall a b, set_eqb a b = true <-> Permutation a b.
Proof. exact set_eq_iff_permutation. Qed.

Theorem C15_set_eq_same_encoding : forall s a b,
  set_eqb a b = true ->
  pack_item s (ICommunity a) = pack_item s (ICommunity b) /\ pack_item s (IExtended a) = pack_item s (IExtended b).
Proof. exact set_eq_same_encoding. Qed.

Print Assumptions C15_registry.
Print Assumptions C15_family_index_matches_code.
Print Assumptions C15_inet_roundtrip.
Print Assumptions C15_label_roundtrip.
Print Assumptions C15_make_labels_normal.
Print Assumptions C15_ipvpn_roundtrip.
Print Assumptions C15_roundtrip_any_session.
Print Assumptions C15_canonical_bytes.
Print Assumptions C15_decoded_shape.
Print Assumptions C15_index_injective_inet.
Print Assumptions C15_index_injective_label.
Print Assumptions C15_index_injective_ipvpn.
Print Assumptions C15_route_index_injective.
Print Assumptions C15_eq_implies_index_hash_equal.
Print Assumptions C15_index_injective_refuted.
Print Assumptions C15_eq_hash_refuted.
Print Assumptions C15_opaque_index_injective.
Print Assumptions C15_pack_is_rfc.
Print Assumptions C15_canon_make_labels.
Print Assumptions C15_canon_normal.
Print Assumptions C15_vpls_fields.
Print Assumptions C15_vpls_roundtrip.
Print Assumptions C15_vpls_no_trailing.
Print Assumptions C15_vpls_canonical.
Print Assumptions C15_vpls_index_injective.
Print Assumptions C15_rtc_roundtrip.
Print Assumptions C15_rtc_roundtrip_any_length.
Print Assumptions C15_rtc_wildcard_roundtrip.
Print Assumptions C15_rtc_canonical.
Print Assumptions C15_rtc_index_injective.
Print Assumptions C15_evpn_frame_roundtrip.
Print Assumptions C15_evpn_frame_canonical.
Print Assumptions C15_attr_header_roundtrip.
Print Assumptions C15_attr_header_canonical.
Print Assumptions C15_attr_nums_canonical.
Print Assumptions C15_attr_roundtrip.
Print Assumptions C15_attr_roundtrip_community.
Print Assumptions C15_attr_roundtrip_cluster_list.
Print Assumptions C15_attr_roundtrip_extended.
Print Assumptions C15_attr_roundtrip_large.
Print Assumptions C15_attr_roundtrip_originator.
Print Assumptions C15_attr_roundtrip_aggregator.
Print Assumptions C15_set_rendering_of_multiset.
Print Assumptions C15_set_sort_idempotent.
Print Assumptions C15_set_eq_iff_permutation.
Print Assumptions C15_set_eq_same_encoding.
