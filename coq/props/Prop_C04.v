From Coq Require Import ZArith Bool List.
From ExaV Require Import lib.Amap model.Model_Rib.
Import ListNotations.
Theorem C04_placeholder : drained (r (sys0 true)).
Proof. repeat split. Qed.
Print Assumptions C04_placeholder.
