(* C04 - Adj-RIB-Out converges: the peer ends up with exactly the intended routes. Statements only.
   Model: Model_Rib (OutgoingRIB + Cache as insertion-ordered dictionaries, the live update generator,
   the peer's table, the operator's intention).  Every finite operation history, every interleaving of
   operations with partial consumption of the generator (Start/Emit anywhere), cache kept. *)
From Coq Require Import ZArith Bool List.
From ExaV Require Import lib.Amap model.Model_Rib proofs.Proofs_Rib.
Import ListNotations.
Open Scope Z_scope.

(* invariant of every reachable state (established: what is in flight + queued, applied to the peer's
   table, gives the reported table; the reported table is the operator's intention) *)
Theorem C04_invariant : forall ops, Inv (run ops (sys0 true)).
Proof. intros. apply run_inv, Inv0. Qed.

(* once the queue has drained: peer table = Adj-RIB-Out as reported = what the operator asked for *)
Theorem C04_converges : forall ops,
  let s := run ops (sys0 true) in
  up s = true -> drained (r s) ->
  forall k, aget Z.eqb k (peer s) = option_map rval (aget Z.eqb k (seen (r s)))
         /\ aget Z.eqb k (intended s) = option_map rval (aget Z.eqb k (seen (r s))).
Proof. exact converges. Qed.

(* no stale announcement survives a later announce of the same prefix *)
Theorem C04_last_announce_wins : forall ops1 x (f : bool) ops2,
  let s := run (ops1 ++ (if f then AnnForce x else Ann x) :: ops2) (sys0 true) in
  forallb (fun o => negb (touches (ridx x) o)) ops2 = true ->
  up s = true -> drained (r s) -> aget Z.eqb (ridx x) (peer s) = Some (rval x).
Proof. exact last_operation_wins_announce. Qed.

(* no withdrawn route is resurrected *)
Theorem C04_withdrawn_stays_withdrawn : forall ops1 x ops2,
  let s := run (ops1 ++ Wd x :: ops2) (sys0 true) in
  forallb (fun o => negb (touches (ridx x) o)) ops2 = true ->
  up s = true -> drained (r s) -> aget Z.eqb (ridx x) (peer s) = None.
Proof. exact last_operation_wins_withdraw. Qed.

(* the same with watchdog operations (add_to_rib_watchdog, announce_watchdog, withdraw_watchdog) anywhere:
   they expand to base operations chosen by the watchdog table *)
Theorem C04_converges_with_watchdogs : forall wops,
  let s := wrun wops in
  up s = true -> drained (r s) ->
  forall k, aget Z.eqb k (peer s) = option_map rval (aget Z.eqb k (seen (r s)))
         /\ aget Z.eqb k (intended s) = option_map rval (aget Z.eqb k (seen (r s))).
Proof. intros wops. exact (converges (expand_all [] wops)). Qed.

(* non-vacuity: the history that used to diverge (announce x, y, x before one flush), then drained *)
Example C04_example :
  let x := {| ridx := 1; rfam := 0; rattr := 10; rnh := 5 |} in
  let y := {| ridx := 1; rfam := 0; rattr := 11; rnh := 5 |} in
  let s := run [Ann x; Ann y; Ann x; Start; Emit; Emit; Emit] (sys0 true) in
  up s = true /\ drained (r s) /\ peer s = [(1, (10, 5))] /\ gen (r s) = [].
Proof. vm_compute. repeat split. Qed.

Print Assumptions C04_invariant.
Print Assumptions C04_converges.
Print Assumptions C04_last_announce_wins.
Print Assumptions C04_withdrawn_stays_withdrawn.
Print Assumptions C04_converges_with_watchdogs.
