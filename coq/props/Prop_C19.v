(* C19 - Decoding does not depend on what was decoded before.  Statements only.

   Model: Model_Cache.  The process-wide state is {heap of AttributeCollection objects; the last-attributes
   shortcut (key, previous bytes, cached object); the ID written on capability classes}.  Events: an UPDATE
   arriving on a session with parameters p, an OPEN, any other message, and "later processing" of an object
   kept from an earlier message (its rendering).  `run hist` is the state a process is in after the history
   `hist` (any number of sessions, any interleaving); `fresh ev` is the decoder written without any state.
   The history-free decoders (dec_attrs, nlri_part, render, ...) are universally quantified: NOTHING is
   assumed about them, except where a theorem names its hypothesis.

   step_pinned : the code of the pinned tree, shortcut keyed by the raw attribute bytes only.
   step_fixed  : shortcut keyed by (negotiated.asn4, negotiated.aigp, raw bytes)  - the proposed repair.
   step_full   : shortcut keyed by (all negotiated parameters, raw bytes). *)
From Coq Require Import ZArith Bool List.
From ExaV Require Import model.Model_Cache proofs.Proofs_Cache.
Import ListNotations.
Open Scope Z_scope.

Section C19.
  Variables V E S N F : Type.
  Variable dec_attrs : params -> bytes -> E + list (Z * V).
  Variable render : list (Z * V) -> S.
  Variable attr_block : bytes -> option bytes.
  Variable nlri_part : params -> bytes -> list (Z * V) -> N.
  Variable is_empty_update : N -> bool.
  Variable dec_other : Z -> bytes -> S.
  Variable open_fixed : bytes -> option F.
  Variable open_caps : bytes -> list (Z * bytes).
  Variable cap_class : Z -> option Z.
  Variable class_default : Z -> Z.
  Variable render_cap : option Z -> Z -> bytes -> S.

  Notation step_pinned_ := (step_pinned V E S N F dec_attrs render attr_block nlri_part is_empty_update dec_other
                                        open_fixed open_caps cap_class class_default render_cap).
  Notation run_pinned_ := (run_pinned V E S N F dec_attrs render attr_block nlri_part is_empty_update dec_other
                                      open_fixed open_caps cap_class class_default render_cap).
  Notation step_fixed_ := (step_fixed V E S N F dec_attrs render attr_block nlri_part is_empty_update dec_other
                                      open_fixed open_caps cap_class class_default render_cap).
  Notation run_fixed_ := (run_fixed V E S N F dec_attrs render attr_block nlri_part is_empty_update dec_other
                                    open_fixed open_caps cap_class class_default render_cap).
  Notation step_full_ := (step_full V E S N F dec_attrs render attr_block nlri_part is_empty_update dec_other
                                    open_fixed open_caps cap_class class_default render_cap).
  Notation run_full_ := (run_full V E S N F dec_attrs render attr_block nlri_part is_empty_update dec_other
                                  open_fixed open_caps cap_class class_default render_cap).
  Notation fresh_ := (fresh V E S N F dec_attrs render attr_block nlri_part is_empty_update dec_other
                            open_fixed open_caps cap_class class_default render_cap).
  Notation obs_ := (obs V E S N F).

  (* a process that has decoded nothing computes the stateless decoder *)
  Theorem C19_fresh_is_stateless : forall ev,
    is_render ev = false -> obs_ (snd (step_pinned_ (init V S unit) ev)) = fresh_ ev.
  Proof. exact (pinned_fresh V E S N F dec_attrs render attr_block nlri_part is_empty_update dec_other
                             open_fixed open_caps cap_class class_default render_cap). Qed.

  (* PINNED CODE, the exact extra hypothesis: no cacheable attribute block (no MP attribute, not
     treat-as-withdraw) decodes differently under two sessions.  Then every message of every history, over
     any number of sessions, yields what a fresh process yields (routes, attributes, JSON) *)
  Theorem C19_history_independent_partial :
    (forall p1 p2 a c, dec_attrs p1 a = inr c -> nomp V c = true -> has V TAW c = false -> dec_attrs p2 a = inr c) ->
    forall hist ev, is_render ev = false -> obs_ (snd (step_pinned_ (run_pinned_ hist) ev)) = fresh_ ev.
  Proof. exact (pinned_partial V E S N F dec_attrs render attr_block nlri_part is_empty_update dec_other
                               open_fixed open_caps cap_class class_default render_cap). Qed.

  (* PINNED CODE, no hypothesis on the decoders: histories whose UPDATEs all arrive with the same negotiated
     parameters (one session, or sessions negotiated alike) *)
  Theorem C19_history_independent_one_session : forall q hist,
    (forall ev p b, In ev hist -> ev = EUpdate p b -> p = q) ->
    forall ev, (forall p b, ev = EUpdate p b -> p = q) -> is_render ev = false ->
    obs_ (snd (step_pinned_ (run_pinned_ hist) ev)) = fresh_ ev.
  Proof. exact (pinned_one_session V E S N F dec_attrs render attr_block nlri_part is_empty_update dec_other
                                   open_fixed open_caps cap_class class_default render_cap). Qed.

  (* PINNED CODE, no hypothesis: an AttributeCollection handed out earlier (possibly the shared cached one) keeps
     its content and its rendering whatever is decoded or rendered afterwards *)
  Theorem C19_shared_not_mutated : forall hist more id,
    (id < length (heap V S unit (run_pinned_ hist)))%nat ->
    view V S unit render (run_pinned_ (hist ++ more)) id = view V S unit render (run_pinned_ hist) id.
  Proof. exact (pinned_shared_not_mutated V E S N F dec_attrs render attr_block nlri_part is_empty_update dec_other
                                          open_fixed open_caps cap_class class_default render_cap). Qed.

  (* REPAIR, key = (asn4, aigp, bytes): sufficient when the cacheable blocks read the session through asn4 and
     aigp only (what aspath.py / aggregator.py / aigp.py do; checked differentially by harness/c19.py) *)
  Theorem C19_repaired_asn4_aigp :
    (forall p1 p2 a c, p_asn4 p1 = p_asn4 p2 -> p_aigp p1 = p_aigp p2 ->
                       dec_attrs p1 a = inr c -> nomp V c = true -> has V TAW c = false -> dec_attrs p2 a = inr c) ->
    forall hist ev, is_render ev = false -> obs_ (snd (step_fixed_ (run_fixed_ hist) ev)) = fresh_ ev.
  Proof. exact (fixed_partial V E S N F dec_attrs render attr_block nlri_part is_empty_update dec_other
                              open_fixed open_caps cap_class class_default render_cap). Qed.

  (* REPAIR, key = (every negotiated parameter, bytes): the full statement, for EVERY decoder *)
  Theorem C19_repaired : forall hist ev,
    is_render ev = false -> obs_ (snd (step_full_ (run_full_ hist) ev)) = fresh_ ev.
  Proof. exact (full_key_history_independent V E S N F dec_attrs render attr_block nlri_part is_empty_update dec_other
                                             open_fixed open_caps cap_class class_default render_cap). Qed.

  Theorem C19_repaired_shared_not_mutated : forall hist more id,
    (id < length (heap V S params (run_full_ hist)))%nat ->
    view V S params render (run_full_ (hist ++ more)) id = view V S params render (run_full_ hist) id.
  Proof. exact (full_key_shared_not_mutated V E S N F dec_attrs render attr_block nlri_part is_empty_update dec_other
                                            open_fixed open_caps cap_class class_default render_cap). Qed.
End C19.

(* The full statement is FALSE of the pinned code: AS_PATH block 40 02 06 02 01 00 01 00 02 decoded on a 4-byte
   session, then the same bytes on a 2-byte session (fresh: treat-as-withdraw; in sequence: AS_PATH ( 65538 )) *)
Theorem C19_history_independent_refuted :
  exists hist p b,
    obs Z unit (list (Z * Z)) unit unit (snd (demo_step (demo_run hist) (EUpdate p b))) <> demo_fresh (EUpdate p b).
Proof. exact pinned_refuted. Qed.

(* "shared objects are never altered" is FALSE for capability objects: Capability.klass writes the code on the
   class; OPEN [cap 0x80] then OPEN [cap 0x02]: the first OPEN's RouteRefresh renders differently afterwards *)
Theorem C19_open_objects_refuted :
  exists b1 b2,
    let caps1 := map (fun c => (c, @nil Z)) b1 in
    demo_view_open (demo_run [EOpen b1; EOpen b2]) caps1 <> demo_view_open (demo_run [EOpen b1]) caps1.
Proof. exact open_objects_refuted. Qed.

(* Attribute.unpack's per-attribute cache is never consulted: every call site calls the classmethod on the base
   class, whose CACHING is False *)
Theorem C19_attr_cache_dead : forall A (dec_attr : params -> Z -> Z -> bytes -> A) caching cls_id drop c p code flag data,
  attr_unpack A dec_attr caching false cls_id drop c p code flag data = (c, dec_attr p code flag data).
Proof. exact attr_cache_dead. Qed.

(* non-vacuity: the hypothesis of the partial theorem is satisfiable by a decoder that does read the bytes, the
   witness history answers as a fresh process under the repaired key, and histories do reach shared objects *)
Example C19_example :
  (forall p1 p2 a c, (fun (_ : params) (a : bytes) => @inr unit _ (map (fun b => (b, b)) a)) p1 a = inr c ->
                     nomp Z c = true -> has Z TAW c = false ->
                     (fun (_ : params) (a : bytes) => @inr unit _ (map (fun b => (b, b)) a)) p2 a = inr c)
  /\ length (heap Z (list (Z * Z)) unit (demo_run [EUpdate P4 W_block; EUpdate P2 W_block; ERender 0%nat])) = 1%nat
  /\ demo_fresh (EUpdate P2 W_block) = OUpd Z unit (list (Z * Z)) unit unit tt [(TAW, 2)] [(TAW, 2)] 0.
Proof. split; [intros p1 p2 a c H _ _; exact H | vm_compute; split; reflexivity]. Qed.

Print Assumptions C19_fresh_is_stateless.
Print Assumptions C19_history_independent_partial.
Print Assumptions C19_history_independent_one_session.
Print Assumptions C19_shared_not_mutated.
Print Assumptions C19_repaired_asn4_aigp.
Print Assumptions C19_repaired.
Print Assumptions C19_repaired_shared_not_mutated.
Print Assumptions C19_history_independent_refuted.
Print Assumptions C19_open_objects_refuted.
Print Assumptions C19_attr_cache_dead.
