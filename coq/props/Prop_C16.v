From Coq Require Import ZArith Bool List.
From ExaV Require Import gen.Gen_Flow spec.Spec_Flow model.Model_Flow proofs.Proofs_Flow.
Import ListNotations.
Open Scope Z_scope.

Theorem C16_actions : forall a, enc_action a = ref_action a.
Proof. exact enc_action_ref. Qed.
Print Assumptions C16_actions.
