(* C12 - Hold and keepalive timers keep their RFC promises.  Statements only.

   What the theorems talk about: [check_ka], [need_ka], [holdtime_keepalive] ... are the bodies of
   bgp/timer.py and open/holdtime.py as regenerated from the source on this run (Gen_Timer);
   [main_iter]/[run_main]/[exec] are the hand model of the consultation order of Peer._main
   (shape-checked by the translator, run against the real objects by harness/c12.py).
   A schedule is ANY list of iterations (dt, inbound, dk); times are readings of the integer
   clock int(time.time()); [C12_int_clock] relates them to a clock of any finer unit.

   PROVED: every statement below, for every hold time of the domain and every schedule.
   NOT PROVED, only measured by the harness / left to the peer-level harness of C05/C10: that the
   asyncio loop really comes back to the timers every delta seconds (event-loop latency, blocking
   writes of a long outbound batch), i.e. the hypothesis [paced delta ..] itself. *)
From Coq Require Import ZArith Bool List.
From ExaV Require Import gen.Gen_Timer spec.Spec_Timer model.Model_Timer proofs.Proofs_Timer.
Import ListNotations.
Open Scope Z_scope.

(* HoldTime.keepalive() is H div 3; on the domain it is at least one second and 3K <= H *)
Theorem C12_keepalive_is_third : forall H,
  holdtime_keepalive H = H / 3 /\ (3 <= H -> 1 <= holdtime_keepalive H /\ 3 * holdtime_keepalive H <= H).
Proof.
  intros H. split; [exact (keepalive_is_div3 H)|]. intros HH.
  split; [exact (keepalive_pos H HH)|apply keepalive_third; apply Z.le_trans with 3; [discriminate|exact HH]].
Qed.

(* the state in which Peer._main starts satisfies the hypotheses used below; the hold timer is
   created with (4, 0) and the KEEPALIVE read in OPENCONFIRM cannot make it fire *)
Theorem C12_session_start : forall H t_rt t_ka t_main,
  0 <= H ->
  let s := session_init H t_rt t_ka t_main in
  r_holdtime (rt s) = H /\ r_code (rt s) = 4 /\ r_subcode (rt s) = 0 /\ r_single (rt s) = false /\
  s_keepalive (stt s) = H / 3 /\ s_last_sent (stt s) = t_main /\ clock s = t_main /\
  (H <> 0 -> r_last_read (rt s) = t_ka) /\
  (forall c sb, snd (check_ka_timer (rtimer_init H established_code established_subcode t_rt) t_ka
                       KeepAlive_TYPE MESSAGE_SCHEDULING) <> Raise c sb).
Proof. exact session_init_fields. Qed.

(* H > 0.  At the first iteration at which the integer clock shows more than H seconds since the
   last message, the loop ends with the timer's NOTIFICATION (4/0 by C12_session_start); nothing
   is observed after it. *)
Theorem C12_hold_fires : forall H s pre x post s',
  3 <= H <= 65535 -> r_holdtime (rt s) = H -> exec s pre = Some s' ->
  silence (r_last_read (rt s)) (clock s) pre x > H ->
  run_main s (pre ++ x :: post) =
  run_main s pre ++ [Notified (t_after (clock s) pre + dt x) (r_code (rt s)) (r_subcode (rt s))].
Proof. intros H s pre x post s' HH. apply hold_fires. apply Z.lt_le_trans with 3; [reflexivity|apply HH]. Qed.

(* H > 0.  Whatever the schedule, every NOTIFICATION the loop produces is the hold timer's and
   sits at an iteration whose silence exceeds H: no close of any kind while the silence is <= H *)
Theorem C12_hold_not_early : forall sched H s t c sb,
  3 <= H <= 65535 -> r_holdtime (rt s) = H ->
  In (Notified t c sb) (run_main s sched) ->
  exists pre x post, sched = pre ++ x :: post /\
    silence (r_last_read (rt s)) (clock s) pre x > H /\
    t = t_after (clock s) pre + dt x /\ c = r_code (rt s) /\ sb = r_subcode (rt s).
Proof. intros sched H s t c sb HH. apply hold_not_early. apply Z.lt_le_trans with 3; [reflexivity|apply HH]. Qed.

Theorem C12_hold_goes_on : forall H s pre x s',
  3 <= H <= 65535 -> r_holdtime (rt s) = H -> exec s pre = Some s' ->
  silence (r_last_read (rt s)) (clock s) pre x <= H ->
  exists s'', exec s (pre ++ [x]) = Some s''.
Proof. intros H s pre x s' HH. apply hold_goes_on. apply Z.lt_le_trans with 3; [reflexivity|apply HH]. Qed.

(* H > 0, loop gap delta.  On a silent schedule whose consultations are at most delta apart the
   session cannot stay open beyond H + delta after the last message, and when the loop ends it
   ends with the timer's NOTIFICATION at a reading t with H < t - last <= H + delta *)
Theorem C12_hold_fires_within : forall rest H delta s prev,
  3 <= H <= 65535 -> r_holdtime (rt s) = H -> 0 <= prev <= delta ->
  clock s - prev - r_last_read (rt s) <= H ->
  Forall silent rest -> Forall wf_step rest -> paced delta prev rest ->
  match exec s rest with
  | Some s' => clock s' - r_last_read (rt s) <= H + delta /\ r_last_read (rt s') = r_last_read (rt s)
  | None => exists o t, run_main s rest = o ++ [Notified t (r_code (rt s)) (r_subcode (rt s))] /\
                        H < t - r_last_read (rt s) <= H + delta /\
                        (forall u c sb, ~ In (Notified u c sb) o)
  end.
Proof. intros rest H delta s prev HH. apply hold_fires_within. apply Z.lt_le_trans with 3; [reflexivity|apply HH]. Qed.

(* H > 0.  need_ka() is true exactly when H div 3 seconds have passed on the integer clock ... *)
Theorem C12_need_ka_exact : forall t now,
  s_keepalive t <> 0 -> (snd (need_ka t now) = true <-> now - s_last_sent t >= s_keepalive t).
Proof. exact need_ka_exact. Qed.

(* ... hence, with loop gap delta: two consecutive KEEPALIVEs (the first counted from the creation
   of the send timer) are at least H/3 and at most H/3 - 1 + delta apart on the integer clock
   (so strictly less than H/3 + delta seconds of real time, C12_int_clock), and while the loop
   runs the last one is always less than H/3 old after the send timer was consulted *)
Theorem C12_keepalive_interval : forall H delta prev s sched,
  3 <= H <= 65535 -> r_holdtime (rt s) = H -> s_keepalive (stt s) = holdtime_keepalive H ->
  0 <= clock s - s_last_sent (stt s) < H / 3 ->
  Forall wf_step sched -> paced delta prev sched ->
  chain (fun a b => H / 3 <= b - a <= H / 3 - 1 + delta) (s_last_sent (stt s)) (ka_times (run_main s sched)) /\
  (forall s', exec s sched = Some s' -> 0 <= clock s' - s_last_sent (stt s') < H / 3).
Proof. exact keepalive_interval_dom. Qed.

(* H = 0: no KEEPALIVE is ever sent by the timer, the hold timer never fires (no 4/0, in fact no
   NOTIFICATION other than 2/6), the loop runs for ever unless the peer sends a second KEEPALIVE,
   and that one is answered 2/6, as coded *)
Theorem C12_zero : forall s sched,
  r_holdtime (rt s) = 0 -> s_keepalive (stt s) = 0 -> r_single (rt s) = false ->
  Forall (fun o => (exists t, o = Quiet t) \/ (exists t, o = Notified t 2 6)) (run_main s sched) /\
  ((exists s', exec s sched = Some s') <-> (count_ka sched <= 1)%nat) /\
  (forall pre x post, sched = pre ++ x :: post -> count_ka pre = 1%nat -> is_ka (inb x) = true ->
     run_main s sched = run_main s pre ++ [Notified (t_after (clock s) pre + dt x) 2 6]).
Proof. exact zero_all. Qed.

Theorem C12_zero_need_ka_never : forall t now, s_keepalive t = 0 -> need_ka t now = (t, false).
Proof. exact need_ka_zero. Qed.

(* open wait (Peer._read_open = asyncio.wait_for(read_open, openwait)): for every wait and every
   arrival schedule the attempt ends as the specification says - 5/1 at the wait when no OPEN came
   before it, never a timeout before the wait, 5/1 for a first message that is not an OPEN *)
Theorem C12_openwait : forall l wait,
  0 < wait -> Forall (fun p => 0 <= fst p) l -> read_open_wait wait 0 l = open_expected wait l.
Proof. exact open_wait. Qed.

(* a ReceiveTimer raises the (code, subcode) it was built with, whatever they are (5/1 for an
   open-wait timer), exactly when the elapsed reading exceeds its hold time *)
Theorem C12_timer_generic : forall h lp lr cd sb sg now ty sc,
  h <> 0 ->
  check_ka (Build_rtimer h lp lr cd sb sg) now ty sc =
  let lr' := if sc =? 0 then now else lr in
  if now - lr' >? h
  then (Build_rtimer h lp lr' cd sb sg, Raise cd sb)
  else (Build_rtimer h (if lp =? now then lp else now) lr' cd sb sg, Ret tt).
Proof. exact check_ka_pos. Qed.

(* integer clock against a clock with u ticks per second (tau / u = int(time.time())):
   a difference of readings above H means more than H real seconds (never early);
   H + 1 real seconds always show as a difference above H (at most one second late);
   a difference of readings at most B means less than B + 1 real seconds *)
Theorem C12_int_clock : forall u tau0 tau H,
  0 < u ->
  (tau / u - tau0 / u > H -> tau - tau0 > H * u) /\
  (tau - tau0 >= (H + 1) * u -> tau / u - tau0 / u > H) /\
  (tau / u - tau0 / u <= H -> tau - tau0 < (H + 1) * u).
Proof.
  intros u tau0 tau H Hu.
  split; [exact (int_clock_not_early u tau0 tau H Hu)|].
  split; [exact (int_clock_fires u tau0 tau H Hu)|exact (int_clock_gap u tau0 tau H Hu)].
Qed.

(* non-vacuity: hold time 9 (keepalive every 3 s), one iteration per second; the peer speaks at
   seconds 2 and 4 and then falls silent: KEEPALIVEs at 3, 6, 9, 12 and NOTIFICATION 4/0 at
   second 14, the first reading more than 9 after second 4 *)
Example C12_example :
  let q := {| dt := 1; inb := InNone; dk := 0 |} in
  let k := {| dt := 1; inb := InMsg 4; dk := 0 |} in
  let u := {| dt := 1; inb := InMsg 2; dk := 0 |} in
  run_main (session_init 9 0 0 0) [q; k; q; u; q; q; q; q; q; q; q; q; q; q; q; q]
  = [Quiet 1; Quiet 2; KaSent 3; Quiet 4; Quiet 5; KaSent 6; Quiet 7; Quiet 8; KaSent 9; Quiet 10;
     Quiet 11; KaSent 12; Quiet 13; Notified 14 4 0]
  /\ run_main (session_init 0 0 0 0) [q; k; q; u; k; q] = [Quiet 1; Quiet 2; Quiet 3; Quiet 4; Notified 5 2 6]
  /\ read_open_wait 60 0 [(10, OpNothing); (49, OpNothing); (1, OpOpen)] = OpenNotify 60 5 1
  /\ read_open_wait 60 0 [(10, OpNothing); (49, OpOpen)] = OpenGot 59.
Proof. vm_compute. repeat split. Qed.

Print Assumptions C12_keepalive_is_third.
Print Assumptions C12_session_start.
Print Assumptions C12_hold_fires.
Print Assumptions C12_hold_not_early.
Print Assumptions C12_hold_goes_on.
Print Assumptions C12_hold_fires_within.
Print Assumptions C12_need_ka_exact.
Print Assumptions C12_keepalive_interval.
Print Assumptions C12_zero.
Print Assumptions C12_zero_need_ka_never.
Print Assumptions C12_openwait.
Print Assumptions C12_timer_generic.
Print Assumptions C12_int_clock.
