(* C05 - the session state machine only takes RFC 4271 transitions.  Statements only.

   Model: Model_Session.session_step, a finite control model of reactor/peer/peer.py + reactor/protocol.py
   (tied to the source by translate/t2_fsm.py and by the H-peer correspondence, harness/c05.py).
   Specification: Spec_Fsm (rfc_allowed written from RFC 4271 s8.2.2; the clause checkers follow a trace
   of (stimulus, effects) with a monitor that never looks at the model's state).
   Bound, stated honestly: the theorems are about the finite abstraction.  The ALPHABET is bounded
   (Model_Session.alphabet: every stimulus kind, error subcodes 0..11, teardown codes 1..10); the LENGTH of
   the event sequence is not: every interleaving of incoming connections, connect results, messages valid
   or not, EOF, socket errors, timer expiries, teardown and reload requests, of any length. *)
From Coq Require Import ZArith Bool List.
From ExaV Require Import gen.Gen_Fsm spec.Spec_Fsm model.Model_Session proofs.Proofs_Session.
From ExaV Require model.Model_WriteQueue proofs.Proofs_WriteQueue.
Import ListNotations.
Open Scope Z_scope.

(* every FSM.change of every trace is a transition that exists in RFC 4271 s8.2.2 AND in ExaBGP's own
   table FSM.transition (Gen_Fsm.allowed, regenerated from bgp/fsm.py on every run) *)
Theorem C05_rfc_transitions : forall es, over_alphabet es ->
  forall e acts a b, In (e, acts) (run init es) -> In (Fsm a b) acts ->
  rfc_allowed a b = true /\ allowed (code a) (code b) = true.
Proof. exact fsm_actions_allowed. Qed.

(* ... and starts from the state the machine is in (the transitions chain, from Idle) *)
Theorem C05_transitions_chain : forall es, over_alphabet es -> check_trans mon0 (run init es) = true.
Proof. exact rfc_transitions_all. Qed.

(* ExaBGP's table allows nothing that the RFC does not have *)
Theorem C05_table_within_rfc : forall a b, allowed (code a) (code b) = true -> rfc_allowed a b = true.
Proof. exact table_within_rfc. Qed.

(* ESTABLISHED only after OPEN written on, a valid OPEN read from, and then a KEEPALIVE read from the
   transport the session owns at that moment *)
Theorem C05_established_requires : forall es, over_alphabet es -> check_est mon0 (run init es) = true.
Proof. exact established_requires_all. Qed.

(* UPDATE, End-of-RIB and ROUTE-REFRESH are written in ESTABLISHED only *)
Theorem C05_no_update_outside_established : forall es, over_alphabet es -> check_upd mon0 (run init es) = true.
Proof. exact update_only_established_all. Qed.

(* whenever a connected state is left, the session transport is closed within the same step and before
   another transport is taken *)
Theorem C05_close_on_leave : forall es, over_alphabet es -> check_close mon0 (run init es) = true.
Proof. exact close_on_leave_all. Qed.

(* on the API an "up" is never followed by another "up" without a "down" in between *)
Theorem C05_up_down_alternate : forall es, over_alphabet es -> check_updown mon0 (run init es) = true.
Proof. exact up_down_all. Qed.

(* the peer task never waits on one transport while the session owns another one (what the defect D13
   violated: an accepted connection was never served because the suspended attempt kept the closed one) *)
Theorem C05_reads_own_transport : forall es, over_alphabet es -> reads_own (final init es) = true.
Proof. exact reads_own_transport. Qed.

(* non-vacuity: a session that establishes, exchanges, is refused a collision and is torn down meets the
   hypothesis; the model gives its trace; the checkers reject traces that break each clause *)
Definition C05_es : list event :=
  [Tick; ConnectOk; Recv OpenOk; Recv Keepalive; Tick; Recv UpdateOk; Incoming true; Teardown 4; LoopPause; LoopExit; Tick].

Example C05_example :
  over_alphabet C05_es
  /\ run init C05_es =
     [(Tick, [Fsm Idle Active; Fsm Active Idle]);
      (ConnectOk, [ApiConnected; Fsm Idle Connect; Write WOpen; Fsm Connect OpenSent]);
      (Recv OpenOk, [Fsm OpenSent OpenConfirm; Write WKeepalive]);
      (Recv Keepalive, [Fsm OpenConfirm Established; ApiUp]);
      (Tick, [Write WUpdate; Write WEor]);
      (Recv UpdateOk, []);
      (Incoming true, []);
      (Teardown 4, []);
      (LoopPause, []);
      (LoopExit, [Write (WNotification 6 4); ApiDown; Fsm Established Idle; CloseTransport]);
      (Tick, [Fsm Idle Active; Fsm Active Idle])]
  /\ check_trans mon0 [(Tick, [Fsm Idle OpenSent])] = false
  /\ check_trans mon0 [(Tick, [Fsm Connect OpenSent])] = false
  /\ check_est mon0 [(ConnectOk, [ApiConnected; Write WOpen]); (Recv OpenOk, [Fsm Idle Established])] = false
  /\ check_upd mon0 [(Tick, [Write WUpdate])] = false
  /\ check_close mon0 [(ConnectOk, [ApiConnected; Fsm Idle Connect]); (Eof, [Fsm Connect Idle])] = false
  /\ check_updown mon0 [(Tick, [ApiUp; ApiUp])] = false.
Proof.
  split; [apply over_alphabet_dec; vm_compute; reflexivity|].
  vm_compute. repeat split.
Qed.

(* the accepted-connection scenario of D13: OPENSENT, incoming connection accepted, the attempt is
   abandoned and the accepted transport is served *)
Example C05_example_collision :
  run init [Tick; ConnectOk; Incoming true; Tick; Recv OpenOk; Recv Keepalive] =
    [(Tick, [Fsm Idle Active; Fsm Active Idle]);
     (ConnectOk, [ApiConnected; Fsm Idle Connect; Write WOpen; Fsm Connect OpenSent]);
     (Incoming true, [ApiDown; Fsm OpenSent Idle; CloseTransport; ApiConnected]);
     (Tick, [Fsm Idle Active; Fsm Active Idle; Fsm Idle Connect; Write WOpen; Fsm Connect OpenSent]);
     (Recv OpenOk, [Fsm OpenSent OpenConfirm; Write WKeepalive]);
     (Recv Keepalive, [Fsm OpenConfirm Established; ApiUp])].
Proof. vm_compute. reflexivity. Qed.

(* ---- the API pipe (Processes.write in async mode, Processes.flush_write_queue; Model_WriteQueue, tied by
   harness/wqueue.py).  For EVERY history of write() calls and flushes, whatever the pipe accepts at each os.write
   (everything, a part, nothing, EAGAIN; at most BATCH items per flush) and as long as the pipe reports no error:
   what the helper has read, followed by what is still queued, is exactly the records written, in the order written -
   no record overtaken, repeated, dropped or cut anywhere but at the end of what was read so far.  (C05: an "up" written after a "down" is read after it.) *)
Theorem C05_api_pipe_in_order : forall ops,
  forallb Model_WriteQueue.error_free ops = true ->
  Model_WriteQueue.wq_dead (Model_WriteQueue.run ops) = false
  /\ Model_WriteQueue.wq_out (Model_WriteQueue.run ops) ++ concat (Model_WriteQueue.wq_q (Model_WriteQueue.run ops))
     = Model_WriteQueue.enqueued ops.
Proof. exact Proofs_WriteQueue.queue_in_order. Qed.

(* a pipe that takes everything empties a queue of at most BATCH records in one flush *)
Theorem C05_api_pipe_drains : forall big q out budget,
  Forall (fun d => (length d <= big)%nat) q -> (length q <= budget)%nat ->
  fst (fst (Model_WriteQueue.drain q out budget (Proofs_WriteQueue.generous big (length q)))) = ([], out ++ concat q, false).
Proof. exact Proofs_WriteQueue.drain_generous. Qed.

(* not vacuous: putting a refused record back at the END of the queue (a seeded change) delivers [2; 1] for [1]; [2] *)
Theorem C05_api_pipe_back_refuted :
  let '((q1, out1, _), _, _) := Model_WriteQueue.drain_back [[1%Z]; [2%Z]] [] 10 [Model_WriteQueue.Again] in
  let '((q2, out2, _), _, _) := Model_WriteQueue.drain_back q1 out1 10 [Model_WriteQueue.W 5; Model_WriteQueue.W 5] in
  out2 = [2%Z; 1%Z] /\ q2 = [].
Proof. exact Proofs_WriteQueue.back_reorders. Qed.

Print Assumptions C05_rfc_transitions.
Print Assumptions C05_transitions_chain.
Print Assumptions C05_table_within_rfc.
Print Assumptions C05_established_requires.
Print Assumptions C05_no_update_outside_established.
Print Assumptions C05_close_on_leave.
Print Assumptions C05_up_down_alternate.
Print Assumptions C05_reads_own_transport.
Print Assumptions C05_api_pipe_in_order.
Print Assumptions C05_api_pipe_drains.
Print Assumptions C05_api_pipe_back_refuted.
