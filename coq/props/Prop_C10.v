(* C10 - every protocol error is answered with the right NOTIFICATION, once.  Statements only.

   Same model (Model_Session) and reachable-set proof as C05; the clauses are the C10 checkers of
   Spec_Fsm: class_ok is the table error class -> (code, subcode) of RFC 4271 s6 (header 1/x, OPEN 2/x,
   UPDATE 3/x, hold timer 4/0, cease 6/x), RFC 6608 (FSM error 5/1 5/2 5/3 by state) and RFC 7313 (7/x).
   The subcode an error kind carries (OpenBad x, UpdateBad x, ...) is the one the decoders raise for it:
   that mapping is the business of C06/C07/C08 and of the harness (which checks it against the RFC class
   of each concrete malformed message); here it is carried unchanged from the reader to the wire.
   Bound: alphabet bounded (Model_Session.alphabet), trace length unbounded. *)
From Coq Require Import ZArith Bool List.
From ExaV Require Import gen.Gen_Fsm spec.Spec_Fsm model.Model_Session proofs.Proofs_Session.
Import ListNotations.
Open Scope Z_scope.

(* (a) a NOTIFICATION is only written on an open session transport and names the error class of the
   stimulus that took effect, in the FSM state it took effect in (or Cease when a teardown was requested
   or the API process is lost) *)
Theorem C10_notification_names_the_error : forall es, over_alphabet es -> check_class mon0 (run init es) = true.
Proof. exact class_all. Qed.

(* (b) a session that ends because of a received message (other than a NOTIFICATION) or of a timer has
   written a NOTIFICATION in that step *)
Theorem C10_session_end_is_answered : forall es, over_alphabet es -> check_answered mon0 (run init es) = true.
Proof. exact answered_all. Qed.

(* (c) nothing is written after a NOTIFICATION on that transport - so there is exactly one, it is the last
   message, and the transport is closed in the same step, before another transport is taken *)
Theorem C10_silence_after_notification : forall es, over_alphabet es -> check_silence mon0 (run init es) = true.
Proof. exact silence_all. Qed.

(* (a) + (b) + (c): the last write of a session ended by an error is the single right NOTIFICATION *)
Theorem C10_last_write_is_the_notification : forall es, over_alphabet es ->
  check_class mon0 (run init es) = true /\ check_answered mon0 (run init es) = true
  /\ check_silence mon0 (run init es) = true.
Proof. intros es H. repeat split; [exact (class_all es H)|exact (answered_all es H)|exact (silence_all es H)]. Qed.

(* a received NOTIFICATION is never answered (nothing at all is written in that step) *)
Theorem C10_no_reply_to_notification : forall es, over_alphabet es -> check_noreply mon0 (run init es) = true.
Proof. exact noreply_all. Qed.

(* the read in progress (in ESTABLISHED the task kept by Peer._read_message_or_nop across its 100 ms timeouts):
   a partly received message stays pending through EVERY event - timeouts, reload, API commands, teardown
   requests, scheduler steps - that neither completes it nor closes the transport (what seeded change C06-3
   breaks: a reload discarded it and the rest of the message was read as a header) *)
Theorem C10_pending_read_survives : forall es e, over_alphabet es -> In e alphabet ->
  survives_b (final init es) e = true.
Proof. exact pending_read_survives. Qed.

(* what was read or is pending always belongs to the transport the session owns, and a step that closes that
   transport or takes another one keeps nothing of it (what seeded change C10-3 breaks: a completed read that
   the torn-down loop never looked at was handed to the next session) *)
Theorem C10_no_cross_session_leak : forall es e, over_alphabet es -> In e alphabet ->
  no_leak_state (final init es) = true /\ no_leak_step (final init es) e = true.
Proof. exact no_cross_session_leak. Qed.

(* non-vacuity: every error class in the state where it matters; the model's answers; and the checkers
   reject the wrong answers - among them the trace the tree produced before the repair of D13 (a 5/1
   meant for the replaced transport written on the accepted one, in IDLE) and a silent reset *)
Definition C10_es : list event :=
  [Tick; ConnectOk; Recv (OpenBad 2); Tick; ConnectOk; Recv Keepalive; Tick; ConnectOk; OpenWaitExpire;
   Tick; ConnectOk; Recv OpenOk; Recv UpdateOk; Tick; ConnectOk; Recv OpenOk; HoldExpire;
   Tick; ConnectOk; Recv OpenOk; Recv Keepalive; Tick; Recv (UpdateBad 1);
   Tick; ConnectOk; Recv OpenOk; Recv Keepalive; Recv UnknownType;
   Tick; ConnectOk; Recv OpenOk; Recv Keepalive; HoldExpire;
   Tick; ConnectOk; Recv OpenOk; Recv Keepalive; Recv Notification].

Example C10_example :
  over_alphabet C10_es
  /\ map (fun x => filter is_notification (snd x)) (filter (fun x => existsb leaves (snd x)) (run init C10_es)) =
     [[Write (WNotification 2 2)]; [Write (WNotification 5 1)]; [Write (WNotification 5 1)];
      [Write (WNotification 5 2)]; [Write (WNotification 4 0)]; [Write (WNotification 3 1)];
      [Write (WNotification 1 3)]; [Write (WNotification 4 0)]; []]
  /\ check_class mon0
       [(Tick, [Fsm Idle Active; Fsm Active Idle]);
        (ConnectOk, [ApiConnected; Fsm Idle Connect; Write WOpen; Fsm Connect OpenSent]);
        (Incoming true, [ApiDown; Fsm OpenSent Idle; CloseTransport; ApiConnected]);
        (OpenWaitExpire, [Write (WNotification 5 1); Fsm Idle Idle; CloseTransport])] = false
  /\ check_class mon0
       [(ConnectOk, [ApiConnected; Fsm Idle Connect; Write WOpen; Fsm Connect OpenSent]);
        (Recv UnknownType, [Write (WNotification 1 0); ApiDown; Fsm OpenSent Idle; CloseTransport])] = false
  /\ check_answered mon0
       [(ConnectOk, [ApiConnected; Fsm Idle Connect; Write WOpen; Fsm Connect OpenSent]);
        (Recv UpdateOk, [ApiDown; Fsm OpenSent Idle; CloseTransport])] = false
  /\ check_silence mon0
       [(ConnectOk, [ApiConnected; Write (WNotification 6 2); Write WKeepalive; CloseTransport])] = false
  /\ check_silence mon0 [(ConnectOk, [ApiConnected; Write (WNotification 6 2)])] = false
  /\ check_noreply mon0
       [(ConnectOk, [ApiConnected]); (Recv Notification, [Write (WNotification 6 2); CloseTransport])] = false.
Proof.
  split; [apply over_alphabet_dec; vm_compute; reflexivity|].
  vm_compute. repeat split.
Qed.

(* a message in two pieces with a reload, a queued refresh and a timeout's worth of scheduler steps between
   them: still pending, then handled; a teardown is noticed at the end of the iteration; a header error that
   arrives during the last pause of the torn-down session is dropped with its transport and the next session
   starts clean *)
Example C10_example_pending :
  let es := [Tick; ConnectOk; Recv OpenOk; Recv Keepalive; Tick; RecvPart; Reload Same; ApiRefresh; Tick; Handover; Tick] in
  over_alphabet es /\ pend (final init es) = PPartial
  /\ run (final init es) [Recv (UpdateBad 1)] =
       [(Recv (UpdateBad 1), [Write (WNotification 3 1); ApiDown; Fsm Established Idle; CloseTransport])]
  /\ run (final init es) [Teardown 4; LoopPause; Recv (HeaderErr 1); LoopExit; Tick; ConnectOk; Recv OpenOk; Recv Keepalive] =
       [(Teardown 4, []); (LoopPause, []); (Recv (HeaderErr 1), []);
        (LoopExit, [Write (WNotification 6 4); ApiDown; Fsm Established Idle; CloseTransport]);
        (Tick, [Fsm Idle Active; Fsm Active Idle]);
        (ConnectOk, [ApiConnected; Fsm Idle Connect; Write WOpen; Fsm Connect OpenSent]);
        (Recv OpenOk, [Fsm OpenSent OpenConfirm; Write WKeepalive]);
        (Recv Keepalive, [Fsm OpenConfirm Established; ApiUp])].
Proof.
  cbv zeta. split; [apply over_alphabet_dec; vm_compute; reflexivity|]. vm_compute. repeat split.
Qed.

Print Assumptions C10_pending_read_survives.
Print Assumptions C10_no_cross_session_leak.
Print Assumptions C10_notification_names_the_error.
Print Assumptions C10_session_end_is_answered.
Print Assumptions C10_silence_after_notification.
Print Assumptions C10_last_write_is_the_notification.
Print Assumptions C10_no_reply_to_notification.
