(* C01 - Sent UPDATEs say exactly what the operator asked for.
   Statements only; every proof is `exact <lemma>`; assumptions are printed.

   What is proved, for ALL routes of the domain `wf_route` and ALL sessions:
     model    Model_Encode.encode_announce / encode_withdraw  (one route -> UPDATE body; Model_Attr, Model_Nlri)
     oracle   Spec_Update.ref_decode                          (RFC 4271/4760/7911/6793/8277/4364/8950 decoder)
   Route domain (wf_route / wf_nlri / wf_item in Proofs_Encode): ipv4/ipv6 x unicast, multicast, nlri-mpls,
   mpls-vpn; label stack as ExaBGP builds it (bottom-of-stack bit on the last label); length octet <= 255;
   next hop of the route family, or IPv6 for an IPv4 route when RFC 8950 is negotiated; any subset of ORIGIN,
   AS_PATH (segments of ANY number of 4-byte ASNs: the 255-ASN split of ASPath._segment is modelled and proved,
   C01_segment_split), MED, LOCAL_PREF, ATOMIC_AGGREGATE, AGGREGATOR, COMMUNITY, ORIGINATOR_ID, CLUSTER_LIST,
   EXTENDED/LARGE COMMUNITY, generic attributes with a code ExaBGP's decoder does not know;
   sessions: any local/peer AS < 2^32 (iBGP or eBGP), ASN4 or not, any ADD-PATH send function, msg size <= 65535.
   `dict_route` = the attribute codes are distinct (the AttributeCollection is a dict) OR nothing needs AS4_*
   (the hypothesis of the first version, kept so that nothing is weakened).  With distinct codes the whole-UPDATE
   theorems hold for 4-byte ASNs sent to a 2-byte peer too: AS_TRANS + AS4_PATH / AS4_AGGREGATOR are on the wire
   and the RFC 6793 reconstruction inside ref_decode gives back the requested path and aggregator.
   `mc` = which form of the IPv4/MP classification the tree has (harness reads it): false = the repaired tree; for
   mc = true the statement is false (C01_multicast_refuted) and holds for every route except ipv4 multicast
   (C01_decodes_to_request_partial).  `v4m` = whether the tree sends the IPv4 next hop of an IPv6-family route
   IPv4-mapped; inside the domain (next hop of the route family) it makes no difference. *)
From Coq Require Import ZArith Bool List Permutation Sorted.
From ExaV Require Import gen.Gen_NlriRegistry model.Model_Nlri model.Model_Attr model.Model_Encode
  spec.Spec_Nlri spec.Spec_Update proofs.Proofs_Encode.
Import ListNotations.
Open Scope Z_scope.

(* the UPDATE sent for an announced route decodes to exactly that route: no withdrawn route, one announced
   route of the requested family with the requested prefix / labels / rd, the path id the session dictates,
   the resolved next hop; the attribute values are (up to order) the given ones - LOCAL_PREF only on iBGP -
   plus ORIGIN IGP, AS_PATH [] (iBGP) or [local_as] (eBGP), LOCAL_PREF 100 (iBGP) for what is absent; the last
   conjunct gives them in wire order: the items the model sends, which are ascending by code (C01_attribute_order) *)
Theorem C01_decodes_to_request : forall v4m ext s r body,
  wf_route ext s r ->
  encode_announce false v4m s r = Some body ->
  exists u, ref_decode (rs_of s ext) body = Some u
    /\ u_withdrawn u = []
    /\ u_announced u = [((n_afi (r_nlri r), n_safi (r_nlri r)), sem_nlri (send_pid s (r_nlri r)) false (r_nlri r),
                         resolve s (n_afi (r_nlri r)) (r_nh r))]
    /\ Permutation (u_attrs u) (expected_attrs s (r_items r))
    /\ u_attrs u = flat_map sem_item (sent_items s (items_of s r)).
Proof. intros v4m ext s r body W. exact (announce_decodes' false v4m ext s r body W (or_introl eq_refl)). Qed.

(* the tree that packs ipv4 multicast like unicast: true for everything else ... *)
Theorem C01_decodes_to_request_partial : forall v4m ext s r body,
  wf_route ext s r ->
  ~ (n_afi (r_nlri r) = 1 /\ n_safi (r_nlri r) = 2) ->
  encode_announce true v4m s r = Some body ->
  exists u, ref_decode (rs_of s ext) body = Some u
    /\ u_withdrawn u = []
    /\ u_announced u = [((n_afi (r_nlri r), n_safi (r_nlri r)), sem_nlri (send_pid s (r_nlri r)) false (r_nlri r),
                         resolve s (n_afi (r_nlri r)) (r_nh r))]
    /\ Permutation (u_attrs u) (expected_attrs s (r_items r))
    /\ u_attrs u = flat_map sem_item (sent_items s (items_of s r)).
Proof. intros v4m ext s r body W H. exact (announce_decodes' true v4m ext s r body W (or_intror H)). Qed.

(* ... and false for 224.0.0.0/24 next-hop 1.2.3.4: the peer decodes an ipv4 UNICAST route *)
Theorem C01_multicast_refuted :
  exists body u, encode_announce true false mc_sess mc_route = Some body
    /\ ref_decode (rs_of mc_sess (fun _ _ => false)) body = Some u
    /\ map (fun a => fst (fst a)) (u_announced u) = [(1, 1)]
    /\ (n_afi (r_nlri mc_route), n_safi (r_nlri mc_route)) = (1, 2).
Proof. exact multicast_refuted. Qed.

(* "next-hop self" is the local address of the session (what Neighbor.ip_self gives for the route's AFI) *)
Theorem C01_next_hop_self : forall s afi ip,
  resolve s afi NhSelf = (if afi =? 1 then s_self4 s else s_self6 s) /\ resolve s afi (NhIp ip) = ip.
Proof. intros. split; reflexivity. Qed.

(* RFC 6793 on a 2-byte session, the AS_PATH / AS4_PATH pair on its own: the AS_PATH on the wire holds AS_TRANS in
   every slot of an ASN > 65535 (and only 2-byte values), AS4_PATH is present iff the request has such an ASN, and the
   reconstruction gives the requested path (as stored: cut in segments of at most 255) *)
Theorem C01_as4_to_2byte_peer : forall s ext segs,
  s_asn4 s = false -> Forall seg_in segs -> zlen (pack_segs true (path_segments segs)) < 65536 ->
  exists ts ras,
    tlvs (length (pack_item s (IAsPath segs))) (pack_item s (IAsPath segs)) = Some ts
    /\ interp_all (rs_of s ext) ts = Some ras
    /\ find_aspath ras
       = Some (map (fun sg => (fst sg, map (fun v => if 65535 <? v then 23456 else v) (snd sg))) (path_segments segs))
    /\ Forall (seg_ok 65536) (trans_path (path_segments segs))
    /\ find_as4path ras = (if has_large segs then Some (path_segments segs) else None)
    /\ merge_as4 (rs_of s ext) ras = [SAsPath (path_segments segs)].
Proof. exact as4_pair. Qed.

(* ASPath._segment: a segment of n ASNs is stored as ceil(n/255) segments of 1..255 ASNs whose concatenation is the
   segment (none for n = 0); so the stored path has the requested ASNs in the requested order, a segment of 1..255
   ASNs is stored as it is, and an ASN above 65535 is in the stored path iff it was requested *)
Theorem C01_segment_split :
  (forall a, concat (seg_split (length a) a) = a
             /\ Forall (fun c => (1 <= length c <= 255)%nat) (seg_split (length a) a)
             /\ length (seg_split (length a) a) = ((length a + 254) / 255)%nat)
  /\ (forall p, flat_map snd (path_segments p) = flat_map snd p)
  /\ (forall p, Forall seg_in p -> Forall (seg_ok 4294967296) (path_segments p))
  /\ (forall lim p, Forall (seg_ok lim) p -> path_segments p = p)
  /\ (forall p, has_large (path_segments p) = has_large p).
Proof.
  exact (conj (fun a => seg_split_spec (length a) a (le_n _))
        (conj path_segments_flat (conj path_segments_ok (conj path_segments_id has_large_split)))).
Qed.

(* the attributes are sent in ascending order of their code (sorted(alls) of pack_attribute) *)
Theorem C01_attribute_order : forall s items, Sorted code_le (sent_items s items).
Proof. exact sent_items_sorted. Qed.

(* ADD-PATH send for the family <-> a path identifier in the decoded route and 4 more octets on the wire;
   its value is the requested one, or 0 *)
Theorem C01_pathid : forall s n,
  match n_pid n with Some b => zlen b = 4 | None => True end ->
  r_pid (sem_nlri (send_pid s n) false n) = (if s_ap s (n_afi n) (n_safi n) then Some (requested_pid n) else None)
  /\ zlen (pack_nlri (send_pid s n) n) = zlen (body n) + (if s_ap s (n_afi n) (n_safi n) then 4 else 0).
Proof. exact pathid_lemma. Qed.

(* withdraw direction: the route is in Withdrawn Routes / MP_UNREACH_NLRI, nothing is announced (so no next hop);
   for unicast/multicast no attribute at all (so no default) is sent; for nlri-mpls / mpls-vpn the code sends the
   route's attributes with the defaults next to MP_UNREACH_NLRI (RFC 4760 allows, does not require that) and they
   decode to the same values as in the announce direction *)
Theorem C01_withdraw : forall ext s r body,
  wf_nlri true (r_nlri r) -> Forall wf_item (r_items r) -> no_nh (r_items r) -> wf_defaults s -> s_msg s <= 65535 ->
  dict_route s (r_items r) ->
  encode_withdraw false s (r_nlri r) (items_of s r) = Some body ->
  exists u, ref_decode (rs_of s ext) body = Some u
    /\ u_withdrawn u = [((n_afi (r_nlri r), n_safi (r_nlri r)), sem_nlri (send_pid s (r_nlri r)) true (r_nlri r))]
    /\ u_announced u = []
    /\ (n_safi (r_nlri r) = 1 \/ n_safi (r_nlri r) = 2 -> u_attrs u = [])
    /\ (n_safi (r_nlri r) = 4 \/ n_safi (r_nlri r) = 128 -> Permutation (u_attrs u) (expected_attrs s (r_items r))).
Proof. intros ext s r body W1 W2 W3 W4 W5 W6. exact (withdraw_decodes false ext s r body W1 W2 W3 W4 W5 W6 (or_introl eq_refl)). Qed.

(* whatever is sent fits the negotiated message size (4096 or 65535): header + body <= msg_size *)
Theorem C01_fits_message_size : forall mc v4m s r n items body,
  (encode_announce mc v4m s r = Some body -> 19 + zlen body <= s_msg s)
  /\ (encode_withdraw mc s n items = Some body -> 19 + zlen body <= s_msg s).
Proof. intros. split; [apply announce_fits | apply withdraw_fits]. Qed.

(* an announced route is sent if and only if its UPDATE (header, attributes with defaults, NLRI or MP_REACH_NLRI)
   fits the negotiated size, and the UPDATE has exactly that length: nothing is dropped that could be sent *)
Theorem C01_sent_iff_fits : forall mc v4m s r,
  (announce_size mc v4m s r <= s_msg s <-> exists body, encode_announce mc v4m s r = Some body)
  /\ (forall body, encode_announce mc v4m s r = Some body -> 19 + zlen body = announce_size mc v4m s r).
Proof. exact announce_sent_iff_fits. Qed.

(* the AttributeCollection is a dict: the order in which the operator wrote the attributes changes no octet *)
Theorem C01_written_order_is_irrelevant : forall s items items',
  Permutation items items' -> NoDup (map code_of items) -> pack_attrs s true items = pack_attrs s true items'.
Proof. exact attrs_order_independent. Qed.

(* COMMUNITY / EXTENDED COMMUNITY (sorted) and LARGE COMMUNITY (sorted, duplicates dropped) carry exactly the
   requested set of values *)
Theorem C01_community_sets : forall vs x, (In x (csort vs) <-> In x vs) /\ (In x (csort_nodup vs) <-> In x vs).
Proof. intros. split; [apply csort_In | apply csort_nodup_In]. Qed.

(* a generic attribute is sent with the flags as written; only the Extended Length bit follows the length *)
Theorem C01_generic_flags : forall f d, clear16 (eff_flag f d) = clear16 f.
Proof. exact clear16_eff. Qed.

(* non-vacuity: 2001:db8::/32 rd 65000:1 label 100 path-information 5 next-hop self, as-path [ 65010 4200000000 ],
   med 5, community [ no-export 65000:1 ] on an iBGP session of AS 70000 with ADD-PATH for ipv6 mpls-vpn is in the
   domain and is encoded (98 octets) *)
Example C01_example :
  wf_route (fun _ _ => false) ex_sess ex_route
  /\ exists body, encode_announce false false ex_sess ex_route = Some body /\ zlen body = 98.
Proof. exact ex_route_ok. Qed.

(* non-vacuity of the 2-byte-peer case: 10.0.0.0/24 next-hop self as-path [ 70000 65010 4200000000 ]
   aggregator ( 4200000000:1.1.1.1 ) local-preference 200 from AS 70000 to a peer without ASN4 is in the domain by
   the distinct-codes branch only, and is encoded (67 octets: AS_TRANS, AS4_PATH, AS4_AGGREGATOR, no LOCAL_PREF) *)
Example C01_example_2byte_peer :
  wf_route (fun _ _ => false) ex2_sess ex2_route
  /\ ~ small_route ex2_sess (r_items ex2_route)
  /\ exists body, encode_announce false false ex2_sess ex2_route = Some body /\ zlen body = 67.
Proof. exact ex2_route_ok. Qed.

Print Assumptions C01_decodes_to_request.
Print Assumptions C01_decodes_to_request_partial.
Print Assumptions C01_multicast_refuted.
Print Assumptions C01_next_hop_self.
Print Assumptions C01_as4_to_2byte_peer.
Print Assumptions C01_segment_split.
Print Assumptions C01_attribute_order.
Print Assumptions C01_pathid.
Print Assumptions C01_withdraw.
Print Assumptions C01_fits_message_size.
Print Assumptions C01_sent_iff_fits.
Print Assumptions C01_written_order_is_irrelevant.
Print Assumptions C01_community_sets.
Print Assumptions C01_generic_flags.
