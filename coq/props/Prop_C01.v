(* C01 - Sent UPDATEs say exactly what the operator asked for.
   Statements only; every proof is `exact <lemma>`; assumptions are printed.

   What is proved, for ALL routes of the domain `wf_route` and ALL sessions:
     model    Model_Encode.encode_announce / encode_withdraw  (one route -> UPDATE body; Model_Attr, Model_Nlri)
     oracle   Spec_Update.ref_decode                          (RFC 4271/4760/7911/6793/8277/4364/8950 decoder)
   Route domain (wf_route / wf_nlri / wf_item in Proofs_Encode): ipv4/ipv6 x unicast, multicast, nlri-mpls,
   mpls-vpn; label stack as ExaBGP builds it (bottom-of-stack bit on the last label); length octet <= 255;
   next hop of the route family, or IPv6 for an IPv4 route when RFC 8950 is negotiated; any subset of ORIGIN,
   AS_PATH (segments of 1..255 ASNs), MED, LOCAL_PREF, ATOMIC_AGGREGATE, AGGREGATOR, COMMUNITY, ORIGINATOR_ID,
   CLUSTER_LIST, EXTENDED/LARGE COMMUNITY, generic attributes with a code ExaBGP's decoder does not know;
   sessions: any local/peer AS < 2^32 (iBGP or eBGP), ASN4 or not, any ADD-PATH send function, msg size <= 65535.
   C01_decodes_to_request needs `small_route`: the peer has ASN4, or no ASN above 65535 has to be sent;
   the remaining case (4-byte ASNs to a 2-byte peer) is C01_as4_to_2byte_peer, at the level of the AS_PATH /
   AS4_PATH attribute pair.  `mc` = which form of the IPv4/MP classification the tree has (harness reads it):
   false = the repaired tree; for mc = true the statement is false (C01_multicast_refuted) and holds for every
   route except ipv4 multicast (C01_decodes_to_request_partial).  `v4m` = whether the tree sends the IPv4 next hop
   of an IPv6-family route IPv4-mapped; inside the domain (next hop of the route family) it makes no difference. *)
From Coq Require Import ZArith Bool List Permutation.
From ExaV Require Import gen.Gen_NlriRegistry model.Model_Nlri model.Model_Attr model.Model_Encode
  spec.Spec_Nlri spec.Spec_Update proofs.Proofs_Encode.
Import ListNotations.
Open Scope Z_scope.

(* the UPDATE sent for an announced route decodes to exactly that route: no withdrawn route, one announced
   route of the requested family with the requested prefix / labels / rd, the path id the session dictates,
   the resolved next hop; the attribute values are (up to order) the given ones - LOCAL_PREF only on iBGP -
   plus ORIGIN IGP, AS_PATH [] (iBGP) or [local_as] (eBGP), LOCAL_PREF 100 (iBGP) for what is absent *)
Theorem C01_decodes_to_request : forall v4m ext s r body,
  wf_route ext s r ->
  encode_announce false v4m s r = Some body ->
  exists u, ref_decode (rs_of s ext) body = Some u
    /\ u_withdrawn u = []
    /\ u_announced u = [((n_afi (r_nlri r), n_safi (r_nlri r)), sem_nlri (send_pid s (r_nlri r)) false (r_nlri r),
                         resolve s (n_afi (r_nlri r)) (r_nh r))]
    /\ Permutation (u_attrs u) (expected_attrs s (r_items r)).
Proof. intros v4m ext s r body W. exact (announce_decodes' false v4m ext s r body W (or_introl eq_refl)). Qed.

(* the tree that packs ipv4 multicast like unicast: true for everything else ... *)
Theorem C01_decodes_to_request_partial : forall v4m ext s r body,
  wf_route ext s r ->
  ~ (n_afi (r_nlri r) = 1 /\ n_safi (r_nlri r) = 2) ->
  encode_announce true v4m s r = Some body ->
  exists u, ref_decode (rs_of s ext) body = Some u
    /\ u_withdrawn u = []
    /\ u_announced u = [((n_afi (r_nlri r), n_safi (r_nlri r)), sem_nlri (send_pid s (r_nlri r)) false (r_nlri r),
                         resolve s (n_afi (r_nlri r)) (r_nh r))]
    /\ Permutation (u_attrs u) (expected_attrs s (r_items r)).
Proof. intros v4m ext s r body W H. exact (announce_decodes' true v4m ext s r body W (or_intror H)). Qed.

(* ... and false for 224.0.0.0/24 next-hop 1.2.3.4: the peer decodes an ipv4 UNICAST route *)
Theorem C01_multicast_refuted :
  exists body u, encode_announce true false mc_sess mc_route = Some body
    /\ ref_decode (rs_of mc_sess (fun _ _ => false)) body = Some u
    /\ map (fun a => fst (fst a)) (u_announced u) = [(1, 1)]
    /\ (n_afi (r_nlri mc_route), n_safi (r_nlri mc_route)) = (1, 2).
Proof. exact multicast_refuted. Qed.

(* "next-hop self" is the local address of the session (what Neighbor.ip_self gives for the route's AFI) *)
Theorem C01_next_hop_self : forall s afi ip,
  resolve s afi NhSelf = (if afi =? 1 then s_self4 s else s_self6 s) /\ resolve s afi (NhIp ip) = ip.
Proof. intros. split; reflexivity. Qed.

(* RFC 6793 on a 2-byte session: the AS_PATH on the wire holds AS_TRANS in every slot of an ASN > 65535 (and only
   2-byte values), AS4_PATH is present iff there is such an ASN, and the reconstruction gives the requested path *)
Theorem C01_as4_to_2byte_peer : forall s ext segs,
  s_asn4 s = false -> Forall (seg_ok 4294967296) segs -> zlen (pack_segs true segs) < 65536 ->
  exists ts ras,
    tlvs (length (pack_item s (IAsPath segs))) (pack_item s (IAsPath segs)) = Some ts
    /\ interp_all (rs_of s ext) ts = Some ras
    /\ find_aspath ras = Some (map (fun sg => (fst sg, map (fun v => if 65535 <? v then 23456 else v) (snd sg))) segs)
    /\ Forall (seg_ok 65536) (trans_path segs)
    /\ find_as4path ras = (if has_large segs then Some segs else None)
    /\ merge_as4 (rs_of s ext) ras = [SAsPath segs].
Proof. exact as4_pair. Qed.

(* ADD-PATH send for the family <-> a path identifier in the decoded route and 4 more octets on the wire;
   its value is the requested one, or 0 *)
Theorem C01_pathid : forall s n,
  match n_pid n with Some b => zlen b = 4 | None => True end ->
  r_pid (sem_nlri (send_pid s n) false n) = (if s_ap s (n_afi n) (n_safi n) then Some (requested_pid n) else None)
  /\ zlen (pack_nlri (send_pid s n) n) = zlen (body n) + (if s_ap s (n_afi n) (n_safi n) then 4 else 0).
Proof. exact pathid_lemma. Qed.

(* withdraw direction: the route is in Withdrawn Routes / MP_UNREACH_NLRI, nothing is announced (so no next hop),
   and for unicast/multicast no attribute at all (so no default) is sent.  For nlri-mpls / mpls-vpn the code sends
   the route's attributes with defaults next to MP_UNREACH_NLRI (RFC 4760 allows, does not require that) *)
Theorem C01_withdraw : forall ext s r body,
  wf_nlri true (r_nlri r) -> Forall wf_item (r_items r) -> no_nh (r_items r) -> wf_defaults s -> s_msg s <= 65535 ->
  small_route s (r_items r) ->
  encode_withdraw false s (r_nlri r) (items_of s r) = Some body ->
  exists u, ref_decode (rs_of s ext) body = Some u
    /\ u_withdrawn u = [((n_afi (r_nlri r), n_safi (r_nlri r)), sem_nlri (send_pid s (r_nlri r)) true (r_nlri r))]
    /\ u_announced u = []
    /\ (n_safi (r_nlri r) = 1 \/ n_safi (r_nlri r) = 2 -> u_attrs u = []).
Proof. intros ext s r body W1 W2 W3 W4 W5 W6. exact (withdraw_decodes false ext s r body W1 W2 W3 W4 W5 W6 (or_introl eq_refl)). Qed.

(* COMMUNITY / EXTENDED COMMUNITY (sorted) and LARGE COMMUNITY (sorted, duplicates dropped) carry exactly the
   requested set of values *)
Theorem C01_community_sets : forall vs x, (In x (csort vs) <-> In x vs) /\ (In x (csort_nodup vs) <-> In x vs).
Proof. intros. split; [apply csort_In | apply csort_nodup_In]. Qed.

(* a generic attribute is sent with the flags as written; only the Extended Length bit follows the length *)
Theorem C01_generic_flags : forall f d, clear16 (eff_flag f d) = clear16 f.
Proof. exact clear16_eff. Qed.

(* non-vacuity: 2001:db8::/32 rd 65000:1 label 100 path-information 5 next-hop self, as-path [ 65010 4200000000 ],
   med 5, community [ no-export 65000:1 ] on an iBGP session of AS 70000 with ADD-PATH for ipv6 mpls-vpn is in the
   domain and is encoded (98 octets) *)
Example C01_example :
  wf_route (fun _ _ => false) ex_sess ex_route
  /\ exists body, encode_announce false false ex_sess ex_route = Some body /\ zlen body = 98.
Proof. exact ex_route_ok. Qed.

Print Assumptions C01_decodes_to_request.
Print Assumptions C01_decodes_to_request_partial.
Print Assumptions C01_multicast_refuted.
Print Assumptions C01_next_hop_self.
Print Assumptions C01_as4_to_2byte_peer.
Print Assumptions C01_pathid.
Print Assumptions C01_withdraw.
Print Assumptions C01_community_sets.
Print Assumptions C01_generic_flags.
