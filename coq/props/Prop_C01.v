(* C01 - placeholder while the proofs are developed *)
From Coq Require Import ZArith List Bool.
From ExaV Require Import model.Model_Nlri model.Model_Attr model.Model_Encode spec.Spec_Update.
Theorem C01_placeholder : True. Proof. exact I. Qed.
Print Assumptions C01_placeholder.
