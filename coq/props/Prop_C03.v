(* C03 - No peer input can crash or wedge the speaker.
   Statements only; every proof is `exact <lemma>`; assumptions are printed.
   The theorems are about Model_Robust (outcome class, loop iterations / calls, Python call depth of every
   message decoder).  `vdec` / `capv` are the value decoders of registered attributes / capabilities: the
   theorems hold for EVERY such function that keeps the stated contract (only Notify with RFC-defined codes;
   IndexError/ValueError only from classes marked TREAT_AS_WITHDRAW or DISCARD); whether the Python decoders
   keep it is what harness/c03.py checks by running them.
   PARSE_IS_RECURSIVE / OVERRUN_STOPS are regenerated from /repo by translator T12 on every run; every
   statement below is proved for both values, so this file compiles before and after the repair of the walk. *)
From Coq Require Import ZArith Bool List Arith.
From ExaV Require Import gen.Gen_ParseShape model.Model_Robust spec.Spec_Robust proofs.Proofs_Robust.
Import ListNotations.
Open Scope Z_scope.

(* the attribute walk ends, after at most one step per three octets (each attribute has a 3 octet header) *)
Theorem C03_walk_terminates_linear : forall vdec (b : bytes),
  (w_steps (walk vdec b) <= length b / 3 + 1)%nat.
Proof. exact walk_steps_linear. Qed.

(* bounded call depth: holds as soon as the walk is a loop ... *)
Theorem C03_bounded_depth_partial : PARSE_IS_RECURSIVE = false ->
  forall vdec (b : bytes), (w_depth (walk vdec b) <= 2)%nat.
Proof. exact bounded_depth_partial. Qed.

(* ... and is false while the walk calls itself: n well-formed unknown optional attributes (0x80 0xFE 0x00,
   3n octets, a valid block) need n+1 frames *)
Theorem C03_bounded_depth_refuted : PARSE_IS_RECURSIVE = true ->
  forall vdec (n : nat), exists b : bytes,
    b = enc_block (repeat u254 n) /\ length b = (3 * n)%nat /\ w_depth (walk vdec b) = S n.
Proof. exact bounded_depth_refuted. Qed.

(* one of the two holds in the tree under check (the harness reports which) *)
Theorem C03_bounded_depth_dichotomy :
  (PARSE_IS_RECURSIVE = false /\ forall vdec (b : bytes), (w_depth (walk vdec b) <= 2)%nat)
  \/ (PARSE_IS_RECURSIVE = true /\
      forall vdec (n : nat), exists b : bytes, length b = (3 * n)%nat /\ w_depth (walk vdec b) = S n).
Proof. exact depth_dichotomy. Qed.

(* consequence for the decoder while the walk calls itself: whatever stack is left (`limit` frames), a valid
   UPDATE of 3*limit+4 octets raises RecursionError *)
Theorem C03_recursion_crash : forall vdec addpath (limit : nat), PARSE_IS_RECURSIVE = true ->
  (1 <= limit)%nat -> 3 * Z.of_nat limit < 65536 ->
  dec_update vdec addpath limit (attr_only (enc_block (repeat u254 limit))) = PyError K_RECURSION.
Proof. exact recursion_crash. Qed.

(* any number of well-formed unknown attributes is walked, one step each, never refused, nothing marked *)
Theorem C03_valid_unknown_attrs_not_refused : forall vdec (l : list pattr),
  Forall unknown_attr l ->
  exists seen, w_out (walk vdec (enc_block l)) = WOk seen false /\
               w_steps (walk vdec (enc_block l)) = S (length l).
Proof. exact unknown_attrs_walked. Qed.

(* ... and the UPDATE that carries them is decoded, when the stack allows it (always, once the walk is a loop) *)
Theorem C03_valid_unknown_attrs_decoded : forall vdec addpath limit (l : list pattr),
  Forall unknown_attr l -> len (enc_block l) < 65536 -> l <> [] ->
  enough_stack limit (enc_block l) ->
  dec_update vdec addpath limit (attr_only (enc_block l)) = Decoded 2.
Proof. exact unknown_attrs_decoded. Qed.

(* every message type, every body: decoded, or refused with a defined (code, subcode); never another error.
   Hypotheses: the contracts of the abstracted value decoders, enough stack (a loop, or a body of at most
   3*(limit-1) octets), not a ROUTE-REFRESH whose subtype is not 0, 1 or 2, and not an OPERATIONAL advisory while
   its constructor refuses the buffer it is handed (see the two refutations below) *)
Theorem C03_only_defined_outcomes_partial : forall vdec capv addpath limit ty (b : bytes),
  vdec_contract vdec -> capv_contract capv -> enough_stack limit b ->
  ~ refresh_unknown_subtype ty b -> advisory_decodable ty b ->
  match dec_message vdec capv addpath limit ty b with
  | Decoded _ => True
  | Refused c s => rfc_defined c s = true
  | PyError _ => False
  end.
Proof. exact message_defined. Qed.

(* the unrestricted statement is false: ROUTE-REFRESH afi 1, subtype 3, safi 1 is answered 7/2, a subcode no RFC
   defines (RFC 7313 says such a message is ignored) *)
Theorem C03_only_defined_outcomes_refuted : forall vdec capv addpath limit,
  dec_message vdec capv addpath limit 5 [0; 1; 3; 1] = Refused 7 2 /\ rfc_defined 7 2 = false.
Proof. exact refresh_subtype_refused. Qed.

(* ... and while Advisory.ADM/ASM.__init__ only converts `bytes` and `str`, an advisory (ADM, afi 1 safi 1, text "\001")
   read from the network (a memoryview) raises AttributeError *)
Theorem C03_advisory_crash : forall vdec capv addpath limit, ADVISORY_ACCEPTS_BUFFER = false ->
  dec_message vdec capv addpath limit 6 [0; 1; 0; 3; 0; 1; 1] = PyError K_ATTRIBUTE.
Proof. exact advisory_crash. Qed.

(* the split refuses exactly when the two length fields do not fit, and otherwise cuts the body where they say *)
Theorem C03_sections : forall b : bytes, byte_list b ->
  (sections_fit b = true ->
     exists w a r, split b = SOk w a r /\ len w = u16 b 0 /\ len a = u16 b (2 + u16 b 0) /\
       b = firstn 2 b ++ w ++ firstn 2 (skipn (Z.to_nat (2 + u16 b 0)) b) ++ a ++ r)
  /\ (sections_fit b = false ->
        (len b < 4 /\ split b = SRefused 1 2) \/ (4 <= len b /\ split b = SRefused 3 1)).
Proof. exact sections_exact. Qed.

(* loop iterations / calls of the whole decoder of a message are linear in its size *)
Theorem C03_linear_steps : forall vdec capv addpath ty (b : bytes),
  capv_contract capv -> byte_list b ->
  (message_steps vdec capv addpath ty b <= length b + 2)%nat.
Proof. exact message_steps_linear. Qed.

(* non-vacuity: ORIGIN IGP, a truncated MED (treat-as-withdraw), two unknown optional attributes and 10.0.0.0/8 *)
Example C03_example :
  dec_update vdec_basic false 100
    ([0; 0; 0; 17] ++ [64; 1; 1; 0] ++ [128; 4; 2; 0; 0] ++ [128; 254; 0] ++ [192; 253; 2; 9; 9] ++ [8; 10])
  = Decoded 2
  /\ walk vdec_basic ([64; 1; 1; 0] ++ [128; 4; 2; 0; 0] ++ [128; 254; 0] ++ [192; 253; 2; 9; 9])
     = mkW (WOk [253; 1] true) 5 (if PARSE_IS_RECURSIVE then 5 else 1).
Proof. split; vm_compute; reflexivity. Qed.

Print Assumptions C03_walk_terminates_linear.
Print Assumptions C03_bounded_depth_partial.
Print Assumptions C03_bounded_depth_refuted.
Print Assumptions C03_bounded_depth_dichotomy.
Print Assumptions C03_recursion_crash.
Print Assumptions C03_valid_unknown_attrs_not_refused.
Print Assumptions C03_valid_unknown_attrs_decoded.
Print Assumptions C03_only_defined_outcomes_partial.
Print Assumptions C03_only_defined_outcomes_refuted.
Print Assumptions C03_advisory_crash.
Print Assumptions C03_sections.
Print Assumptions C03_linear_steps.
