(* C03 - No peer input can crash or wedge the speaker.
   Statements only; every proof is `exact <lemma>`; assumptions are printed.
   The theorems are about Model_Robust (outcome class, loop iterations / calls, Python call depth of every
   message decoder).  `vdec` / `capv` are the value decoders of registered attributes / capabilities: the
   theorems hold for EVERY such function that keeps the stated contract (only Notify with RFC-defined codes;
   IndexError/ValueError only from classes marked TREAT_AS_WITHDRAW or DISCARD); whether the Python decoders
   keep it is what harness/c03.py checks by running them.
   PARSE_IS_RECURSIVE / OVERRUN_STOPS are regenerated from /repo by translator T12 on every run; every
   statement below is proved for both values, so this file compiles before and after the repair of the walk. *)
From Coq Require Import ZArith Bool List Arith.
From ExaV Require Import gen.Gen_ParseShape gen.Gen_AttrTable model.Model_Robust spec.Spec_Robust proofs.Proofs_Robust
  model.Model_RobustInst proofs.Proofs_RobustInst.
From ExaV Require model.Model_Update.
Import ListNotations.
Open Scope Z_scope.

(* the attribute walk ends, after at most one step per three octets (each attribute has a 3 octet header) *)
Theorem C03_walk_terminates_linear : forall vdec (b : bytes),
  (w_steps (walk vdec b) <= length b / 3 + 1)%nat.
Proof. exact walk_steps_linear. Qed.

(* bounded call depth: holds as soon as the walk is a loop ... *)
Theorem C03_bounded_depth_partial : PARSE_IS_RECURSIVE = false ->
  forall vdec (b : bytes), (w_depth (walk vdec b) <= 2)%nat.
Proof. exact bounded_depth_partial. Qed.

(* ... and is false while the walk calls itself: n well-formed unknown optional attributes (0x80 0xFE 0x00,
   3n octets, a valid block) need n+1 frames *)
Theorem C03_bounded_depth_refuted : PARSE_IS_RECURSIVE = true ->
  forall vdec (n : nat), exists b : bytes,
    b = enc_block (repeat u254 n) /\ length b = (3 * n)%nat /\ w_depth (walk vdec b) = S n.
Proof. exact bounded_depth_refuted. Qed.

(* one of the two holds in the tree under check (the harness reports which) *)
Theorem C03_bounded_depth_dichotomy :
  (PARSE_IS_RECURSIVE = false /\ forall vdec (b : bytes), (w_depth (walk vdec b) <= 2)%nat)
  \/ (PARSE_IS_RECURSIVE = true /\
      forall vdec (n : nat), exists b : bytes, length b = (3 * n)%nat /\ w_depth (walk vdec b) = S n).
Proof. exact depth_dichotomy. Qed.

(* consequence for the decoder while the walk calls itself: whatever stack is left (`limit` frames), a valid
   UPDATE of 3*limit+4 octets raises RecursionError *)
Theorem C03_recursion_crash : forall vdec addpath (limit : nat), PARSE_IS_RECURSIVE = true ->
  (1 <= limit)%nat -> 3 * Z.of_nat limit < 65536 ->
  dec_update vdec addpath limit (attr_only (enc_block (repeat u254 limit))) = PyError K_RECURSION.
Proof. exact recursion_crash. Qed.

(* any number of well-formed unknown attributes is walked, one step each, never refused, nothing marked *)
Theorem C03_valid_unknown_attrs_not_refused : forall vdec (l : list pattr),
  Forall unknown_attr l ->
  exists seen, w_out (walk vdec (enc_block l)) = WOk seen false /\
               w_steps (walk vdec (enc_block l)) = S (length l).
Proof. exact unknown_attrs_walked. Qed.

(* ... and the UPDATE that carries them is decoded, when the stack allows it (always, once the walk is a loop) *)
Theorem C03_valid_unknown_attrs_decoded : forall vdec addpath limit (l : list pattr),
  Forall unknown_attr l -> len (enc_block l) < 65536 -> l <> [] ->
  enough_stack limit (enc_block l) ->
  dec_update vdec addpath limit (attr_only (enc_block l)) = Decoded 2.
Proof. exact unknown_attrs_decoded. Qed.

(* every message type, every body: decoded, or refused with a defined (code, subcode); never another error.
   Hypotheses: the contracts of the abstracted value decoders, enough stack (a loop, or a body of at most
   3*(limit-1) octets), not a ROUTE-REFRESH whose subtype is not 0, 1 or 2, and not an OPERATIONAL advisory while
   its constructor refuses the buffer it is handed (see the two refutations below) *)
Theorem C03_only_defined_outcomes_partial : forall vdec capv addpath limit ty (b : bytes),
  vdec_contract vdec -> capv_contract capv -> enough_stack limit b ->
  ~ refresh_unknown_subtype ty b -> advisory_decodable ty b ->
  match dec_message vdec capv addpath limit ty b with
  | Decoded _ => True
  | Refused c s => rfc_defined c s = true
  | PyError _ => False
  end.
Proof. exact message_defined. Qed.

(* the unrestricted statement is false: ROUTE-REFRESH afi 1, subtype 3, safi 1 is answered 7/2, a subcode no RFC
   defines (RFC 7313 says such a message is ignored) *)
Theorem C03_only_defined_outcomes_refuted : forall vdec capv addpath limit,
  dec_message vdec capv addpath limit 5 [0; 1; 3; 1] = Refused 7 2 /\ rfc_defined 7 2 = false.
Proof. exact refresh_subtype_refused. Qed.

(* ... and while Advisory.ADM/ASM.__init__ only converts `bytes` and `str`, an advisory (ADM, afi 1 safi 1, text "\001")
   read from the network (a memoryview) raises AttributeError *)
Theorem C03_advisory_crash : forall vdec capv addpath limit, ADVISORY_ACCEPTS_BUFFER = false ->
  dec_message vdec capv addpath limit 6 [0; 1; 0; 3; 0; 1; 1] = PyError K_ATTRIBUTE.
Proof. exact advisory_crash. Qed.

(* the split refuses exactly when the two length fields do not fit, and otherwise cuts the body where they say *)
Theorem C03_sections : forall b : bytes, byte_list b ->
  (sections_fit b = true ->
     exists w a r, split b = SOk w a r /\ len w = u16 b 0 /\ len a = u16 b (2 + u16 b 0) /\
       b = firstn 2 b ++ w ++ firstn 2 (skipn (Z.to_nat (2 + u16 b 0)) b) ++ a ++ r)
  /\ (sections_fit b = false ->
        (len b < 4 /\ split b = SRefused 1 2) \/ (4 <= len b /\ split b = SRefused 3 1)).
Proof. exact sections_exact. Qed.

(* loop iterations / calls of the whole decoder of a message are linear in its size *)
Theorem C03_linear_steps : forall vdec capv addpath ty (b : bytes),
  capv_contract capv -> byte_list b ->
  (message_steps vdec capv addpath ty b <= length b + 2)%nat.
Proof. exact message_steps_linear. Qed.

(* non-vacuity: ORIGIN IGP, a truncated MED (treat-as-withdraw), two unknown optional attributes and 10.0.0.0/8 *)
Example C03_example :
  dec_update vdec_basic false 100
    ([0; 0; 0; 17] ++ [64; 1; 1; 0] ++ [128; 4; 2; 0; 0] ++ [128; 254; 0] ++ [192; 253; 2; 9; 9] ++ [8; 10])
  = Decoded 2
  /\ walk vdec_basic ([64; 1; 1; 0] ++ [128; 4; 2; 0; 0] ++ [128; 254; 0] ++ [192; 253; 2; 9; 9])
     = mkW (WOk [253; 1] true) 5 (if PARSE_IS_RECURSIVE then 5 else 1).
Proof. split; vm_compute; reflexivity. Qed.

Print Assumptions C03_walk_terminates_linear.
Print Assumptions C03_bounded_depth_partial.
Print Assumptions C03_bounded_depth_refuted.
Print Assumptions C03_bounded_depth_dichotomy.
Print Assumptions C03_recursion_crash.
Print Assumptions C03_valid_unknown_attrs_not_refused.
Print Assumptions C03_valid_unknown_attrs_decoded.
Print Assumptions C03_only_defined_outcomes_partial.
Print Assumptions C03_only_defined_outcomes_refuted.
Print Assumptions C03_advisory_crash.
Print Assumptions C03_sections.
Print Assumptions C03_linear_steps.

(* ------------------------------------------------------------------ the value decoders that are modelled keep the contract.
   capv_open = Model_Open.parse_cap (C07); vdec_full = Model_Update.unpack_value (C02/C08) for ORIGIN, AS_PATH, NEXT_HOP,
   MED, LOCAL_PREF, ATOMIC_AGGREGATE, AGGREGATOR, COMMUNITY, ORIGINATOR_ID, CLUSTER_LIST, MP_REACH / MP_UNREACH framing,
   EXTENDED_COMMUNITY (v4, v6), AS4_PATH, AS4_AGGREGATOR, LARGE_COMMUNITY, plus the AIGP walk of Model_RobustInst;
   `opq` stands for the four decoders that remain opaque (PMSI 22, TUNNEL_ENCAP 23, BGP-LS 29, PREFIX_SID 40) *)

Theorem C03_capability_decoders_keep_contract : capv_contract capv_open.
Proof. exact capv_open_contract. Qed.

(* OPEN, no hypothesis left: decoded, or refused with an RFC-defined code *)
Theorem C03_open_only_defined_outcomes : forall b : bytes,
  match dec_open capv_open b with
  | Decoded _ => True
  | Refused c s => rfc_defined c s = true
  | PyError _ => False
  end.
Proof. exact open_defined_inst. Qed.

(* EXTNH_PER_FAMILY (regenerated by T5): the tree widens the next hop lengths per <AFI, SAFI> of the extended next hop
   capability; with the older rule MPRNLRI.unpack_attribute could raise KeyError and the statement is false *)
Theorem C03_attribute_decoders_keep_contract : forall opq s aigp_on,
  EXTNH_PER_FAMILY = true -> opq_contract opq -> vdec_contract (vdec_full opq s aigp_on).
Proof. exact vdec_full_contract. Qed.

Theorem C03_only_defined_outcomes_instantiated : forall opq s aigp_on addpath limit ty (b : bytes),
  EXTNH_PER_FAMILY = true -> opq_contract opq -> enough_stack limit b ->
  ~ refresh_unknown_subtype ty b -> advisory_decodable ty b ->
  match dec_message (vdec_full opq s aigp_on) capv_open addpath limit ty b with
  | Decoded _ => True
  | Refused c s => rfc_defined c s = true
  | PyError _ => False
  end.
Proof. exact message_defined_inst. Qed.

Theorem C03_linear_steps_instantiated : forall vdec addpath ty (b : bytes), byte_list b ->
  (message_steps vdec capv_open addpath ty b <= length b + 2)%nat.
Proof. exact message_steps_inst. Qed.

(* AIGP (RFC 7311): the TLV walk of AIGPBase.from_packet takes at most one step per three octets, never runs out of
   fuel (more fuel than the length changes nothing), and an attribute repeating the AIGP TLV is accepted *)
Theorem C03_aigp_walk_linear : forall d : bytes, (snd (aigp_walk d) <= length d / 3 + 1)%nat.
Proof. exact aigp_walk_linear. Qed.

Theorem C03_aigp_walk_terminates : forall f1 f2 found (d : bytes), (length d <= f1)%nat -> (length d <= f2)%nat ->
  aigp_f f1 found d = aigp_f f2 found d.
Proof. exact aigp_f_fuel. Qed.

Theorem C03_aigp_repeated_tlv_accepted : forall (ms : list bytes) fuel found,
  Forall (fun m => length m = 8%nat) ms -> (length (flat_map aigp_tlv ms) <= fuel)%nat ->
  fst (aigp_f fuel found (flat_map aigp_tlv ms)) = Some (found || negb (Nat.eqb (length ms) 0)).
Proof. exact aigp_repeated_ok. Qed.

(* non-vacuity: the AIGP TLV twice, then an unknown TLV: accepted in three steps *)
Example C03_aigp_example :
  aigp_walk ([1; 0; 11; 0; 0; 0; 0; 0; 0; 0; 5] ++ [1; 0; 11; 0; 0; 0; 0; 0; 0; 0; 9] ++ [2; 0; 5; 170; 187]) = (Some true, 3%nat).
Proof. vm_compute. reflexivity. Qed.

Print Assumptions C03_capability_decoders_keep_contract.
Print Assumptions C03_open_only_defined_outcomes.
Print Assumptions C03_attribute_decoders_keep_contract.
Print Assumptions C03_only_defined_outcomes_instantiated.
Print Assumptions C03_linear_steps_instantiated.
Print Assumptions C03_aigp_walk_linear.
Print Assumptions C03_aigp_walk_terminates.
Print Assumptions C03_aigp_repeated_tlv_accepted.
