(* C07 - Negotiated session parameters are the RFC function of the two OPENs.
   Statements only; every proof is `exact <lemma>`; assumptions are printed.

   Vocabulary.  `open_of c` is the OPEN ExaBGP builds from the neighbor configuration `c` (Capabilities.new +
   Open.make_open); `r` is the peer's OPEN: arbitrary fixed fields and ANY list of capabilities (any order,
   repetition, unknown codes).  `negotiate_g fx s r` models Negotiated._negotiate; the switch `fx` is the one
   behaviour that differs between the unrepaired tree (false: local_as is the 2-octet field of the OPEN we sent)
   and the repaired one (true: the value of the ASN4 capability we sent when the field is AS_TRANS); translator
   T6 probes the tree and sets Gen_Registry.LOCAL_AS_FROM_CAP, `negotiate` is `negotiate_g LOCAL_AS_FROM_CAP`.
   `fy` / COLLISION_ON_TRUE_AS is the same for the iBGP identifier collision test of Negotiated.validate.
   `view` reads off an OPEN what it advertises (Spec_Open.adv); `rfc_negotiate`, `rfc_faults` are Spec_Open. *)
From Coq Require Import ZArith Bool List.
From ExaV Require Import gen.Gen_Registry model.Model_Open spec.Spec_Open proofs.Proofs_Open.
Import ListNotations.
Open Scope Z_scope.

(* The OPEN we send advertises exactly what the configuration enables. *)
Theorem C07_advertises_exactly_config : forall c, view (open_of c) = our_adv c.
Proof. exact view_open_of. Qed.

(* Field by field (families in order, asn4, both AS numbers, ADD-PATH send/receive for EVERY family, extended
   next hop, refresh flavour, message size, hold time, paths-limit in both directions for EVERY family) the modelled Negotiated is the RFC function, for all
   configurations and all peer OPENs; for the unrepaired behaviour only when the local AS fits 16 bits. *)
Theorem C07_negotiate_is_rfc : forall fx c r,
  wf_cfg c -> wf_peer r -> fx = true \/ c_local_as c <= 65535 ->
  agrees (negotiate_g fx (open_of c) r) (rfc_negotiate (our_adv c) (view r)).
Proof. exact negotiate_is_rfc. Qed.

(* ... which for the tree under check reads: *)
Theorem C07_negotiate_is_rfc_this_tree : forall c r,
  wf_cfg c -> wf_peer r -> LOCAL_AS_FROM_CAP = true \/ c_local_as c <= 65535 ->
  agrees (negotiate c r) (rfc_negotiate (our_adv c) (view r)).
Proof. exact negotiate_this_tree. Qed.

(* `local-as auto`: with the repaired Protocol.new_open (T6 probe AUTO_AS_FROM_PEER_CAP) our OPEN is the one of the
   configuration whose local AS is the peer's true AS, so both negotiated AS numbers are that AS (an internal
   session) and every other field is the RFC function as above. *)
Theorem C07_local_as_auto : forall c r,
  c_local_as c = 0 -> AUTO_AS_FROM_PEER_CAP = true -> c_asn4 c = true ->
  wf_cfg (with_local_as c (true_as (view r))) -> wf_peer r ->
  let n := negotiate_g true (our_open c r) r in
  n_local_as n = true_as (view r) /\ n_peer_as n = true_as (view r)
  /\ agrees n (rfc_negotiate (our_adv (with_local_as c (true_as (view r)))) (view r)).
Proof. exact auto_is_ibgp. Qed.

(* The unrepaired behaviour does not meet the full statement: local AS 70000 is negotiated as 23456. *)
Theorem C07_local_as_refuted :
  exists c r, wf_cfg c /\ wf_peer r /\
    n_local_as (negotiate_g false (open_of c) r) = 23456 /\ p_local_as (rfc_negotiate (our_adv c) (view r)) = 70000.
Proof. exact local_as_refuted. Qed.

Theorem C07_families_intersection : forall fx c r f,
  let n := negotiate_g fx (open_of c) r in
  (In f (n_families n) <-> In f (c_families c) /\ In f (mp_of (o_caps r))) /\ NoDup (n_families n).
Proof. exact families_intersection. Qed.

Theorem C07_holdtime_min : forall fx c r,
  n_holdtime (negotiate_g fx (open_of c) r) = Z.min (c_hold c) (o_hold r).
Proof. exact holdtime_min. Qed.

Theorem C07_msg_size : forall fx c r,
  n_msg_size (negotiate_g fx (open_of c) r) = if c_extmsg c && existsb is_ext (o_caps r) then 65535 else 4096.
Proof. exact msg_size_both. Qed.

(* we send several paths for f iff we said Send and the peer's (last) tuple for f says Receive; symmetric for receive *)
Theorem C07_addpath_direction : forall fx c r f,
  wf_cfg c -> sr_ok (ap_of (o_caps r)) ->
  let n := negotiate_g fx (open_of c) r in
  ap_lookup (n_ap_send n) f = can_send (send_receive (our_adv c) f) && can_receive (send_receive (view r) f)
  /\ ap_lookup (n_ap_recv n) f = can_receive (send_receive (our_adv c) f) && can_send (send_receive (view r) f).
Proof. exact addpath_direction. Qed.

(* multi-session (draft-ietf-idr-bgp-multisession): Negotiated.multisession is a refusal exactly when the draft
   names a fault - 2/9 when we require grouping and the peer does not offer it, 2/8 when the groups differ *)
Theorem C07_multisession : forall fx c r, wf_cfg c ->
  match n_ms (negotiate_g fx (open_of c) r) with
  | MsRefuse a b => ms_faults (our_adv c) (view r) = [(a, b)]
  | _ => ms_faults (our_adv c) (view r) = []
  end.
Proof. exact ms_agrees. Qed.

(* Negotiated.validate refuses exactly when the RFCs name a fault, with the subcode of one of the faults present
   (peer AS mismatch 2/2, identifier 0.0.0.0 or equal identifier on an internal session 2/3, hold time 1 or 2 -> 2/6,
   multi-session grouping 2/8 and 2/9);
   unrepaired collision test only for a 16 bit local AS. *)
Theorem C07_refusals : forall fx fy c r,
  wf_cfg c -> wf_peer r -> o_version r = 4 ->
  fx = true \/ c_local_as c <= 65535 -> fy = true \/ c_local_as c <= 65535 ->
  let v := validate_g fy c r (negotiate_g fx (open_of c) r) in
  let F := rfc_faults (c_peer_as c) (c_rid c) (our_adv c) (view r) in
  (forall x, v = Some x -> In x F) /\ (v = None -> F = []).
Proof. exact refusals. Qed.

Theorem C07_collision_refuted :
  exists c r, wf_cfg c /\ wf_peer r /\ o_version r = 4 /\
    validate_g false c r (negotiate_g true (open_of c) r) = None /\
    rfc_faults (c_peer_as c) (c_rid c) (our_adv c) (view r) = [(2, 3)].
Proof. exact collision_refuted. Qed.

Theorem C07_short_open : forall b, len b < OPEN_MINIMUM_BODY_SIZE -> dec_open b = Notify 1 2.
Proof. exact short_open_refused. Qed.

Theorem C07_bad_version : forall b,
  OPEN_MINIMUM_BODY_SIZE <= len b -> nth 0 b 0 <> BGP_VERSION -> dec_open b = Notify 2 1.
Proof. exact bad_version_refused. Qed.

(* an optional parameter of unknown type is answered 2/UNKNOWN_PARAM_SUBCODE: the value T6 probed on this tree;
   RFC 4271 6.2 requires 4 (unsupported optional parameter), the harness demands it on the implementation *)
Theorem C07_unknown_parameter : forall fixed key v rest,
  length fixed = 9%nat -> nth 0 fixed 0 = BGP_VERSION -> key <> PARAM_AUTH -> key <> PARAM_CAPABILITIES ->
  key <> EXTENDED_LENGTH -> len (key :: len v :: v ++ rest) < 255 ->
  dec_open (fixed ++ len (key :: len v :: v ++ rest) :: key :: len v :: v ++ rest) = Notify 2 UNKNOWN_PARAM_SUBCODE.
Proof. exact unknown_param_refused. Qed.

(* Capability framing round trip, for EVERY list of capabilities (any number, so both the RFC 4271 encoding and,
   from 255 octets of optional parameters on, the RFC 9072 one) and every fixed fields. *)
Theorem C07_open_roundtrip : forall o, wf_open o -> dec_open (enc_open o) = Ok o.
Proof. exact open_roundtrip. Qed.

Theorem C07_our_open_roundtrip : forall c,
  Forall (fun f : fam => 0 <= snd f < 256) (c_families c) -> dec_open (enc_open (open_of c)) = Ok (open_of c).
Proof. exact our_open_roundtrip. Qed.

(* RFC 9072 s.2: the extended encoding is selected by the type octet (255) alone; the length octet before it is any
   non-zero value and is ignored.  With the repaired selection (T6 probe EXT_BY_TYPE_OCTET) the modelled decoder
   selects exactly that, and reads every list of capabilities whatever that octet is; the unrepaired selection
   (both octets 255) reads the witness of the last statement in the base encoding. *)
Theorem C07_rfc9072_selection : forall d,
  EXT_BY_TYPE_OCTET = true -> 4 <= len d -> ext_selected d = rfc9072_extended d.
Proof. exact ext_selection_is_rfc. Qed.

Theorem C07_rfc9072_any_length_octet : forall caps L,
  EXT_BY_TYPE_OCTET = true -> L <> 0 -> Forall wf_cap caps ->
  let q := flat_map enc_param2 (map enc_cap caps) in
  dec_optparams (L :: OPEN_EXTENDED_MARKER :: be16 (len q) ++ q) = Ok caps.
Proof. exact ext_any_length_octet. Qed.

Theorem C07_rfc9072_length_octet_witness :
  ext_selected [4; 255; 0; 5; 2; 0; 2; 2; 0] = EXT_BY_TYPE_OCTET /\ rfc9072_extended [4; 255; 0; 5; 2; 0; 2; 2; 0] = true.
Proof. exact ext_length_octet_refuted. Qed.

(* The encoding is a string of octets whenever the values fit their wire fields (each capability value at most
   253 octets so that its parameter fits one length octet, optional parameters at most 65535 octets). *)
Theorem C07_enc_open_bytes : forall o, fits_open o -> bytes (enc_open o).
Proof. exact enc_open_bytes. Qed.

(* Total decoder: ANY octet string is either refused with a defined error - Bad Message Length 1/2, OPEN Message
   Error 2/0 (malformed optional parameters or capability value), 2/1 (version), 2/4 (unknown parameter, once
   repaired), 2/5 (authentication parameter) -
   or decoded into an OPEN o whose encoding decodes again, to the normal form of o (tuples the encoder never
   emits - ADD-PATH Send/Receive 0, paths-limit 0 - removed), which is a fixed point of encode then decode.
   In particular the decoder never runs out of fuel and raises nothing else. *)
Theorem C07_decoder_total : forall b, bytes b ->
  match dec_open b with
  | Notify a c => In (a, c) [(1, 2); (2, 0); (2, 1); (2, 4); (2, 5)]
  | Ok o => dec_open (enc_open o) = Ok (norm_open o)
            /\ dec_open (enc_open (norm_open o)) = Ok (norm_open o)
  end.
Proof. exact dec_open_total. Qed.

(* non-vacuity: hypotheses are met by concrete values; a configuration whose OPEN needs RFC 9072 *)
Definition cfg_big : cfg :=
  {| c_local_as := 70000; c_peer_as := 65001; c_rid := 16909060; c_hold := 180;
     c_families := [(1,1);(1,2);(1,4);(1,5);(1,73);(1,85);(1,128);(1,132);(1,133);(1,134);(2,1);(2,2);(2,4);(2,5);(2,73);(2,85);(2,128);(2,133);(2,134);(25,65);(25,70);(16388,71);(16388,72)];
     c_asn4 := true; c_nexthop := true; c_nexthops := [(1,1,2)]; c_addpath := 3; c_addpaths := [(1,1);(2,1)];
     c_gr := true; c_gr_time := 120; c_restarted := false; c_refresh := true; c_operational := false; c_extmsg := true;
     c_host := [109;121]; c_domain := [100]; c_software := [69;120;97]; c_linklocal := false;
     c_paths_limit := [((1,1), 10)]; c_multisession := true |}.

Example C07_example :
  wf_cfg cfg_70000 /\ wf_peer peer_65001
  /\ n_families (negotiate_g true (open_of cfg_70000) peer_65001) = [(1, 1)]
  /\ n_local_as (negotiate_g true (open_of cfg_70000) peer_65001) = 70000
  /\ validate_g true cfg_ibgp_70000 peer_70000_same_id (negotiate_g true (open_of cfg_ibgp_70000) peer_70000_same_id) = Some (2, 3)
  /\ nth 9 (enc_open (open_of cfg_big)) 0 = 255 /\ nth 10 (enc_open (open_of cfg_big)) 0 = 255
  /\ dec_open (enc_open (open_of cfg_big)) = Ok (open_of cfg_big)
  /\ forallb (fun x => (0 <=? x) && (x <? 256)) (enc_open (open_of cfg_big)) = true
  /\ n_ms (negotiate_g true (open_of cfg_big) peer_65001) = MsRefuse 2 9
  /\ pl_lookup (n_adv_paths_limit (negotiate_g true (open_of cfg_big)
        {| o_version := 4; o_asn := 65001; o_hold := 90; o_rid := 5; o_caps := [CapAddPath [((1, 1), 2)]] |})) (1, 1) = Some 10.
Proof.
  split; [exact wf_cfg_70000|]. split; [exact wf_peer_65001|]. vm_compute. repeat split; reflexivity.
Qed.

Print Assumptions C07_advertises_exactly_config.
Print Assumptions C07_negotiate_is_rfc.
Print Assumptions C07_negotiate_is_rfc_this_tree.
Print Assumptions C07_local_as_auto.
Print Assumptions C07_local_as_refuted.
Print Assumptions C07_families_intersection.
Print Assumptions C07_holdtime_min.
Print Assumptions C07_msg_size.
Print Assumptions C07_addpath_direction.
Print Assumptions C07_multisession.
Print Assumptions C07_refusals.
Print Assumptions C07_collision_refuted.
Print Assumptions C07_unknown_parameter.
Print Assumptions C07_short_open.
Print Assumptions C07_bad_version.
Print Assumptions C07_open_roundtrip.
Print Assumptions C07_our_open_roundtrip.
Print Assumptions C07_rfc9072_selection.
Print Assumptions C07_rfc9072_any_length_octet.
Print Assumptions C07_rfc9072_length_octet_witness.
Print Assumptions C07_enc_open_bytes.
Print Assumptions C07_decoder_total.
