(* C09 - Generated UPDATEs fit the negotiated size and lose nothing.  Statements only.

   split_bytes M attr v4a v4w fams  is Model_Split.messages for the code WITH the proposed D12 patch
   (harness/c09.py ties it to /repo: on the pinned tree the correspondence fails exactly on the
   defect inputs); split_bytes_pinned is the same function for the pinned code (fixed = false).
   NLRIs, next hops and the attribute block are byte strings (list Z); M is negotiated.msg_size;
   v4a/v4w = IPv4 announces/withdraws, fams = per MP family (tag, [(next hop, nlri)], [withdrawn nlri])
   in the order messages() visits them; room M attr = M - 19 - 2 - 2 - len attr. *)
From Coq Require Import ZArith Bool List Permutation.
From ExaV Require Import spec.Spec_Split model.Model_Split proofs.Proofs_Split.
Import ListNotations.
Open Scope Z_scope.

(* every message, for every input: wire length <= negotiated maximum *)
Theorem C09_fits : forall M attr v4a v4w fams,
  fits zlen zlen (zlen attr) M (fst (split_bytes M attr v4a v4w fams)).
Proof. exact bytes_fits. Qed.

(* messages() never raises, whatever the input *)
Theorem C09_no_exception : forall M attr v4a v4w fams,
  snd (split_bytes M attr v4a v4w fams) <> Raised.
Proof. exact bytes_never_raise. Qed.

(* when every NLRI fits on its own in the room left by the attributes, nothing is lost, nothing is
   added, nothing is repeated: the IPv4 fields concatenate to the request in order, the MP_REACH
   contents are the requested (family, next hop, nlri) triples as a multiset (each under its own
   next hop), the MP_UNREACH contents are the requested withdraws in order, and every message
   that announces carries the attributes *)
Theorem C09_complete : forall M attr v4a v4w fams,
  0 < room M attr ->
  fits_alone zlen zlen (room M attr) v4a v4w fams ->
  let r := split_bytes M attr v4a v4w fams in
  snd r = Done /\
  announced_v4 (fst r) = v4a /\
  withdrawn_v4 (fst r) = v4w /\
  Permutation (announced_mp (fst r)) (requested_mp fams) /\
  withdrawn_mp (fst r) = requested_mp_wd fams /\
  attrs_where_needed (fst r).
Proof. exact bytes_complete. Qed.

(* when the attributes leave no room for even one prefix: no message, and no exception *)
Theorem C09_no_room_no_message : forall M attr v4a v4w fams,
  none_fits zlen zlen (room M attr) v4a v4w fams ->
  fst (split_bytes M attr v4a v4w fams) = [] /\ snd (split_bytes M attr v4a v4w fams) <> Raised.
Proof. exact bytes_no_room. Qed.

(* the attribute block.  messages() packs it once, with or without the default attributes
   (split_bytes_top mirrors that choice: what it returns is split_bytes on the chosen block, so the
   four theorems above apply to it), and whenever the collection announces anything - an IPv4 prefix
   or an MP route - the block is the requested attributes with the defaults: together with
   attrs_where_needed of C09_complete, every message that announces carries the requested attributes *)
Theorem C09_top_is_split : forall simple M attr_full attr_min v4a v4w fams,
  fst (split_bytes_top simple M attr_full attr_min v4a v4w fams) =
  split_bytes M (if snd (split_bytes_top simple M attr_full attr_min v4a v4w fams)
                 then attr_full else attr_min) v4a v4w fams.
Proof. exact bytes_top_is_split. Qed.

Theorem C09_announces_carry_requested_attributes : forall simple M attr_full attr_min v4a v4w fams,
  v4a <> [] \/ requested_mp fams <> [] ->
  snd (split_bytes_top simple M attr_full attr_min v4a v4w fams) = true.
Proof. intros. apply include_defaults_when_announcing. assumption. Qed.

(* ---- the pinned code (defect D12), kept as machine-checked witnesses ---- *)

(* C09_fits is false of the pinned code: msg_size 4096, 4069 bytes of attributes (room 4), IPv4
   NLRIs of 4 then 5 bytes: the second message is 4097 bytes long *)
Theorem C09_fits_refuted_pinned : exists M attr v4a v4w fams m,
  In m (fst (split_bytes_pinned M attr v4a v4w fams)) /\ M < wire_size zlen zlen (zlen attr) m.
Proof.
  exists 4096, (blob 4069), [nlri_of 4; nlri_of 5], [], [].
  apply (exists_oversize _ _ 4097); [rewrite pinned_v4_oversize; right; left; reflexivity | reflexivity].
Qed.

(* ... and on the MP path: room 26, next hop of 16 bytes, NLRIs of 2 then 17 bytes: 4111 bytes *)
Theorem C09_fits_refuted_pinned_mp : exists M attr v4a v4w fams m,
  In m (fst (split_bytes_pinned M attr v4a v4w fams)) /\ M < wire_size zlen zlen (zlen attr) m.
Proof.
  exists 4096, (blob 4047), [], [], [(2, [(nh16, nlri_of 2); (nh16, nlri_of 17)], [])].
  apply (exists_oversize _ _ 4111); [rewrite pinned_reach_oversize; right; left; reflexivity | reflexivity].
Qed.

(* C09_no_room_no_message is false of the pinned code: RuntimeError *)
Theorem C09_no_room_refuted_pinned : exists M attr v4a v4w fams,
  none_fits zlen zlen (room M attr) v4a v4w fams /\
  snd (split_bytes_pinned M attr v4a v4w fams) = Raised.
Proof.
  exists 4096, (blob 4047), [], [], [(2, [(nh16, nlri_of 17)], [])].
  split; [|vm_compute; reflexivity].
  split; [intros x []|]. split.
  - intros f routed wds nh x [H|[]] Hx. inversion H; subst. destruct Hx as [Hx|[]].
    inversion Hx; subst. vm_compute. reflexivity.
  - intros f routed wds x [H|[]] Hx. inversion H; subst. destruct Hx.
Qed.

(* C09_complete is false of the pinned code even with room to spare (room 100, every NLRI fits
   alone): an MP_REACH of 94 bytes is pending, the first withdraw needs 8 of the 6 bytes left *)
Theorem C09_complete_refuted_pinned : exists M attr v4a v4w fams,
  0 < room M attr /\ fits_alone zlen zlen (room M attr) v4a v4w fams /\
  snd (split_bytes_pinned M attr v4a v4w fams) = Raised.
Proof.
  exists 4096, (blob 3973), [], [], [(2, [(nh16, nlri_of 70)], [nlri_of 2])].
  split; [vm_compute; reflexivity|]. split; [|vm_compute; reflexivity].
  split; [intros x []|]. split.
  - intros f routed wds nh x [H|[]] Hx. inversion H; subst. destruct Hx as [Hx|[]].
    inversion Hx; subst. vm_compute. split; [reflexivity | discriminate].
  - intros f routed wds x [H|[]] Hx. inversion H; subst. destruct Hx as [Hx|[]]. subst x.
    vm_compute. split; [reflexivity | discriminate].
Qed.

(* non-vacuity: the hypotheses of C09_complete hold of a mixed request that needs several messages *)
Example C09_hypotheses_satisfiable :
  let M := 4096 in let attr := blob 4000 in
  let v4a := [nlri_of 5; nlri_of 4; nlri_of 5] in let v4w := [nlri_of 3] in
  let fams := [(2, [(nh16, nlri_of 17); (nh16 ++ nh16, nlri_of 9); (nh16, nlri_of 17)], [nlri_of 17; nlri_of 2])] in
  0 < room M attr /\ fits_alone zlen zlen (room M attr) v4a v4w fams /\
  (length (fst (split_bytes M attr v4a v4w fams)) = 4)%nat.
Proof.
  cbv zeta. split; [vm_compute; reflexivity|]. split; [|vm_compute; reflexivity].
  split; [|split].
  - intros x Hx. cbn [app] in Hx.
    repeat (destruct Hx as [<-|Hx]; [vm_compute; split; [reflexivity|discriminate]|]). destruct Hx.
  - intros f routed wds nh x [H|[]] Hx. inversion H; subst.
    repeat (destruct Hx as [Hx|Hx]; [inversion Hx; subst; vm_compute; split; [reflexivity|discriminate]|]).
    destruct Hx.
  - intros f routed wds x [H|[]] Hx. inversion H; subst.
    repeat (destruct Hx as [<-|Hx]; [vm_compute; split; [reflexivity|discriminate]|]). destruct Hx.
Qed.

Print Assumptions C09_fits.
Print Assumptions C09_no_exception.
Print Assumptions C09_complete.
Print Assumptions C09_no_room_no_message.
Print Assumptions C09_top_is_split.
Print Assumptions C09_announces_carry_requested_attributes.
Print Assumptions C09_fits_refuted_pinned.
Print Assumptions C09_fits_refuted_pinned_mp.
Print Assumptions C09_no_room_refuted_pinned.
Print Assumptions C09_complete_refuted_pinned.
