(* C08 - Malformed attributes never yield announced routes (RFC 7606).
   Statements only; every proof is `exact <lemma>`; assumptions are printed.
   dec_update is the REPAIRED generation of the decoder (Model_Update, fixed = true: proposed repairs R1-R6),
   dec_update_pinned the pinned tree, on which the statements are refuted by concrete UPDATEs.
   no_announce o: o is a NOTIFICATION (Refused), or an untyped exception of an abstracted value decoder
   (PyError), or a decoded UPDATE with no announced route and the treat-as-withdraw mark; never End-of-RIB. *)
From Coq Require Import ZArith Bool List.
From ExaV Require Import gen.Gen_AttrTable gen.Gen_NlriRegistry model.Model_Nlri model.Model_Update spec.Spec_Wire
  proofs.Proofs_Nlri proofs.Proofs_Update proofs.Proofs_Update2 proofs.Proofs_Update3 proofs.Proofs_Update4 proofs.Proofs_Update5.
Import ListNotations.
Open Scope Z_scope.

(* ---- an attribute whose declared length overruns the attribute block (or whose header is cut by the end of
   the block: Spec_Wire.tlvs = None) is never accepted as a shorter attribute: for ALL byte strings b whose two
   length fields fit, nothing is announced *)
Theorem C08_no_overrun : forall opq s b wb ab nb,
  sections b = Some (wb, ab, nb) -> tlvs (length ab) ab = None -> no_announce (dec_update opq s b).
Proof. exact no_overrun. Qed.

(* the pinned tree: COMMUNITY declaring 8 bytes with 4 left is decoded as one community, the route announced *)
Theorem C08_no_overrun_refuted :
  exists wb ab nb, sections w_overrun = Some (wb, ab, nb) /\ tlvs (length ab) ab = None
  /\ announces (dec_update_pinned no_opq s_v4 w_overrun) = [(mkN 1 1 None [] [] 24 [10;1;2], [10;0;0;1])]
  /\ aget (attrs_of (dec_update_pinned no_opq s_v4 w_overrun)) A_COMMUNITY = Some (mkA 8 192 (VBytes [253;232;0;1]))
  /\ ahas (attrs_of (dec_update_pinned no_opq s_v4 w_overrun)) CODE_TREAT_AS_WITHDRAW = false.
Proof. exact w_overrun_pinned. Qed.

(* ---- RFC 7606, treat-as-withdraw types.  b: any byte string of bytes; l the TLVs of its attribute block; r the
   first attribute carrying its code; its type one of ORIGIN, NEXT_HOP, MED, LOCAL_PREF, COMMUNITY, ORIGINATOR_ID,
   CLUSTER_LIST, EXTENDED_COMMUNITY, IPV6_EXTENDED_COMMUNITY, LARGE_COMMUNITY; r malformed per RFC 7606 (Optional /
   Transitive bits in conflict with the type, or the length / value rule of the type broken).  Then the session is
   reset or nothing is announced.  (AS_PATH / AS4_PATH segment structure, the discard types and the MP attributes
   are judged by the correspondence and the property oracle of harness/c08.py only.)
   `In (r_code r) taw_codes` is the hypothesis that keeps AS_PATH / AS4_PATH out: see C08_rfc7606_refuted. *)
Theorem C08_rfc7606_partial : forall opq s other b wb ab nb l r,
  wfb b -> sections b = Some (wb, ab, nb) -> tlvs (length ab) ab = Some l ->
  find_raw l (r_code r) = Some r -> In (r_code r) taw_codes ->
  flags_conflict (r_code r) (r_flags r) || value_malformed other (s_asn4 s) (r_code r) (r_val r) = true ->
  no_announce (dec_update opq s b).
Proof. exact rfc7606_taw. Qed.

(* ---- RFC 7606 7.11 / RFC 4760, the MP attributes.  Sessions of the unicast, multicast and labelled IP families
   (plain_sess), any ADD-PATH / RFC 8950 negotiation; b any byte string of bytes other than the 11-octet End-of-RIB
   marker; r the first MP_REACH_NLRI (14) or MP_UNREACH_NLRI (15) of the block; malformed for the reference: Optional /
   Transitive bits in conflict, or MP_REACH framing broken (shorter than its fixed fields, family not negotiated,
   Length of Next Hop not one the <AFI, SAFI> allows with the negotiated RFC 8950 rows, next hop running past the
   attribute), or MP_UNREACH shorter than 3 octets / family not negotiated.  Then the session is reset or nothing is
   announced.  (mpls-vpn families: C08_rfc7606_mp_vpn_partial below.) *)
Theorem C08_rfc7606_mp_partial : forall opq s b wb ab nb l r,
  plain_sess s -> wfb b -> sections b = Some (wb, ab, nb) -> tlvs (length ab) ab = Some l ->
  find_raw l (r_code r) = Some r -> (r_code r = 14 \/ r_code r = 15) ->
  flags_conflict (r_code r) (r_flags r)
  || ((r_code r =? 14) && mp_reach_malformed (rs_of s) (r_val r))
  || ((r_code r =? 15) && mp_unreach_malformed (rs_of s) (r_val r)) = true ->
  (zlen b =? EOR_PREFIX_LENGTH) && is_prefix EOR_PREFIX b = false ->
  no_announce (dec_update opq s b).
Proof. exact rfc7606_mp. Qed.

(* ---- the same for sessions of ALL eight IP families, the mpls-vpn ones included (ip_sess): there the reference also
   demands that the Route Distinguisher in front of the next hop is zero (RFC 4364 4.3.2 / RFC 4659 3.2.1.1) and the
   tree tests `sum(rd) != 0`, which is the same thing for octets (wfb b).  `_partial`: one form is set aside by
   hypothesis, nh40_tolerated - Length of Next Hop 40 on an mpls-vpn route whose next hop may be IPv6 (RD + global +
   link-local, the form ExaBGP wrote itself before the 48 octets of RFC 4659); Family.size lists it on purpose and
   the tree decodes it: C08_vpn_nexthop40_tolerated. *)
Theorem C08_rfc7606_mp_vpn_partial : forall opq s b wb ab nb l r,
  ip_sess s -> wfb b -> sections b = Some (wb, ab, nb) -> tlvs (length ab) ab = Some l ->
  find_raw l (r_code r) = Some r -> (r_code r = 14 \/ r_code r = 15) ->
  flags_conflict (r_code r) (r_flags r)
  || ((r_code r =? 14) && mp_reach_malformed (rs_of s) (r_val r))
  || ((r_code r =? 15) && mp_unreach_malformed (rs_of s) (r_val r)) = true ->
  (r_code r =? 14) && nh40_tolerated (rs_of s) (r_val r) = false ->
  (zlen b =? EOR_PREFIX_LENGTH) && is_prefix EOR_PREFIX b = false ->
  no_announce (dec_update opq s b).
Proof. exact rfc7606_mp_ip. Qed.

(* the form set aside is real: 2/128 with a 40-octet next hop is outside the reference's table and decoded by the tree *)
Theorem C08_vpn_nexthop40_tolerated :
  mp_reach_malformed (rs_of s_vpn6) v_nh40 = true /\ nh40_tolerated (rs_of s_vpn6) v_nh40 = true
  /\ dec_mp_reach s_vpn6 v_nh40 = VOk (VBytes v_nh40).
Proof. exact nh40_witness. Qed.

(* non-vacuity on a VPN session (not a plain one): a next hop whose RD is not zero is refused with 3/0 *)
Example C08_vpn_example :
  ip_sess s_vpn6 /\ ~ plain_sess s_vpn6
  /\ mp_reach_malformed (rs_of s_vpn6) v_rd_nonzero = true /\ nh40_tolerated (rs_of s_vpn6) v_rd_nonzero = false
  /\ dec_update no_opq s_vpn6 w_vpn_rd = Refused 3 0.
Proof. exact vpn_rd_witness. Qed.

(* ---- RFC 7606, attribute discard.  ab: any byte string of bytes (the Path Attributes field) whose TLVs l carry no
   code twice and are each acceptable: well formed for the reference (and of a modelled type), OR a malformed
   ATOMIC_AGGREGATE / AGGREGATOR / AS4_AGGREGATOR (flags in conflict or length rule broken: discardable).  Then either
   the parser refuses (NOTIFICATION, or treat-as-withdraw recorded - the tree does that for a zero-length AGGREGATOR,
   which is stricter), or the collection it builds, the INTERNAL_DISCARD mark left aside, is entry by entry and in order
   the reference's for the block WITHOUT the discardable attributes: exactly those are missing, every other attribute
   is reported as received.  `_partial`: stated on the attribute collection of the walk; that the routes of such an
   UPDATE are then announced and stored unchanged is tied by the correspondence and the oracle of harness/c08.py. *)
Theorem C08_discard_class_partial : forall opq s other ab l,
  ip_sess s -> wfb ab -> tlvs (length ab) ab = Some l ->
  forallb (acceptable other s) l = true -> nodup_codes l = true ->
  parse_refuses (parse (length ab) true opq s ab [])
  \/ exists m, parse (length ab) true opq s ab [] = POk m
       /\ map entry_of (unmarked m) =
          flat_map (full_entry (rs_of s)) (filter (fun r => negb (discardable other s r)) l).
Proof. exact discard_class. Qed.

(* whatever the bytes: a decoded UPDATE that carries the treat-as-withdraw mark announces nothing *)
Theorem C08_treat_as_withdraw_announces_nothing : forall opq s b u,
  dec_update opq s b = Decoded u -> has_taw (u_attrs u) = true -> u_ann u = [].
Proof. exact taw_never_announces. Qed.

(* the pinned tree (defect D5): a MED of length 3 is malformed for the reference, the mark is recorded, and the
   route 10.1.2.0/24 is still announced; the repaired decoder reports it withdrawn *)
Theorem C08_rfc7606_pinned_refuted :
  verdict (fun _ _ => false) (rs_of s_v4) w_med3 = [1;0; 2;0; 3;0; 4;1]
  /\ announces (dec_update_pinned no_opq s_v4 w_med3) = [(mkN 1 1 None [] [] 24 [10;1;2], [10;0;0;1])]
  /\ ahas (attrs_of (dec_update_pinned no_opq s_v4 w_med3)) CODE_TREAT_AS_WITHDRAW = true.
Proof. exact w_med3_pinned. Qed.

(* the REPAIRED decoder, known finding: the statement without the type restriction is false.  AS_PATH ( 65001 )
   followed by a segment of length zero is malformed for the reference (RFC 7606 7.2), yet no mark is recorded, the
   route is announced and the attribute is reported with an empty second segment.  (The tree keeps this behaviour:
   a pinned test writes an empty AS_PATH as the segment `02 00`.) *)
Theorem C08_rfc7606_refuted :
  verdict (fun _ _ => false) (rs_of s_v4) w_zero_seg = [1;0; 2;1; 3;0]
  /\ announces (dec_update no_opq s_v4 w_zero_seg) = [(mkN 1 1 None [] [] 24 [10;1;2], [10;0;0;1])]
  /\ ahas (attrs_of (dec_update no_opq s_v4 w_zero_seg)) CODE_TREAT_AS_WITHDRAW = false
  /\ aget (attrs_of (dec_update no_opq s_v4 w_zero_seg)) A_AS_PATH = Some (mkA 2 64 (VPath true [(2, [65001]); (2, [])])).
Proof. exact w_zero_seg_accepted. Qed.

(* the pinned tree: a COMMUNITY with the Optional bit cleared is dropped without a mark, the route is announced
   without it; the repaired decoder announces nothing *)
Theorem C08_wrong_flags_refuted :
  verdict (fun _ _ => false) (rs_of s_v4) w_flags = [1;0; 2;0; 3;0; 8;1]
  /\ announces (dec_update_pinned no_opq s_v4 w_flags) = [(mkN 1 1 None [] [] 24 [10;1;2], [10;0;0;1])]
  /\ ahas (attrs_of (dec_update_pinned no_opq s_v4 w_flags)) CODE_TREAT_AS_WITHDRAW = false
  /\ aget (attrs_of (dec_update_pinned no_opq s_v4 w_flags)) A_COMMUNITY = None
  /\ announces (dec_update no_opq s_v4 w_flags) = [].
Proof. exact w_flags_pinned. Qed.

(* the pinned tree, discard class: a malformed AGGREGATOR is left out of the event but the whole UPDATE is kept
   from Adj-RIB-In (read_message returns NOP); repaired, the route is stored *)
Theorem C08_discard_drops_update_refuted :
  exists u, dec_update_pinned no_opq s_v4 w_aggr = Decoded u /\ u_ann u <> [] /\ aget (u_attrs u) A_AGGREGATOR = None
  /\ ribin_apply false [] u = [] /\ length (ribin_apply true [] u) = 1%nat.
Proof. exact w_aggr_rib. Qed.

(* non-vacuity: the MED witness meets the hypotheses of C08_rfc7606_partial on the repaired decoder, which withdraws the route *)
Example C08_example :
  exists u, dec_update no_opq s_v4 w_med3 = Decoded u /\ u_ann u = [] /\ u_wd u = [mkN 1 1 None [] [] 24 [10;1;2]].
Proof. exact w_med3_fixed. Qed.

Print Assumptions C08_no_overrun.
Print Assumptions C08_no_overrun_refuted.
Print Assumptions C08_rfc7606_partial.
Print Assumptions C08_rfc7606_mp_partial.
Print Assumptions C08_rfc7606_mp_vpn_partial.
Print Assumptions C08_vpn_nexthop40_tolerated.
Print Assumptions C08_discard_class_partial.
Print Assumptions C08_treat_as_withdraw_announces_nothing.
Print Assumptions C08_rfc7606_pinned_refuted.
Print Assumptions C08_rfc7606_refuted.
Print Assumptions C08_wrong_flags_refuted.
Print Assumptions C08_discard_drops_update_refuted.
