From Coq Require Import ZArith List Bool.
From ExaV Require Import proofs.Proofs_Update.
Theorem C08_placeholder : True. Proof. exact placeholder_true. Qed.
Print Assumptions C08_placeholder.
