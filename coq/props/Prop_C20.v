(* C20 - Healthcheck announces and withdraws with rise/fall hysteresis. Statements only. *)
From Coq Require Import ZArith Bool List.
From ExaV Require Import gen.Gen_Health model.Model_Health proofs.Proofs_Health.
Import ListNotations.
Open Scope Z_scope.

(* the automaton the theorems talk about IS the nested one() of healthcheck.py, as regenerated
   from the source on this run (states as integer codes) *)
Theorem C20_model_is_source : forall o fe ck s,
  one o fe ck (cnt s) (code (st s)) =
  (cnt (fst (hstep o fe ck s)), code (st (fst (hstep o fe ck s))), enc_out (snd (hstep o fe ck s))).
Proof. exact gen_one_is_hstep. Qed.

Theorem C20_source_never_raises : forall o fe ck s,
  snd (fst (one o fe ck (cnt s) (code (st s)))) <> St_ERROR.
Proof. exact one_never_errors. Qed.

(* history h = inputs (disable-file present, check succeeded), most recent first; every rise, fall;
   every history.  good = check succeeded and not disabled; bad = check failed and not disabled *)
Theorem C20_up_needs_rise : forall o x h,
  outh o (x :: h) = Some UP -> rise o <= streak (good o) (x :: h) /\ 1 <= streak (good o) (x :: h).
Proof. exact up_needs_rise. Qed.

Theorem C20_down_needs_fall : forall o x h,
  outh o (x :: h) = Some DOWN -> fall o <= streak (bad o) (x :: h) /\ 1 <= streak (bad o) (x :: h).
Proof. exact down_needs_fall. Qed.

Theorem C20_no_flap_down : forall o x h,
  1 < fall o -> streak (bad o) (x :: h) <= 1 -> outh o (x :: h) <> Some DOWN.
Proof. exact no_flap_down. Qed.

Theorem C20_no_flap_up : forall o x h,
  1 < rise o -> streak (good o) (x :: h) <= 1 -> outh o (x :: h) <> Some UP.
Proof. exact no_flap_up. Qed.

Theorem C20_written_state_is_current : forall o x h t,
  outh o (x :: h) = Some t -> st (runh o (x :: h)) = t.
Proof. exact out_is_state. Qed.

Theorem C20_no_debounce_always_writes : forall o x h,
  debounce o = false -> outh o (x :: h) = Some (st (runh o (x :: h))).
Proof. exact no_debounce_always_writes. Qed.

Theorem C20_debounce_only_on_change : forall o x h t,
  debounce o = true -> outh o (x :: h) = Some t -> st (runh o h) <> t.
Proof. exact debounce_only_on_change. Qed.

Theorem C20_disabled_immediate : forall o fe ck h,
  is_disabled o fe = true -> st (runh o ((fe, ck) :: h)) = DISABLED.
Proof. exact disabled_immediate. Qed.

(* exabgp(): one line per IP; EXIT withdraws every IP; metric = state metric + i * increase *)
Theorem C20_exit_withdraws_all : forall l,
  length (lines l TExit) = nips l /\ Forall (fun x => announce x = false) (lines l TExit).
Proof. exact exit_withdraws_all. Qed.

Theorem C20_line_metric : forall l t i, t <> TOther -> (i < nips l)%nat ->
  nth_error (lines l t) i =
    Some {| announce := is_announce l t; ip_index := i; med := base_metric l t + Z.of_nat i * increase l |}.
Proof. exact line_metric. Qed.

Theorem C20_actions : forall l,
  Forall (fun x => announce x = true) (lines l TUp) /\
  Forall (fun x => announce x = negb (withdraw_on_down l)) (lines l TDown) /\
  Forall (fun x => announce x = negb (withdraw_on_down l)) (lines l TDisabled).
Proof. exact up_announces_down_withdraws_or_metric. Qed.

(* non-vacuity: rise 3, fall 2: three successes reach UP, one failure does not leave it, two do *)
Example C20_example :
  let o := {| rise := 3; fall := 2; debounce := false; disable_code := -1 |} in
  outs o hinit [(false, true); (false, true); (false, true); (false, false); (false, true);
                (false, true); (false, true); (false, false); (false, false)]
  = [Some RISING; Some RISING; Some UP; Some FALLING; Some RISING; Some RISING; Some UP; Some FALLING; Some DOWN].
Proof. vm_compute. reflexivity. Qed.

Print Assumptions C20_model_is_source.
Print Assumptions C20_source_never_raises.
Print Assumptions C20_up_needs_rise.
Print Assumptions C20_down_needs_fall.
Print Assumptions C20_no_flap_down.
Print Assumptions C20_no_flap_up.
Print Assumptions C20_written_state_is_current.
Print Assumptions C20_no_debounce_always_writes.
Print Assumptions C20_debounce_only_on_change.
Print Assumptions C20_disabled_immediate.
Print Assumptions C20_exit_withdraws_all.
Print Assumptions C20_line_metric.
Print Assumptions C20_actions.
