(* C11 - After any session loss the peer is fully resynchronised (Adj-RIB-Out part). Statements only.
   Same model as C04 with two more operations, anywhere in the history: Drop (Peer._reset ->
   OutgoingRIB.reset; the live generator is abandoned, the peer forgets everything) and Establish
   (Peer._main -> replace_restart: the whole cache is queued again).  Operations issued while down
   are ordinary operations between Drop and Establish.  The first update generator of a session is
   run without its withdraws (include_withdraw = False in Peer._main), which the model reproduces
   (`fresh`).  The End-of-RIB markers are session-level and are not part of these theorems. *)
From Coq Require Import ZArith Bool List.
From ExaV Require Import lib.Amap model.Model_Rib proofs.Proofs_Rib.
Import ListNotations.
Open Scope Z_scope.

(* whatever was lost in flight, and wherever the drop happened: after the last establishment and
   drain the peer holds exactly the current Adj-RIB-Out, which is exactly the intention *)
Theorem C11_resync : forall ops,
  let s := run ops (sys0 true) in
  up s = true -> drained (r s) ->
  forall k, aget Z.eqb k (peer s) = option_map rval (aget Z.eqb k (seen (r s)))
         /\ aget Z.eqb k (intended s) = option_map rval (aget Z.eqb k (seen (r s))).
Proof. exact converges. Qed.

(* a route withdrawn while the session was down is not in the peer's table afterwards *)
Theorem C11_withdrawn_while_down_not_readvertised : forall ops1 x ops2,
  let s := run (ops1 ++ Wd x :: ops2) (sys0 true) in
  forallb (fun o => negb (touches (ridx x) o)) ops2 = true ->
  up s = true -> drained (r s) -> aget Z.eqb (ridx x) (peer s) = None.
Proof. exact last_operation_wins_withdraw. Qed.

(* the step that re-establishes restores the established-session invariant from the weaker
   down-state one (nothing in flight, peer empty, queued items can only restore reported values) *)
Theorem C11_establish_restores : forall s, Inv s -> up s = false ->
  Inv {| r := requeue_all (r s); peer := peer s; intended := intended s; up := true; fresh := true |}.
Proof. exact Inv_establish. Qed.

Theorem C11_drop_safe : forall s, Inv s ->
  Inv {| r := reset_rib (r s); peer := []; intended := intended s; up := false; fresh := false |}.
Proof. exact Inv_drop. Qed.

(* non-vacuity: announce, half-sent batch, drop, withdraw while down, establish, drain *)
Example C11_example :
  let a := {| ridx := 1; rfam := 0; rattr := 10; rnh := 5 |} in
  let b := {| ridx := 2; rfam := 0; rattr := 10; rnh := 5 |} in
  let s := run [Ann a; Ann b; Start; Emit; Drop; Wd a; Establish; Start; Emit; Emit] (sys0 true) in
  up s = true /\ drained (r s) /\ peer s = [(2, (10, 5))].
Proof. vm_compute. repeat split. Qed.

Print Assumptions C11_resync.
Print Assumptions C11_withdrawn_while_down_not_readvertised.
Print Assumptions C11_establish_restores.
Print Assumptions C11_drop_safe.
