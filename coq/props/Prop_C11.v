(* C11 - After any session loss the peer is fully resynchronised (Adj-RIB-Out part). Statements only.
   Same model as C04 with two more operations, anywhere in the history: Drop (Peer._reset ->
   OutgoingRIB.reset; the live generator is abandoned, the peer forgets everything) and Establish
   (Peer._main -> replace_restart: the whole cache is queued again).  Operations issued while down
   are ordinary operations between Drop and Establish.  The first update generator of a session is
   run without its withdraws (include_withdraw = False in Peer._main), which the model reproduces
   (`fresh`).  The End-of-RIB markers are modelled on top (esys: the per-session flag of Peer._main and the rule of
   _send_eor_messages); their placement on the wire is checked by the wire-level oracle of the harness. *)
From Coq Require Import ZArith Bool List.
From ExaV Require Import lib.Amap model.Model_Rib proofs.Proofs_Rib.
Import ListNotations.
Open Scope Z_scope.

(* whatever was lost in flight, and wherever the drop happened: after the last establishment and
   drain the peer holds exactly the current Adj-RIB-Out, which is exactly the intention *)
Theorem C11_resync : forall ops,
  let s := run ops (sys0 true) in
  up s = true -> drained (r s) ->
  forall k, aget Z.eqb k (peer s) = option_map rval (aget Z.eqb k (seen (r s)))
         /\ aget Z.eqb k (intended s) = option_map rval (aget Z.eqb k (seen (r s))).
Proof. exact converges. Qed.

(* a route withdrawn while the session was down is not in the peer's table afterwards *)
Theorem C11_withdrawn_while_down_not_readvertised : forall ops1 x ops2,
  let s := run (ops1 ++ Wd x :: ops2) (sys0 true) in
  forallb (fun o => negb (touches (ridx x) o)) ops2 = true ->
  up s = true -> drained (r s) -> aget Z.eqb (ridx x) (peer s) = None.
Proof. exact last_operation_wins_withdraw. Qed.

(* the step that re-establishes restores the established-session invariant from the weaker
   down-state one (nothing in flight, peer empty, queued items can only restore reported values) *)
Theorem C11_establish_restores : forall s, Inv s -> up s = false ->
  Inv {| r := requeue_all (r s); peer := peer s; intended := intended s; up := true; fresh := true |}.
Proof. exact Inv_establish. Qed.

Theorem C11_drop_safe : forall s, Inv s ->
  Inv {| r := reset_rib (r s); peer := []; intended := intended s; up := false; fresh := false |}.
Proof. exact Inv_drop. Qed.

(* End-of-RIB: when the markers of a session go out (Peer._send_eor_messages: no generator live and the
   per-session flag still set), every route for which nothing is queued is already at the peer with the
   reported value - the complete table as it stood was sent first *)
Theorem C11_eor_after_table : forall ops s k,
  In s (eor_log (erun ops (esys0 true))) -> quiet (r s) k ->
  aget Z.eqb k (peer s) = option_map rval (aget Z.eqb k (seen (r s))).
Proof. exact eor_after_table. Qed.

(* ... and they go out at most once per establishment *)
Theorem C11_eor_once_per_session : forall ops es, eor_due es = false ->
  forallb (fun o => match o with Establish => false | _ => true end) ops = true ->
  eor_log (erun ops es) = eor_log es.
Proof. exact eor_once_per_session. Qed.

(* non-vacuity: announce, half-sent batch, drop, withdraw while down, establish, drain *)
Example C11_example :
  let a := {| ridx := 1; rfam := 0; rattr := 10; rnh := 5 |} in
  let b := {| ridx := 2; rfam := 0; rattr := 10; rnh := 5 |} in
  let s := run [Ann a; Ann b; Start; Emit; Drop; Wd a; Establish; Start; Emit; Emit] (sys0 true) in
  up s = true /\ drained (r s) /\ peer s = [(2, (10, 5))].
Proof. vm_compute. repeat split. Qed.

Example C11_eor_example :
  let a := {| ridx := 1; rfam := 0; rattr := 10; rnh := 5 |} in
  let b := {| ridx := 2; rfam := 0; rattr := 10; rnh := 5 |} in
  let es := erun [Ann a; Ann b; Start; Emit; Drop; Wd a; Establish; Start; Emit; Emit] (esys0 true) in
  length (eor_log es) = 1%nat /\ map peer (eor_log es) = [[(2, (10, 5))]].
Proof. vm_compute. split; reflexivity. Qed.

Print Assumptions C11_resync.
Print Assumptions C11_withdrawn_while_down_not_readvertised.
Print Assumptions C11_establish_restores.
Print Assumptions C11_drop_safe.
Print Assumptions C11_eor_after_table.
Print Assumptions C11_eor_once_per_session.
