(* C14 - API commands: same order, one acknowledgement each, no side effects on error.
   Statements only; every proof is `exact <lemma>`; assumptions are printed. *)
From Coq Require Import ZArith Bool List.
From ExaV Require Import gen.Gen_Limit model.Model_Api spec.Spec_Api proofs.Proofs_Api.
From ExaV Require model.Model_WriteQueue proofs.Proofs_WriteQueue.
Import ListNotations.
Open Scope Z_scope.

(* However the pipe delivers the bytes (any list of reads, empty reads included), the reader
   hands over exactly the complete lines of the stream, in order, and keeps exactly the
   unterminated rest - provided the process writes ASCII and no line (nor the rest) is longer
   than the limit.  `complete_lines` / `pending_tail` are Python's stream.split('\n'). *)
Theorem C14_chunking_independent : forall max chunks,
  ascii (concat chunks) -> lines_within max (concat chunks) ->
  feed max (Alive []) chunks = (Alive (pending_tail (concat chunks)), complete_lines (concat chunks)).
Proof. exact chunking_independent. Qed.

Theorem C14_chunking_same : forall max chunks1 chunks2,
  concat chunks1 = concat chunks2 ->
  ascii (concat chunks1) -> lines_within max (concat chunks1) ->
  feed max (Alive []) chunks1 = feed max (Alive []) chunks2.
Proof. exact chunking_same. Qed.

(* the hypothesis about the limit cannot be dropped: a line one character over it is accepted or
   ends the process depending on where the read boundary falls *)
Theorem C14_oversize_needs_hypothesis :
  feed 3 (Alive []) [[97; 97; 97; 97; 10]] <> feed 3 (Alive []) [[97; 97; 97; 97]; [10]].
Proof. exact oversize_depends_on_chunking. Qed.

(* Several processes, one queue, any interleaving of reads and pops: what API.process has been
   given so far followed by what still waits is, for every process, the command sequence of
   its complete lines, in line order. *)
Theorem C14_order : forall max evs s,
  ascii (concat (chunks_of s evs)) -> lines_within max (concat (chunks_of s evs)) ->
  of_svc s (snd (run max init_sys evs) ++ queue (fst (run max init_sys evs)))
  = tag s (commands (complete_lines (concat (chunks_of s evs)))).
Proof. exact order_fifo. Qed.

(* FIFO: the executed commands are a prefix of the arrivals *)
Theorem C14_executed_prefix : forall max evs,
  arrivals max (fun _ => Alive []) evs
  = snd (run max init_sys evs) ++ queue (fst (run max init_sys evs)).
Proof. exact executed_prefix. Qed.

(* with acknowledgements on and no `session ack` command in the sequence: one terminal reply per
   command, in command order, `error` exactly for the refused ones *)
Theorem C14_one_ack : forall os st, x_ack st = true ->
  (forall o, In o os -> is_session o = false) ->
  snd (exec_all st os) = map (fun o => [terminal o]) os /\ x_ack (fst (exec_all st os)) = true.
Proof. exact one_ack_each. Qed.

(* in every acknowledgement mode a command is never answered twice *)
Theorem C14_at_most_one_reply : forall st o, (length (snd (exec st o)) <= 1)%nat.
Proof. exact at_most_one_reply. Qed.

(* an unknown command, one whose selector matches nobody, one that fails to parse: nothing changes *)
Theorem C14_no_effect_on_error : forall st o, is_error_class o = true -> fst (exec st o) = st.
Proof. exact no_effect_on_error. Qed.

(* a table that is not the same afterwards belongs to a neighbor of the selected set ... *)
Theorem C14_selector : forall st o n,
  rib_of (x_ribs (fst (exec st o))) n <> rib_of (x_ribs st) n ->
  exists sel ops, o = Ok sel ops /\ memz n sel = true.
Proof. exact changed_selected. Qed.

(* ... and the selected set of a selector-carrying command holds only neighbors matching the
   selector, i.e. every term of one of its definitions *)
Theorem C14_selector_dispatch : forall ns sel ops st n,
  rib_of (x_ribs (fst (exec st (dispatch ns sel (fun peers => Ok peers ops))))) n <> rib_of (x_ribs st) n ->
  exists nb, In nb ns /\ n_id nb = n /\ sel_match sel nb = true.
Proof. exact dispatch_selector. Qed.

Theorem C14_selector_every_term : forall sel nb, sel <> [] -> sel_match sel nb = true ->
  exists d, In d sel /\ forall t, In t d -> term_match nb t = true.
Proof. exact sel_match_terms. Qed.

Theorem C14_selector_nobody : forall ns sel handler, select sel ns = [] ->
  dispatch ns sel handler = NoMatchingPeers.
Proof. exact dispatch_no_match. Qed.

(* the key table regenerated from limit.py is the one the term kinds stand for *)
Theorem C14_selector_keys : SELECTOR_KEYS =
  [[102;97;109;105;108;121;45;97;108;108;111;119;101;100];
   [108;111;99;97;108;45;97;115];
   [108;111;99;97;108;45;105;112];
   [112;101;101;114;45;97;115];
   [114;111;117;116;101;114;45;105;100]].
Proof. exact selector_keys_known. Qed.

(* ------------------------------------------------------------------ selectors as text *)

(* limit.py's regular expression (^|\s)term($|\s|,), modelled as a substring search with its two
   boundary tests, finds "<key> <value>" in a peer name made of tokens exactly when that token pair
   occurs - for ALL strings: a value that is only the beginning or the end of the peer's never matches *)
Theorem C14_match_is_token_equality : forall k v ws,
  token k -> token v -> Forall token ws ->
  (re_search (k ++ 32 :: v) (join ws) = true <-> pair_occurs k v ws).
Proof. exact match_is_token_equality. Qed.

(* for a name built from (key, value) fields, no key being also a value: the term selects the peer iff
   the field has exactly that value *)
Theorem C14_match_is_field_equality : forall k v fields,
  token k -> token v ->
  (forall p, In p fields -> token (fst p) /\ token (snd p) /\ k <> snd p) ->
  (re_search (k ++ 32 :: v) (join (name_tokens fields)) = true <-> In (k, v) fields).
Proof. exact match_is_field_equality. Qed.

Theorem C14_prefix_never_selects : forall k v extra fields,
  token k -> token v -> extra <> [] ->
  (forall p, In p fields -> token (fst p) /\ token (snd p) /\ k <> snd p) ->
  (forall v', In (k, v') fields -> v' = v ++ extra) ->
  re_search (k ++ 32 :: v) (join (name_tokens fields)) = false.
Proof. exact prefix_never_selects. Qed.

(* ------------------------------------------------------------------ groups *)

(* `peer <selector> group a ; b ; ...` is one command line: if any part does not parse nothing at all
   is changed and the answer is error; otherwise everything is applied to the selected peers only *)
Theorem C14_group_atomic : forall all st sel subs, all_parsed subs = None ->
  gexec all st (GInline sel subs) = (st, greply st Error).
Proof. exact inline_refused. Qed.

Theorem C14_group_applied : forall all st sel subs ops, all_parsed subs = Some ops -> subs <> [] ->
  g_ribs (fst (gexec all st (GInline sel subs))) = apply_sel sel ops (g_ribs st) /\
  snd (gexec all st (GInline sel subs)) = greply st Done.
Proof. exact inline_applied. Qed.

(* lines written between `group start` and `group end` are only stored: no RIB changes, each is acknowledged *)
Theorem C14_group_lines_only_stored : forall all subs st b outs, g_buf st = Some b -> length outs = length subs ->
  fst (grun all st (map (fun p => GLine (fst p) (snd p)) (combine subs outs))) = mkG (g_x st) (Some (b ++ subs)) /\
  snd (grun all st (map (fun p => GLine (fst p) (snd p)) (combine subs outs))) = map (fun _ => greply st Done) subs.
Proof. exact lines_buffered. Qed.

(* `group end`: all of the stored lines, or none *)
Theorem C14_group_end_atomic : forall all st b, g_buf st = Some b -> all_parsed b = None ->
  gexec all st GEnd = (mkG (g_x st) None, greply st Error).
Proof. exact end_refused. Qed.

Theorem C14_group_end_applied : forall all st b ops, g_buf st = Some b -> all_parsed b = Some ops ->
  g_buf (fst (gexec all st GEnd)) = None /\
  g_ribs (fst (gexec all st GEnd)) = apply_sel all ops (g_ribs st) /\
  snd (gexec all st GEnd) = greply st Done.
Proof. exact end_applied. Qed.

(* ------------------------------------------------------------------ main loop and scheduler *)

(* one command per loop iteration, then every scheduled callback: whatever the arrival times and the
   mix of commands answered at once and commands answered by a callback, the replies written so far
   followed by the commands still waiting are the commands in arrival order, and no callback is left *)
Theorem C14_reply_order_with_scheduler : forall evs,
  l_async (lrun 1 linit evs) = [] /\
  l_written (lrun 1 linit evs) ++ map snd (l_wait (lrun 1 linit evs)) = arrived evs.
Proof. exact scheduler_order. Qed.

(* the one-per-iteration rule is what the theorem rests on: handing two commands over at once lets the
   one answered at once overtake the scheduled one *)
Theorem C14_batching_breaks_order :
  l_written (lrun 2 linit [Arrive Scheduled 1; Arrive Immediate 2; Iterate]) = [2; 1].
Proof. exact batching_reorders. Qed.

(* non-vacuity: two processes, reads cut inside lines, "debug " line dropped, brackets spaced,
   one pop in the middle; then a selective announce, a refused command and a silenced session *)
Example C14_example_intake :
  let evs := [Read 1 [97; 32; 91]; Read 2 [120; 10; 121]; Read 1 [98; 93; 13; 10; 100; 101; 98; 117; 103; 32; 122; 10];
              Pop; Read 2 [10]; Pop; Pop; Pop] in
  snd (run MAX_COMMAND_SIZE init_sys evs) = [(2, [120]); (1, [97; 32; 91; 32; 98; 32; 93]); (2, [121])].
Proof. vm_compute. reflexivity. Qed.

Example C14_example_exec :
  let ns := [mkN 1 1002 [(1, 65000)]; mkN 2 1003 [(1, 65000)]; mkN 3 1004 [(1, 65010)]] in
  let st := mkX [(1, []); (2, [(7, 1)]); (3, [])] true in
  let os := [dispatch ns [[TIp 1003; TKey 1 65000]; [TIp 1004; TKey 1 65000]] (fun p => Ok p [Announce 7 2; Announce 8 1]);
             dispatch ns [[TIp 1009]] (fun p => Ok p [Announce 9 9]);
             ParseFail; Session AckSilence; Unknown] in
  exec_all st os = (mkX [(1, []); (2, [(7, 2); (8, 1)]); (3, [])] false, [[Done]; [Error]; [Error]; []; []]).
Proof. vm_compute. reflexivity. Qed.

(* non-vacuity: the IPv6 address that is the beginning of the peer's does not select it, the full one does;
   the comma boundary and the wildcard of the real expression *)
Example C14_example_match :
  let name := [110;101;105;103;104;98;111;114;32;50;48;48;49;58;100;98;56;58;58;49;58;50;32;108;111;99;97;108;45;105;112;32;50;48;48;49;58;100;98;56;58;58;57;32;108;111;99;97;108;45;97;115;32;54;53;48;48;48;32;112;101;101;114;45;97;115;32;54;53;48;48;49;32;114;111;117;116;101;114;45;105;100;32;49;46;50;46;51;46;52;32;102;97;109;105;108;121;45;97;108;108;111;119;101;100;32;105;110;45;111;112;101;110] in
  (re_search [110;101;105;103;104;98;111;114;32;50;48;48;49;58;100;98;56;58;58;49] name, re_search [110;101;105;103;104;98;111;114;32;50;48;48;49;58;100;98;56;58;58;49;58;50] name, re_search [108;111;99;97;108;45;97;115;32;54;53;48;48] name,
   re_search [97;32;98] [120;32;97;32;98;44;99], match_neighbor [[110;101;105;103;104;98;111;114;32;42]; [112;101;101;114;45;97;115;32;54;53;48;48;49]] name)
  = (false, true, false, true, true).
Proof. vm_compute. reflexivity. Qed.

Example C14_example_group :
  let st := mkG (mkX [(1, []); (2, [])] true) None in
  (snd (grun [1; 2] st [GStart; GLine (Some [Announce 7 1]) Unknown; GLine None Unknown; GEnd]),
   g_ribs (fst (grun [1; 2] st [GStart; GLine (Some [Announce 7 1]) Unknown; GEnd; GInline [2] [Some [Announce 8 2]; Some [Withdraw 7]]])))
  = ([[Done]; [Done]; [Done]; [Error]], [(1, [(7, 1)]); (2, [(8, 2)])]).
Proof. vm_compute. reflexivity. Qed.

(* ---- the API pipe (Processes.write in async mode, Processes.flush_write_queue; Model_WriteQueue, tied by
   harness/wqueue.py).  For EVERY history of write() calls and flushes, whatever the pipe accepts at each os.write
   (everything, a part, nothing, EAGAIN; at most BATCH items per flush) and as long as the pipe reports no error:
   what the helper has read, followed by what is still queued, is exactly the records written, in the order written -
   no record overtaken, repeated, dropped or cut anywhere but at the end of what was read so far.  (C14: replies are read in command order.) *)
Theorem C14_api_pipe_in_order : forall ops,
  forallb Model_WriteQueue.error_free ops = true ->
  Model_WriteQueue.wq_dead (Model_WriteQueue.run ops) = false
  /\ Model_WriteQueue.wq_out (Model_WriteQueue.run ops) ++ concat (Model_WriteQueue.wq_q (Model_WriteQueue.run ops))
     = Model_WriteQueue.enqueued ops.
Proof. exact Proofs_WriteQueue.queue_in_order. Qed.

(* a pipe that takes everything empties a queue of at most BATCH records in one flush *)
Theorem C14_api_pipe_drains : forall big q out budget,
  Forall (fun d => (length d <= big)%nat) q -> (length q <= budget)%nat ->
  fst (fst (Model_WriteQueue.drain q out budget (Proofs_WriteQueue.generous big (length q)))) = ([], out ++ concat q, false).
Proof. exact Proofs_WriteQueue.drain_generous. Qed.

(* not vacuous: putting a refused record back at the END of the queue (a seeded change) delivers [2; 1] for [1]; [2] *)
Theorem C14_api_pipe_back_refuted :
  let '((q1, out1, _), _, _) := Model_WriteQueue.drain_back [[1%Z]; [2%Z]] [] 10 [Model_WriteQueue.Again] in
  let '((q2, out2, _), _, _) := Model_WriteQueue.drain_back q1 out1 10 [Model_WriteQueue.W 5; Model_WriteQueue.W 5] in
  out2 = [2%Z; 1%Z] /\ q2 = [].
Proof. exact Proofs_WriteQueue.back_reorders. Qed.

Print Assumptions C14_chunking_independent.
Print Assumptions C14_chunking_same.
Print Assumptions C14_oversize_needs_hypothesis.
Print Assumptions C14_order.
Print Assumptions C14_executed_prefix.
Print Assumptions C14_one_ack.
Print Assumptions C14_at_most_one_reply.
Print Assumptions C14_no_effect_on_error.
Print Assumptions C14_selector.
Print Assumptions C14_selector_dispatch.
Print Assumptions C14_selector_every_term.
Print Assumptions C14_selector_nobody.
Print Assumptions C14_selector_keys.
Print Assumptions C14_match_is_token_equality.
Print Assumptions C14_match_is_field_equality.
Print Assumptions C14_prefix_never_selects.
Print Assumptions C14_group_atomic.
Print Assumptions C14_group_applied.
Print Assumptions C14_group_lines_only_stored.
Print Assumptions C14_group_end_atomic.
Print Assumptions C14_group_end_applied.
Print Assumptions C14_reply_order_with_scheduler.
Print Assumptions C14_batching_breaks_order.
Print Assumptions C14_api_pipe_in_order.
Print Assumptions C14_api_pipe_drains.
Print Assumptions C14_api_pipe_back_refuted.
