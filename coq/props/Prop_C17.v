(* C17 - Configuration reload applies the difference, or nothing at all.  Statements only.

   Model (model/Model_Reload.v over model/Model_Rib.v): one outgoing RIB per neighbor NAME (RIB._cache)
   with that peer's table, the operator's intention and the session state as ghost state; the
   configuration state {neighbors; parser state left behind; reactor peers}; `reload` driven by a parser
   ORACLE: `Parsed cfg`, `Failed clean prefix` (prefix = the neighbors whose post() already ran: each has
   pushed its routes into the LIVE RIB of its name at parse time, as the code does), `NoFile`.
   Histories are lists of `rop`: reloads and RIB-level operations on one peer (API announce / withdraw /
   flush, generator start, one element sent, session loss, establishment).
   `pinned` is the tree as it was; `repaired_failure` has the two repairs of the failure paths (roll back on
   every failure path and clear the parser state; write nothing to a RIB before the file is known to
   be valid; /repo f8577ca 9c55346 af12ba1); `repaired` also keeps the withdraws owed to a session that
   has not come up since an earlier reload; `rollback_only` has the first repair only.
   `repaired_chain` (/repo f9b5d54) also keeps them; `repaired` moreover takes the routes removed by a
   re-establishing reload out of the Adj-RIB-Out at once (fix_eager).
   gen/Gen_MainShape.v (translator T13, regenerated from the ast of Peer._main on every run) says whether
   Peer._main forgets Neighbor.previous after replace_restart / replace_reload: the invariant proofs
   below only go through when it does.
   The model has ONE "session down" state: the code is required (harness) to behave alike in IDLE,
   ACTIVE, CONNECT, OPENSENT and OPENCONFIRM. *)
From Coq Require Import ZArith Bool List.
From ExaV Require Import lib.Amap model.Model_Rib proofs.Proofs_Rib gen.Gen_MainShape model.Model_Reload proofs.Proofs_Reload.
Import ListNotations.
Open Scope Z_scope.

(* ---------------------------------------------------------------- successful reload (every tree) *)

(* From any state reached by loading a configuration and any RIB-level history (sessions up or down,
   API routes present, generators half consumed), a reload that parses, followed by ANY schedule of
   RIB-level operations that contains no API operation on prefix k of neighbor n: whenever the session
   of n is established and its RIB drained, the peer holds for k exactly
     the value of the new file if the new file has k (new attributes, new next hop),
     nothing if the old file had k and the new one has not,
     what was intended before (an API-announced route) otherwise. *)
Theorem C17_success : forall fx s cfg sched n c k,
  Ready s ->
  aget Z.eqb n cfg = Some c ->
  forallb (quiet n k) sched = true ->
  let s2 := run_r fx sched (fst (reload fx s (Parsed cfg))) in
  exists b, aget Z.eqb n (ribs s2) = Some b /\
    (up (nsys b) = true -> drained (r (nsys b)) -> aget Z.eqb k (peer (nsys b)) = expected s n c k).
Proof. exact success. Qed.

Theorem C17_success_new_value : forall s n c k x,
  lastk k (nroutes c) = Some x -> expected s n c k = Some (rval x).
Proof. exact expected_new_value. Qed.

Theorem C17_success_removed_is_withdrawn : forall s n c k,
  has_idx k (nroutes c) = false -> has_idx k (prev_routes s n) = true -> expected s n c k = None.
Proof. exact expected_removed. Qed.

Theorem C17_success_api_route_kept : forall s n c k,
  has_idx k (nroutes c) = false -> has_idx k (prev_routes s n) = false ->
  expected s n c k = aget Z.eqb k (intended (nsys (get_nb n (ribs s)))).
Proof. exact expected_api_kept. Qed.

(* a neighbor that is not in the new file any more: peer, RIB and configuration entry are gone *)
Theorem C17_success_removed_neighbor : forall fx s cfg n,
  Ready s -> amem Z.eqb n (peers s) = true -> aget Z.eqb n cfg = None ->
  let s1 := fst (reload fx s (Parsed cfg)) in
  aget Z.eqb n (ribs s1) = None /\ aget Z.eqb n (peers s1) = None /\ aget Z.eqb n (neighbors s1) = None.
Proof. exact removed_neighbor. Qed.

(* the hypothesis `Ready` holds after the initial load and any RIB-level history *)
Theorem C17_ready_history : forall fx cfg ops, forallb is_ribop ops = true ->
  Ready (run_r fx (Reload (Parsed cfg) :: ops) st0).
Proof. exact Ready_history. Qed.

(* every RIB of every history satisfies the Adj-RIB-Out invariant of C04/C11, reloads included *)
Theorem C17_rib_invariant : forall fx ops n b,
  aget Z.eqb n (ribs (run_r fx ops st0)) = Some b -> Inv (nsys b) /\ (npw b = [] \/ up (nsys b) = false).
Proof. intros fx ops n b G. exact (AllInv_run fx ops n b G). Qed.

(* ---------------------------------------------------------------- several reloads in a row *)

(* In ANY state between the operations of a history (withdraws may be owed to sessions that have not come
   up since earlier reloads), a parsed reload changes the value the peer of n is heading to for prefix k
   exactly by the difference of the two files: reloads compose, whatever the number of reloads before
   the session establishes. *)
Theorem C17_reload_composes : forall fx s cfg n c k,
  fix_chain fx = true -> Steady s -> aget Z.eqb n cfg = Some c ->
  exists b, aget Z.eqb n (ribs (fst (reload fx s (Parsed cfg)))) = Some b /\
    goal b k = diffed (prev_routes s n) (nroutes c) k (goal (get_nb n (ribs s)) k).
Proof. exact reload_composes. Qed.

Theorem C17_steady_after_reload : forall fx s cfg, Steady s -> Steady (fst (reload fx s (Parsed cfg))).
Proof. exact Steady_reload_parsed. Qed.

Theorem C17_steady_after_ribop : forall fx s n o, Steady s -> Steady (rstep fx s (RibOp n o)).
Proof. exact Steady_ribop. Qed.

(* and that value is what the peer holds once its session is up and its RIB drained, in every history *)
Theorem C17_peer_reaches_goal : forall fx ops n b k,
  aget Z.eqb n (ribs (run_r fx ops st0)) = Some b -> up (nsys b) = true -> drained (r (nsys b)) ->
  aget Z.eqb k (peer (nsys b)) = goal b k.
Proof. exact peer_reaches_goal. Qed.

(* refuted on the tree without the third repair: old {1,2} -> (session parameter changed) {1} -> {1,3}
   with the session down: prefix 2 is still what the peer is heading to *)
Theorem C17_reload_composes_refuted_without_chain :
  exists s cfg n c k, Steady s /\ aget Z.eqb n cfg = Some c /\
    forall b, aget Z.eqb n (ribs (fst (reload repaired_failure s (Parsed cfg)))) = Some b ->
      goal b k <> diffed (prev_routes s n) (nroutes c) k (goal (get_nb n (ribs s)) k).
Proof. exact reload_composes_refuted_without_chain. Qed.

(* ---------------------------------------------------------------- every history *)

(* EVERY history - reloads that parse or fail, any number in a row, API announcements and withdrawals
   (also of routes a reload removed), flushes, generator starts and single elements sent, session losses
   and establishments, in any order - on the tree with all four repairs and a Peer._main that forgets
   Neighbor.previous once used: whenever the session of n is established and its RIB drained, the peer
   holds for prefix k exactly the value computed from the files and the API operations alone
   (spec_run: the new file wins, what the replaced file had and the new one has not is gone, an API
   operation sets or removes, a failed reload changes nothing, a removed neighbor holds nothing). *)
Theorem C17_history : forall fx ops n k b, all_fixed fx -> forallb simple_rop ops = true ->
  aget Z.eqb n (ribs (run_r fx ops st0)) = Some b -> up (nsys b) = true -> drained (r (nsys b)) ->
  aget Z.eqb k (peer (nsys b)) = snd (spec_run n k ops).
Proof. exact history. Qed.

(* a neighbor removed by a reload and configured again later - whatever happened before the removal
   (files, API routes, parameter changes, sessions cycled or not) and whatever was tried while it was
   absent: what its peer must hold is a function of the file that adds it again and of later operations only *)
Theorem C17_readd_forgets : forall n k before cfg1 mid cfg2 c after,
  aget Z.eqb n cfg1 = None -> forallb (absent n) mid = true -> aget Z.eqb n cfg2 = Some c ->
  spec_run n k (before ++ Reload (Parsed cfg1) :: mid ++ Reload (Parsed cfg2) :: after) =
  fold_left (spec_step n k) after (Some c, option_map rval (lastk k (nroutes c))).
Proof. exact readd_forgets. Qed.

(* refuted on the tree without the fourth repair (what /repo was before f0e3526): a reload changes a session parameter
   and removes prefix 2; the API announces prefix 2 before the session is back; at establishment it is
   withdrawn together with what the reload removed *)
Theorem C17_history_refuted_without_eager :
  exists ops n k b, forallb simple_rop ops = true /\
    aget Z.eqb n (ribs (run_r repaired_chain ops st0)) = Some b /\ up (nsys b) = true /\ drained (r (nsys b)) /\
    aget Z.eqb k (peer (nsys b)) <> snd (spec_run n k ops).
Proof. exact history_refuted_without_eager. Qed.

(* ---------------------------------------------------------------- failed reload *)

(* the repaired tree: whatever the failure (missing file, syntax error, exception in a value parser, at
   any line, after any number of neighbors were parsed) the whole state - configuration, parser state,
   peers, every RIB (queue, cache, live generator), every session and peer table - is EXACTLY as
   before and the call returns False *)
Theorem C17_failure_is_noop : forall fx s o,
  fix_rollback fx = true -> fix_defer fx = true ->
  stale s = [] -> not_parsed o -> reload fx s o = (s, false).
Proof. exact failure_noop_fx. Qed.

Theorem C17_failure_leaves_no_parser_state : forall fx s o,
  fix_rollback fx = true -> stale (fst (reload fx s o)) = [].
Proof. exact stale_after_reload_rollback. Qed.

(* the pinned tree refutes it, three ways *)
Theorem C17_failure_is_noop_pinned_refuted_missing_file :
  exists s, Ready s /\ reload pinned s NoFile <> (s, false).
Proof. exact failure_noop_pinned_refuted_missing_file. Qed.

Theorem C17_failure_is_noop_pinned_refuted_exception :
  exists s pre, Ready s /\ reload pinned s (Failed false pre) <> (s, false).
Proof. exact failure_noop_pinned_refuted_exception. Qed.

Theorem C17_failure_is_noop_pinned_refuted_parsed_prefix :
  exists s pre, Ready s /\ neighbors (fst (reload pinned s (Failed true pre))) = neighbors s /\
    reload pinned s (Failed true pre) <> (s, false).
Proof. exact failure_noop_pinned_refuted_prefix. Qed.

(* what does hold on the pinned tree *)
Theorem C17_failure_is_noop_pinned_partial : forall s,
  stale s = [] -> awf (ribs s) -> reload pinned s (Failed true []) = (s, false).
Proof. exact failure_noop_pinned_partial. Qed.

Theorem C17_failure_syntax_error_pinned_partial : forall s pre,
  let s' := fst (reload pinned s (Failed true pre)) in
  neighbors s' = neighbors s /\ peers s' = peers s /\
  forall n, aget Z.eqb n pre = None -> aget Z.eqb n (ribs s') = aget Z.eqb n (ribs s).
Proof. exact failure_clean_pinned_config. Qed.

(* the tree with the roll-back repair only *)
Theorem C17_failure_rollback_only : forall s o, stale s = [] -> not_parsed o ->
  let s' := fst (reload rollback_only s o) in
  snd (reload rollback_only s o) = false /\ neighbors s' = neighbors s /\ stale s' = stale s /\ peers s' = peers s /\
  forall n, (match o with Failed _ pre => aget Z.eqb n pre = None | _ => True end) ->
            aget Z.eqb n (ribs s') = aget Z.eqb n (ribs s).
Proof. exact failure_config_noop_rollback_only. Qed.

(* ---------------------------------------------------------------- non-vacuity *)

(* two neighbors loaded and established; an API route on neighbor 1; reload: neighbor 1 changes the
   attributes of prefix 1, drops prefix 2, adds prefix 3; neighbor 2 changes a session parameter
   (re-established) and its next hop; everything is sent: *)
Example C17_example :
  let R i a h := {| ridx := i; rfam := 0; rattr := a; rnh := h |} in
  let old := [(1, {| nparams := 1; nroutes := [R 1 1 1; R 2 1 1] |}); (2, {| nparams := 1; nroutes := [R 4 1 1] |})] in
  let new := [(1, {| nparams := 1; nroutes := [R 1 2 1; R 3 1 1] |}); (2, {| nparams := 2; nroutes := [R 4 1 2] |})] in
  let flush n := [RibOp n Start; RibOp n Emit; RibOp n Emit; RibOp n Emit; RibOp n Emit] in
  let before := Reload (Parsed old) :: [RibOp 1 Establish; RibOp 2 Establish; RibOp 1 (Ann (R 9 1 1))] ++ flush 1 ++ flush 2 in
  let s := run_r pinned before st0 in
  Ready s /\
  let s2 := run_r pinned (flush 1 ++ [RibOp 2 Establish] ++ flush 2) (fst (reload pinned s (Parsed new))) in
  peer (nsys (get_nb 1 (ribs s))) = [(1, (1, 1)); (2, (1, 1)); (9, (1, 1))] /\
  peer (nsys (get_nb 1 (ribs s2))) = [(1, (2, 1)); (9, (1, 1)); (3, (1, 1))] /\
  peer (nsys (get_nb 2 (ribs s2))) = [(4, (1, 2))] /\
  drained (r (nsys (get_nb 1 (ribs s2)))) /\ up (nsys (get_nb 2 (ribs s2))) = true /\
  awf (ribs s) /\ stale s = [].
Proof.
  cbv zeta. split; [apply Ready_history; reflexivity|]. vm_compute.
  repeat split; repeat constructor; simpl; intuition discriminate.
Qed.

Print Assumptions C17_success.
Print Assumptions C17_success_new_value.
Print Assumptions C17_success_removed_is_withdrawn.
Print Assumptions C17_success_api_route_kept.
Print Assumptions C17_success_removed_neighbor.
Print Assumptions C17_ready_history.
Print Assumptions C17_rib_invariant.
Print Assumptions C17_failure_is_noop.
Print Assumptions C17_failure_leaves_no_parser_state.
Print Assumptions C17_failure_is_noop_pinned_refuted_missing_file.
Print Assumptions C17_failure_is_noop_pinned_refuted_exception.
Print Assumptions C17_failure_is_noop_pinned_refuted_parsed_prefix.
Print Assumptions C17_failure_is_noop_pinned_partial.
Print Assumptions C17_failure_syntax_error_pinned_partial.
Print Assumptions C17_failure_rollback_only.
Print Assumptions C17_reload_composes.
Print Assumptions C17_steady_after_reload.
Print Assumptions C17_steady_after_ribop.
Print Assumptions C17_peer_reaches_goal.
Print Assumptions C17_reload_composes_refuted_without_chain.
Print Assumptions C17_history.
Print Assumptions C17_history_refuted_without_eager.
Print Assumptions C17_readd_forgets.
