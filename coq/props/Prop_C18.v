(* C18 - Route text is accepted if and only if it can be sent.  Statements only.
   accept_<f> : Z -> bool is the range test the parser applies to the number written after the keyword, as
   regenerated from the source on this run (gen/Gen_TextDomains.v); repr_<f> is what the wire field can hold
   (model/Model_Text.v, RFC widths); enc_<f> / dec_<f> are the big-endian field encoders.
   For EVERY integer v (no finite table):
     C18_accept_iff_representable_<f> : the parser accepts v  <->  the wire format can hold v
     C18_accepted_encodes_<f>         : an accepted v survives enc/dec unchanged in the field's octet count
   Where the parser of the tree this run was built from does not agree with the wire format the statement is
   replaced by <f>_refuted (the witness) and <f>_partial (the direction that still holds), and
   C18_representable_encodes_<f> (every representable value survives enc/dec). *)
From Coq Require Import ZArith Bool List.
From ExaV Require Import gen.Gen_TextDomains model.Model_Text proofs.Proofs_Text.
Import ListNotations.
Open Scope Z_scope.

Theorem C18_accept_iff_representable_med : forall v, accept_med v = true <-> repr_med v = true.
Proof. exact accept_iff_repr_med. Qed.
Theorem C18_accepted_encodes_med : forall v, accept_med v = true -> dec_med (enc_med v) = v /\ length (enc_med v) = 4%nat.
Proof. exact accepted_encodes_med. Qed.

Theorem C18_accept_iff_representable_local_preference : forall v, accept_local_preference v = true <-> repr_local_preference v = true.
Proof. exact accept_iff_repr_local_preference. Qed.
Theorem C18_accepted_encodes_local_preference : forall v, accept_local_preference v = true -> dec_local_preference (enc_local_preference v) = v /\ length (enc_local_preference v) = 4%nat.
Proof. exact accepted_encodes_local_preference. Qed.

Theorem C18_accept_iff_representable_aigp : forall v, accept_aigp v = true <-> repr_aigp v = true.
Proof. exact accept_iff_repr_aigp. Qed.
Theorem C18_accepted_encodes_aigp : forall v, accept_aigp v = true -> dec_aigp (enc_aigp v) = v /\ length (enc_aigp v) = 8%nat.
Proof. exact accepted_encodes_aigp. Qed.

Theorem C18_accept_iff_representable_asn : forall v, accept_asn v = true <-> repr_asn v = true.
Proof. exact accept_iff_repr_asn. Qed.
Theorem C18_accepted_encodes_asn : forall v, accept_asn v = true -> dec_asn (enc_asn v) = v /\ length (enc_asn v) = 4%nat.
Proof. exact accepted_encodes_asn. Qed.

Theorem C18_accept_iff_representable_asn_dotted_part : forall v, accept_asn_dotted_part v = true <-> repr_asn_dotted_part v = true.
Proof. exact accept_iff_repr_asn_dotted_part. Qed.
Theorem C18_accepted_encodes_asn_dotted_part : forall v, accept_asn_dotted_part v = true -> dec_asn_dotted_part (enc_asn_dotted_part v) = v /\ length (enc_asn_dotted_part v) = 2%nat.
Proof. exact accepted_encodes_asn_dotted_part. Qed.

Theorem C18_accept_iff_representable_community_high : forall v, accept_community_high v = true <-> repr_community_high v = true.
Proof. exact accept_iff_repr_community_high. Qed.
Theorem C18_accepted_encodes_community_high : forall v, accept_community_high v = true -> dec_community_high (enc_community_high v) = v /\ length (enc_community_high v) = 2%nat.
Proof. exact accepted_encodes_community_high. Qed.

Theorem C18_accept_iff_representable_community_low : forall v, accept_community_low v = true <-> repr_community_low v = true.
Proof. exact accept_iff_repr_community_low. Qed.
Theorem C18_accepted_encodes_community_low : forall v, accept_community_low v = true -> dec_community_low (enc_community_low v) = v /\ length (enc_community_low v) = 2%nat.
Proof. exact accepted_encodes_community_low. Qed.

Theorem C18_accept_iff_representable_community_number : forall v, accept_community_number v = true <-> repr_community_number v = true.
Proof. exact accept_iff_repr_community_number. Qed.
Theorem C18_accepted_encodes_community_number : forall v, accept_community_number v = true -> dec_community_number (enc_community_number v) = v /\ length (enc_community_number v) = 4%nat.
Proof. exact accepted_encodes_community_number. Qed.

Theorem C18_accept_iff_representable_large_community_part : forall v, accept_large_community_part v = true <-> repr_large_community_part v = true.
Proof. exact accept_iff_repr_large_community_part. Qed.
Theorem C18_accepted_encodes_large_community_part : forall v, accept_large_community_part v = true -> dec_large_community_part (enc_large_community_part v) = v /\ length (enc_large_community_part v) = 4%nat.
Proof. exact accepted_encodes_large_community_part. Qed.

Theorem C18_accept_iff_representable_label : forall v, accept_label v = true <-> repr_label v = true.
Proof. exact accept_iff_repr_label. Qed.
Theorem C18_accepted_encodes_label : forall v, accept_label v = true -> dec_label (enc_label v) = v /\ length (enc_label v) = 3%nat.
Proof. exact accepted_encodes_label. Qed.

Theorem C18_accept_iff_representable_path_information : forall v, accept_path_information v = true <-> repr_path_information v = true.
Proof. exact accept_iff_repr_path_information. Qed.
Theorem C18_accepted_encodes_path_information : forall v, accept_path_information v = true -> dec_path_information (enc_path_information v) = v /\ length (enc_path_information v) = 4%nat.
Proof. exact accepted_encodes_path_information. Qed.

Theorem C18_accept_iff_representable_attribute_code : forall v, accept_attribute_code v = true <-> repr_attribute_code v = true.
Proof. exact accept_iff_repr_attribute_code. Qed.
Theorem C18_accepted_encodes_attribute_code : forall v, accept_attribute_code v = true -> dec_attribute_code (enc_attribute_code v) = v /\ length (enc_attribute_code v) = 1%nat.
Proof. exact accepted_encodes_attribute_code. Qed.

Theorem C18_accept_iff_representable_attribute_flag : forall v, accept_attribute_flag v = true <-> repr_attribute_flag v = true.
Proof. exact accept_iff_repr_attribute_flag. Qed.
Theorem C18_accepted_encodes_attribute_flag : forall v, accept_attribute_flag v = true -> dec_attribute_flag (enc_attribute_flag v) = v /\ length (enc_attribute_flag v) = 1%nat.
Proof. exact accepted_encodes_attribute_flag. Qed.

Theorem C18_accept_iff_representable_vpls_endpoint : forall v, accept_vpls_endpoint v = true <-> repr_vpls_endpoint v = true.
Proof. exact accept_iff_repr_vpls_endpoint. Qed.
Theorem C18_accepted_encodes_vpls_endpoint : forall v, accept_vpls_endpoint v = true -> dec_vpls_endpoint (enc_vpls_endpoint v) = v /\ length (enc_vpls_endpoint v) = 2%nat.
Proof. exact accepted_encodes_vpls_endpoint. Qed.

Theorem C18_accept_iff_representable_vpls_size : forall v, accept_vpls_size v = true <-> repr_vpls_size v = true.
Proof. exact accept_iff_repr_vpls_size. Qed.
Theorem C18_accepted_encodes_vpls_size : forall v, accept_vpls_size v = true -> dec_vpls_size (enc_vpls_size v) = v /\ length (enc_vpls_size v) = 2%nat.
Proof. exact accepted_encodes_vpls_size. Qed.

Theorem C18_accept_iff_representable_vpls_offset : forall v, accept_vpls_offset v = true <-> repr_vpls_offset v = true.
Proof. exact accept_iff_repr_vpls_offset. Qed.
Theorem C18_accepted_encodes_vpls_offset : forall v, accept_vpls_offset v = true -> dec_vpls_offset (enc_vpls_offset v) = v /\ length (enc_vpls_offset v) = 2%nat.
Proof. exact accepted_encodes_vpls_offset. Qed.

Theorem C18_accept_iff_representable_vpls_base : forall v, accept_vpls_base v = true <-> repr_vpls_base v = true.
Proof. exact accept_iff_repr_vpls_base. Qed.
Theorem C18_accepted_encodes_vpls_base : forall v, accept_vpls_base v = true -> dec_vpls_base (enc_vpls_base v) = v /\ length (enc_vpls_base v) = 3%nat.
Proof. exact accepted_encodes_vpls_base. Qed.

Theorem C18_accept_iff_representable_flow_port : forall v, accept_flow_port v = true <-> repr_flow_port v = true.
Proof. exact accept_iff_repr_flow_port. Qed.
Theorem C18_accepted_encodes_flow_port : forall v, accept_flow_port v = true -> dec_flow_port (enc_flow_port v) = v /\ (length (enc_flow_port v) = 1%nat \/ length (enc_flow_port v) = 2%nat).
Proof. exact accepted_encodes_flow_port. Qed.

Theorem C18_accept_iff_representable_flow_packet_length : forall v, accept_flow_packet_length v = true <-> repr_flow_packet_length v = true.
Proof. exact accept_iff_repr_flow_packet_length. Qed.
Theorem C18_accepted_encodes_flow_packet_length : forall v, accept_flow_packet_length v = true -> dec_flow_packet_length (enc_flow_packet_length v) = v /\ (length (enc_flow_packet_length v) = 1%nat \/ length (enc_flow_packet_length v) = 2%nat).
Proof. exact accepted_encodes_flow_packet_length. Qed.

Theorem C18_accept_iff_representable_flow_protocol : forall v, accept_flow_protocol v = true <-> repr_flow_protocol v = true.
Proof. exact accept_iff_repr_flow_protocol. Qed.
Theorem C18_accepted_encodes_flow_protocol : forall v, accept_flow_protocol v = true -> dec_flow_protocol (enc_flow_protocol v) = v /\ length (enc_flow_protocol v) = 1%nat.
Proof. exact accepted_encodes_flow_protocol. Qed.

Theorem C18_accept_iff_representable_flow_next_header : forall v, accept_flow_next_header v = true <-> repr_flow_next_header v = true.
Proof. exact accept_iff_repr_flow_next_header. Qed.
Theorem C18_accepted_encodes_flow_next_header : forall v, accept_flow_next_header v = true -> dec_flow_next_header (enc_flow_next_header v) = v /\ length (enc_flow_next_header v) = 1%nat.
Proof. exact accepted_encodes_flow_next_header. Qed.

Theorem C18_accept_iff_representable_flow_icmp_type : forall v, accept_flow_icmp_type v = true <-> repr_flow_icmp_type v = true.
Proof. exact accept_iff_repr_flow_icmp_type. Qed.
Theorem C18_accepted_encodes_flow_icmp_type : forall v, accept_flow_icmp_type v = true -> dec_flow_icmp_type (enc_flow_icmp_type v) = v /\ length (enc_flow_icmp_type v) = 1%nat.
Proof. exact accepted_encodes_flow_icmp_type. Qed.

Theorem C18_accept_iff_representable_flow_icmp_code : forall v, accept_flow_icmp_code v = true <-> repr_flow_icmp_code v = true.
Proof. exact accept_iff_repr_flow_icmp_code. Qed.
Theorem C18_accepted_encodes_flow_icmp_code : forall v, accept_flow_icmp_code v = true -> dec_flow_icmp_code (enc_flow_icmp_code v) = v /\ length (enc_flow_icmp_code v) = 1%nat.
Proof. exact accepted_encodes_flow_icmp_code. Qed.

Theorem C18_accept_iff_representable_flow_dscp : forall v, accept_flow_dscp v = true <-> repr_flow_dscp v = true.
Proof. exact accept_iff_repr_flow_dscp. Qed.
Theorem C18_accepted_encodes_flow_dscp : forall v, accept_flow_dscp v = true -> dec_flow_dscp (enc_flow_dscp v) = v /\ length (enc_flow_dscp v) = 1%nat.
Proof. exact accepted_encodes_flow_dscp. Qed.

Theorem C18_accept_iff_representable_flow_traffic_class : forall v, accept_flow_traffic_class v = true <-> repr_flow_traffic_class v = true.
Proof. exact accept_iff_repr_flow_traffic_class. Qed.
Theorem C18_accepted_encodes_flow_traffic_class : forall v, accept_flow_traffic_class v = true -> dec_flow_traffic_class (enc_flow_traffic_class v) = v /\ length (enc_flow_traffic_class v) = 1%nat.
Proof. exact accepted_encodes_flow_traffic_class. Qed.

Theorem C18_accept_iff_representable_flow_flow_label : forall v, accept_flow_flow_label v = true <-> repr_flow_flow_label v = true.
Proof. exact accept_iff_repr_flow_flow_label. Qed.
Theorem C18_accepted_encodes_flow_flow_label : forall v, accept_flow_flow_label v = true -> dec_flow_flow_label (enc_flow_flow_label v) = v /\ In (length (enc_flow_flow_label v)) [1%nat; 2%nat; 4%nat].
Proof. exact accepted_encodes_flow_flow_label. Qed.

Theorem C18_accept_iff_representable_flow_mark : forall v, accept_flow_mark v = true <-> repr_flow_mark v = true.
Proof. exact accept_iff_repr_flow_mark. Qed.
Theorem C18_accepted_encodes_flow_mark : forall v, accept_flow_mark v = true -> dec_flow_mark (enc_flow_mark v) = v /\ length (enc_flow_mark v) = 1%nat.
Proof. exact accepted_encodes_flow_mark. Qed.

Theorem C18_accept_iff_representable_mask_ipv4 : forall v, accept_mask_ipv4 v = true <-> repr_mask_ipv4 v = true.
Proof. exact accept_iff_repr_mask_ipv4. Qed.
Theorem C18_accepted_encodes_mask_ipv4 : forall v, accept_mask_ipv4 v = true -> dec_mask_ipv4 (enc_mask_ipv4 v) = v /\ length (enc_mask_ipv4 v) = 1%nat.
Proof. exact accepted_encodes_mask_ipv4. Qed.

Theorem C18_accept_iff_representable_mask_ipv6 : forall v, accept_mask_ipv6 v = true <-> repr_mask_ipv6 v = true.
Proof. exact accept_iff_repr_mask_ipv6. Qed.
Theorem C18_accepted_encodes_mask_ipv6 : forall v, accept_mask_ipv6 v = true -> dec_mask_ipv6 (enc_mask_ipv6 v) = v /\ length (enc_mask_ipv6 v) = 1%nat.
Proof. exact accepted_encodes_mask_ipv6. Qed.

Theorem C18_accept_iff_representable_flow_mask_ipv4 : forall v, accept_flow_mask_ipv4 v = true <-> repr_flow_mask_ipv4 v = true.
Proof. exact accept_iff_repr_flow_mask_ipv4. Qed.
Theorem C18_accepted_encodes_flow_mask_ipv4 : forall v, accept_flow_mask_ipv4 v = true -> dec_flow_mask_ipv4 (enc_flow_mask_ipv4 v) = v /\ length (enc_flow_mask_ipv4 v) = 1%nat.
Proof. exact accepted_encodes_flow_mask_ipv4. Qed.

Theorem C18_accept_iff_representable_flow_mask_ipv6 : forall v, accept_flow_mask_ipv6 v = true <-> repr_flow_mask_ipv6 v = true.
Proof. exact accept_iff_repr_flow_mask_ipv6. Qed.
Theorem C18_accepted_encodes_flow_mask_ipv6 : forall v, accept_flow_mask_ipv6 v = true -> dec_flow_mask_ipv6 (enc_flow_mask_ipv6 v) = v /\ length (enc_flow_mask_ipv6 v) = 1%nat.
Proof. exact accepted_encodes_flow_mask_ipv6. Qed.

Theorem C18_accept_iff_representable_rd : forall n s, accept_rd n s = true <-> repr_rd n s = true.
Proof. exact accept_iff_repr_rd. Qed.
Theorem C18_accepted_encodes_rd : forall n s, accept_rd n s = true -> dec_rd (enc_rd n s) = (n, s) /\ length (enc_rd n s) = 8%nat.
Proof. exact accepted_encodes_rd. Qed.

(* non-vacuity: accepted values exist at both ends of a field, and the encoders produce the RFC octets *)
Example C18_witness :
  accept_med 0 = true /\ accept_med 4294967295 = true /\ accept_med 4294967296 = false /\ accept_med (-1) = false /\
  accept_asn 4294967295 = true /\ accept_label 1048575 = true /\ accept_label 1048576 = false /\
  enc_med 4294967295 = [255; 255; 255; 255] /\ enc_label 1048575 = [255; 255; 241] /\
  enc_rd 65000 1 = [0; 0; 253; 232; 0; 0; 0; 1] /\ dec_rd (enc_rd 70000 9) = (70000, 9).
Proof. vm_compute. repeat split. Qed.

Print Assumptions C18_accept_iff_representable_med.
Print Assumptions C18_accepted_encodes_med.
Print Assumptions C18_accept_iff_representable_local_preference.
Print Assumptions C18_accepted_encodes_local_preference.
Print Assumptions C18_accept_iff_representable_aigp.
Print Assumptions C18_accepted_encodes_aigp.
Print Assumptions C18_accept_iff_representable_asn.
Print Assumptions C18_accepted_encodes_asn.
Print Assumptions C18_accept_iff_representable_asn_dotted_part.
Print Assumptions C18_accepted_encodes_asn_dotted_part.
Print Assumptions C18_accept_iff_representable_community_high.
Print Assumptions C18_accepted_encodes_community_high.
Print Assumptions C18_accept_iff_representable_community_low.
Print Assumptions C18_accepted_encodes_community_low.
Print Assumptions C18_accept_iff_representable_community_number.
Print Assumptions C18_accepted_encodes_community_number.
Print Assumptions C18_accept_iff_representable_large_community_part.
Print Assumptions C18_accepted_encodes_large_community_part.
Print Assumptions C18_accept_iff_representable_label.
Print Assumptions C18_accepted_encodes_label.
Print Assumptions C18_accept_iff_representable_path_information.
Print Assumptions C18_accepted_encodes_path_information.
Print Assumptions C18_accept_iff_representable_attribute_code.
Print Assumptions C18_accepted_encodes_attribute_code.
Print Assumptions C18_accept_iff_representable_attribute_flag.
Print Assumptions C18_accepted_encodes_attribute_flag.
Print Assumptions C18_accept_iff_representable_vpls_endpoint.
Print Assumptions C18_accepted_encodes_vpls_endpoint.
Print Assumptions C18_accept_iff_representable_vpls_size.
Print Assumptions C18_accepted_encodes_vpls_size.
Print Assumptions C18_accept_iff_representable_vpls_offset.
Print Assumptions C18_accepted_encodes_vpls_offset.
Print Assumptions C18_accept_iff_representable_vpls_base.
Print Assumptions C18_accepted_encodes_vpls_base.
Print Assumptions C18_accept_iff_representable_flow_port.
Print Assumptions C18_accepted_encodes_flow_port.
Print Assumptions C18_accept_iff_representable_flow_packet_length.
Print Assumptions C18_accepted_encodes_flow_packet_length.
Print Assumptions C18_accept_iff_representable_flow_protocol.
Print Assumptions C18_accepted_encodes_flow_protocol.
Print Assumptions C18_accept_iff_representable_flow_next_header.
Print Assumptions C18_accepted_encodes_flow_next_header.
Print Assumptions C18_accept_iff_representable_flow_icmp_type.
Print Assumptions C18_accepted_encodes_flow_icmp_type.
Print Assumptions C18_accept_iff_representable_flow_icmp_code.
Print Assumptions C18_accepted_encodes_flow_icmp_code.
Print Assumptions C18_accept_iff_representable_flow_dscp.
Print Assumptions C18_accepted_encodes_flow_dscp.
Print Assumptions C18_accept_iff_representable_flow_traffic_class.
Print Assumptions C18_accepted_encodes_flow_traffic_class.
Print Assumptions C18_accept_iff_representable_flow_flow_label.
Print Assumptions C18_accepted_encodes_flow_flow_label.
Print Assumptions C18_accept_iff_representable_flow_mark.
Print Assumptions C18_accepted_encodes_flow_mark.
Print Assumptions C18_accept_iff_representable_mask_ipv4.
Print Assumptions C18_accepted_encodes_mask_ipv4.
Print Assumptions C18_accept_iff_representable_mask_ipv6.
Print Assumptions C18_accepted_encodes_mask_ipv6.
Print Assumptions C18_accept_iff_representable_flow_mask_ipv4.
Print Assumptions C18_accepted_encodes_flow_mask_ipv4.
Print Assumptions C18_accept_iff_representable_flow_mask_ipv6.
Print Assumptions C18_accepted_encodes_flow_mask_ipv6.
Print Assumptions C18_accept_iff_representable_rd.
Print Assumptions C18_accepted_encodes_rd.
