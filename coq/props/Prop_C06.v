(* C06 - Message framing is independent of how TCP delivers the bytes.
   Statements only; every proof is `exact <lemma>`; assumptions are printed. *)
From Coq Require Import ZArith Bool List Arith.
From ExaV Require Import gen.Gen_Header model.Model_Reader spec.Spec_Frame proofs.Proofs_Reader.
Import ListNotations.
Open Scope Z_scope.

(* The messages/notification handed to the protocol layer by the modelled reader (header test
   regenerated from connection.py, both the asyncio and the generator reader) are exactly the RFC
   framing of the stream, whatever each recv call returns. *)
Theorem C06_equals_frame : forall async max stream sched,
  map conv (reader async max stream sched) = frames max stream.
Proof. exact reader_is_frames. Qed.

Theorem C06_segmentation_independent : forall async1 async2 max stream sched1 sched2,
  reader async1 max stream sched1 = reader async2 max stream sched2.
Proof. exact reader_sched_independent. Qed.

(* nothing is interpreted after an error: a NOTIFICATION can only be the last output *)
Theorem C06_nothing_after_error : forall fuel max s,
  forallb (fun o => negb (is_fnotify o)) (removelast (frame fuel max s)) = true.
Proof. exact frame_notify_last. Qed.

Theorem C06_bad_marker : forall max s,
  (19 <= length s)%nat -> all_ff (firstn 16 s) = false -> frames max s = [FNotify 1 1].
Proof. exact frames_marker. Qed.

Theorem C06_bad_length : forall max s,
  (19 <= length s)%nat -> all_ff (firstn 16 s) = true ->
  let len := 256 * nth 16 s 0 + nth 17 s 0 in
  (len < 19 \/ max < len \/ rfc_len_ok (nth 18 s 0) len = false) ->
  frames max s = [FNotify 1 2].
Proof. exact frames_length. Qed.

Theorem C06_unknown_type : forall max s,
  (19 <= length s)%nat -> all_ff (firstn 16 s) = true ->
  let len := 256 * nth 16 s 0 + nth 17 s 0 in
  19 <= len <= max -> (Z.to_nat len <= length s)%nat ->
  known_type (nth 18 s 0) = false ->
  frames max s = [FNotify 1 3].
Proof. exact frames_unknown_type. Qed.

Theorem C06_complete_message : forall max s,
  (19 <= length s)%nat -> all_ff (firstn 16 s) = true ->
  let len := 256 * nth 16 s 0 + nth 17 s 0 in
  let ty := nth 18 s 0 in
  19 <= len <= max -> rfc_len_ok ty len = true -> (Z.to_nat len <= length s)%nat ->
  known_type ty = true ->
  frames max s = FMsg ty (firstn (Z.to_nat len - 19) (skipn 19 s)) :: frames max (skipn (Z.to_nat len) s).
Proof. exact frames_message. Qed.

(* ---- the read step of Peer._main: a 100 ms wait around the read, repeated.  `main_reader` follows
   what Peer._read_message_or_nop does (READ_KEPT is regenerated from its source): a schedule is any
   interleaving of reads (`Recv k`: the next recv returns at most k+1 bytes) and expired waits
   (`Timeout`).  Whatever the interleaving, as soon as it contains enough reads to drain the stream,
   the messages handed to the session are the RFC framing of the stream. *)
Theorem C06_main_loop_reader : forall max stream evs,
  (length stream <= recvs evs)%nat ->
  map conv (main_reader max stream evs) = frames max stream.
Proof. exact timed_reader_is_frames. Qed.

Theorem C06_timeouts_irrelevant : forall max stream evs1 evs2,
  filter is_recv evs1 = filter is_recv evs2 ->
  main_reader max stream evs1 = main_reader max stream evs2.
Proof. exact timed_reader_timeout_independent. Qed.

(* the statement is not vacuous, and it is about the waiting discipline: a reader which drops its
   partial message when the wait expires (what asyncio.wait_for does to the read) loses bytes *)
Theorem C06_cancelled_read_refuted :
  timed_reader true 4096 (ka ++ ka) [Recv 9; Timeout; Recv 100; Recv 100] = [OMsg 4 []; OMsg 4 []] /\
  timed_reader false 4096 (ka ++ ka) [Recv 9; Timeout; Recv 100; Recv 100] = [ONotify 1 1].
Proof. exact cancelled_read_loses_bytes. Qed.

(* the two maxima the connection can hold (Negotiated.msg_size is C07's theorem) *)
Theorem C06_sizes : INITIAL_SIZE = 4096 /\ EXTENDED_SIZE = 65535.
Proof. split; reflexivity. Qed.

(* non-vacuity: a KEEPALIVE followed by a 23-byte UPDATE split over arbitrary reads *)
Example C06_example :
  reader true 4096
    ([255;255;255;255;255;255;255;255;255;255;255;255;255;255;255;255;0;19;4] ++
     [255;255;255;255;255;255;255;255;255;255;255;255;255;255;255;255;0;23;2;0;0;0;0]) [0;2;0;6]%nat
  = [OMsg 4 []; OMsg 2 [0;0;0;0]].
Proof. vm_compute. reflexivity. Qed.

Print Assumptions C06_equals_frame.
Print Assumptions C06_segmentation_independent.
Print Assumptions C06_nothing_after_error.
Print Assumptions C06_bad_marker.
Print Assumptions C06_bad_length.
Print Assumptions C06_unknown_type.
Print Assumptions C06_complete_message.
Print Assumptions C06_main_loop_reader.
Print Assumptions C06_timeouts_irrelevant.
Print Assumptions C06_cancelled_read_refuted.
Print Assumptions C06_sizes.
