(* C13 - API events stay well-formed whatever a peer sends.
   Statements only; every proof is `exact <lemma>`; assumptions are printed.

   Proved here, for ALL strings / keys / fragments: the escaping that ExaBGP applies to peer-chosen text
   (json.dumps, ensure_ascii), the text encoder's `oneline`, the envelope combinators, against a strict
   RFC 8259 recogniser (`wf_json`, a pushdown automaton folded over the text) and the ASCII step of
   Processes.write.  The key names of the attribute object come from the table regenerated from
   AttributeCollection.representation on every run (gen/Gen_JsonKeys.v).
   NOT modelled (partial): the bodies of the per-class json() / __str__ methods of NLRI, attribute,
   capability and BGP-LS TLV classes.  They enter the theorems as fragments with the hypothesis
   "is one well-formed JSON value on one line"; that hypothesis is validated only by harness/c13.py, which
   parses every event the real encoders produce. *)
From Coq Require Import ZArith Bool List.
From ExaV Require Import gen.Gen_JsonKeys model.Model_Json proofs.Proofs_Json.
From ExaV Require Import model.Model_JsonEvent proofs.Proofs_JsonEvent proofs.Proofs_JsonNeighbor proofs.Proofs_JsonEnvelope
  model.Model_JsonFrag proofs.Proofs_JsonFrag.
From ExaV Require model.Model_WriteQueue proofs.Proofs_WriteQueue.
Import ListNotations.
Open Scope Z_scope.

(* ---- peer-chosen text inside a JSON string *)

(* every character of the escaped text is printable ASCII, and the escaped text is transparent to the string
   scanner: whatever follows it is read in the same string, in the same context - so the text can neither close
   the string (no unescaped quote or backslash) nor break the line *)
Theorem C13_escape_safe : forall s,
  Forall (fun c => 32 <= c <= 126) (escape s)
  /\ forall stk key rest, run (stk, MStr key) (escape s ++ rest) = run (stk, MStr key) rest.
Proof. exact escape_safe. Qed.

Theorem C13_escaped_string_is_wf : forall s,
  wf_json (json_string s) = true /\ single_line (json_string s) = true /\ ascii_encodable (json_string s) = true.
Proof. exact escaped_string_full. Qed.

(* in any context (inside any nesting of objects and arrays) the string is read as exactly one value *)
Theorem C13_escaped_string_in_context : forall s K, run (K, MVal) (json_string s) = Some (K, MAfter).
Proof. exact escaped_string_run. Qed.

(* integers and booleans as JSON._string prints them *)
Theorem C13_scalar_wf : forall n b, wf_json (json_int n) = true /\ wf_json (json_bool b) = true.
Proof. exact scalar_wf. Qed.

(* ---- envelope *)

(* `"key": value` built from a key that needs no escaping and a well-formed fragment is one member, its key is `key` *)
Theorem C13_member_wf : forall k v,
  safe_key k = true -> wf_json v = true ->
  wf_member (kv_pair k v) = true /\ member_key (kv_pair k v) = Some k.
Proof. exact member_full. Qed.

(* "{ " ++ members joined by ", " ++ " }" is a well-formed value whenever every member is (JSON._header,
   _neighbor, notification, open, negotiated ... splice pre-rendered members this way); no member: "{  }" *)
Theorem C13_object_of_members_wf : forall ms,
  Forall (fun m => wf_member m = true) ms ->
  wf_json (obj_of_members ms) = true /\ forall K, run (K, MVal) (obj_of_members ms) = Some (K, MAfter).
Proof. exact object_of_members_full. Qed.

(* an object built from distinct keys and well-formed single-line fragments: well-formed, one line, and the keys
   found in the rendered members are exactly the given ones, without repetition *)
Theorem C13_object_wf : forall kvs,
  Forall (fun kv => safe_key (fst kv) = true /\ wf_json (snd kv) = true) kvs ->
  Forall (fun kv => single_line (snd kv) = true) kvs ->
  NoDup (map fst kvs) ->
  wf_json (json_object kvs) = true
  /\ single_line (json_object kvs) = true
  /\ map member_key (map (fun kv => kv_pair (fst kv) (snd kv)) kvs) = map (fun kv => Some (fst kv)) kvs
  /\ dup_free (map fst kvs) = true.
Proof. exact object_full. Qed.

Theorem C13_dup_free_is_NoDup : forall ks, dup_free ks = true <-> NoDup ks.
Proof. exact dup_free_NoDup. Qed.

(* ---- the attribute object: names under which _generate_json emits the codes of the regenerated table.
   Any two distinct codes can be present in one decoded UPDATE (a dict keyed by code), so the names of the
   emitted codes must be pairwise distinct, need no escaping and must not look like a generic key. *)

Theorem C13_no_duplicate_keys_criterion : forall (H : Type) (t : list (Z * H * list Z * bool)),
  attr_keys_ok t = true <->
  (NoDup (emitted_names t)
   /\ forall n, In n (emitted_names t) -> safe_key n = true /\ is_prefix generic_prefix n = false).
Proof. exact keys_criterion. Qed.

(* finite check over the regenerated table, valid whatever the tree: the attribute object is free of duplicate
   keys exactly when AS4_AGGREGATOR (18) is not emitted under AGGREGATOR's (7) name *)
Theorem C13_no_duplicate_keys_iff :
  attr_keys_ok attr_key_table = true <-> key_name 18 attr_key_table <> key_name 7 attr_key_table.
Proof. exact regenerated_keys_iff. Qed.

(* ... and without code 18 the regenerated table is fine *)
Theorem C13_no_duplicate_keys_partial : attr_keys_ok (drop_code 18 attr_key_table) = true.
Proof. exact regenerated_keys_partial. Qed.

(* REFUTED on the pinned tree (D7): its table gives codes 7 and 18 the same name "aggregator" *)
Theorem C13_no_duplicate_keys_refuted :
  key_name 7 pinned_attr_key_table = key_name 18 pinned_attr_key_table
  /\ key_name 7 pinned_attr_key_table = Some [97;103;103;114;101;103;97;116;111;114]
  /\ ~ NoDup (emitted_names pinned_attr_key_table).
Proof. exact pinned_keys_refuted. Qed.

(* ---- text encoder: oneline, for any oracle `pr` of str.isprintable above ASCII *)

Theorem C13_text_no_control : forall pr s x,
  In x (oneline pr s) -> 32 <= x /\ x <> 127 /\ (x <= 126 \/ (128 <= x /\ pr x = true)).
Proof. exact oneline_no_control_full. Qed.

(* Processes.write: bytes(..., 'ascii') succeeds when no kept character lies above ASCII ... *)
Theorem C13_text_ascii_partial : forall pr s,
  (forall c, In c s -> 128 <= c -> pr c = false) -> ascii_encodable (oneline pr s) = true.
Proof. exact oneline_ascii_partial. Qed.

(* ... REFUTED otherwise (D8): a printable non-ASCII character survives oneline and cannot be encoded *)
Theorem C13_text_ascii_refuted : forall pr, pr 233 = true -> ascii_encodable (oneline pr [233]) = false.
Proof. exact text_ascii_refuted. Qed.

(* finite check over the regenerated table of Latin-1 characters that oneline keeps, valid whatever the tree:
   all of Latin-1 is encodable after oneline exactly when oneline keeps none of 128..255 *)
Theorem C13_text_ascii_latin1_iff :
  ascii_encodable (oneline (in_table oneline_kept_latin1) latin1_range) = true <-> oneline_kept_latin1 = [].
Proof. exact regenerated_text_ascii_iff. Qed.

(* ---- JSON._update (Model_JsonEvent.update_message): announces grouped by family then next hop, withdraws by family,
   the attribute object, the End-of-RIB and the empty cases, every comma.  NLRI json, the attribute content and the
   eor member are fragments (already rendered text); family names and next hop strings are interpolated verbatim by
   the code, so they must need no escaping (they are ExaBGP's own words and printed IP addresses).
   For ANY number of families / next hops / routes: *)

(* if every fragment is well-formed single-line JSON, the whole message is *)
Theorem C13_update_event_wf : forall u,
  (forall m, u_eor u = Some m -> wf_member m = true /\ single_line m = true) ->
  Forall (fun a => safe_key (fst a) = true /\ (safe_key (fst (snd a)) = true
                   /\ (wf_json (snd (snd a)) = true /\ single_line (snd (snd a)) = true))) (u_ann u) ->
  Forall (fun w => safe_key (fst w) = true /\ (wf_json (snd w) = true /\ single_line (snd w) = true)) (u_wd u) ->
  (forall c, u_attr u = Some c -> wf_json (braces c) = true /\ single_line (braces c) = true) ->
  wf_json (update_message u) = true /\ single_line (update_message u) = true.
Proof. exact update_message_ok. Qed.

(* what the message is: one object { "update": { members } } whose members are, in this order and each at most
   once, "attribute", "announce", "withdraw" - nothing else, no dangling separator *)
Theorem C13_update_event_shape : forall u, u_eor u = None ->
  update_message u = obj_of_members [kv_pair k_update (obj_of_members (update_members u))].
Proof. exact update_message_shape. Qed.

(* the grouping introduces no duplicate key at any level: families are distinct under "announce" and under
   "withdraw", next hops are distinct inside every family, and the key found in each rendered member is that
   family / next hop; the update object holds each of its (at most three) keys once *)
Theorem C13_update_grouping_no_duplicate_keys : forall u,
  Forall ann_ok (u_ann u) -> Forall wd_ok (u_wd u) ->
  NoDup (map fst (group (u_ann u)))
  /\ map member_key (add_members u) = map (fun f => Some (fst f)) (group (u_ann u))
  /\ (forall f, In f (group (u_ann u)) ->
        NoDup (map fst (group (snd f)))
        /\ map member_key (map nh_member (group (snd f))) = map (fun g => Some (fst g)) (group (snd f)))
  /\ NoDup (map fst (group (u_wd u)))
  /\ map member_key (remove_members u) = map (fun f => Some (fst f)) (group (u_wd u))
  /\ NoDup (map member_key (update_members u))
  /\ (forall k, In k (map member_key (update_members u)) -> In k [Some k_attribute; Some k_announce; Some k_withdraw]).
Proof. exact update_keys. Qed.

(* dict.setdefault semantics: whatever the input, grouped keys are pairwise distinct *)
Theorem C13_group_keys_distinct : forall (V : Type) (l : list (list Z * V)), NoDup (map fst (group l)).
Proof. exact (@group_NoDup). Qed.

(* ---- the documented envelope (JSON._header around JSON._neighbor around JSON._kv), for every event about a neighbor:
   the line is exactly one object whose keys are exabgp, time, host, pid, ppid, counter, type, [header], [body],
   neighbor - each once - and the neighbor object's keys are address, asn, [router-id], [direction] followed by the
   keys of the event's own content.  Strings the code interpolates verbatim (version, host name, type, addresses,
   router-id, direction, hex of header / body) must need no escaping; values of the content are any well-formed fragments *)
Theorem C13_event_envelope : forall e counter mtype hdr body p direction kvs,
  env_ok e -> safe_key mtype = true -> opt_safe hdr -> opt_safe body ->
  peer_ok p -> opt_safe direction -> Forall kv_ok kvs ->
  neighbor_event e counter mtype hdr body p direction kvs
    = obj_of_members (event_members e counter mtype hdr body p direction kvs)
  /\ (wf_json (neighbor_event e counter mtype hdr body p direction kvs) = true
      /\ single_line (neighbor_event e counter mtype hdr body p direction kvs) = true)
  /\ map member_key (event_members e counter mtype hdr body p direction kvs)
     = map Some (header_keys (Some counter) hdr body ++ [k_neighbor])
  /\ map member_key (event_neighbor_members p direction kvs)
     = map Some (neighbor_keys p direction ++ map fst kvs).
Proof. exact neighbor_event_ok. Qed.

Theorem C13_envelope_keys_distinct : forall counter hdr body extra,
  In extra [k_neighbor; k_notification] -> dup_free (header_keys counter hdr body ++ [extra]) = true.
Proof. exact header_keys_dup_free. Qed.

Theorem C13_neighbor_keys_distinct : forall p direction (ks : list (list Z)),
  NoDup ks -> (forall k, In k ks -> ~ In k [k_address; k_asn; k_router_id; k_direction]) ->
  NoDup (neighbor_keys p direction ++ ks).
Proof. exact neighbor_level_NoDup. Qed.

(* the event without a neighbor (shutdown) *)
Theorem C13_global_event_envelope : forall e mtype kvs,
  env_ok e -> safe_key mtype = true -> Forall kv_ok kvs -> kvs <> [] ->
  global_event e mtype kvs
    = obj_of_members (header_pre e None mtype None None ++ map (fun kv => kv_pair (fst kv) (snd kv)) kvs)
  /\ (wf_json (global_event e mtype kvs) = true /\ single_line (global_event e mtype kvs) = true)
  /\ map member_key (header_pre e None mtype None None ++ map (fun kv => kv_pair (fst kv) (snd kv)) kvs)
     = map Some (header_keys None None None ++ map fst kvs).
Proof. exact global_event_ok. Qed.

(* ---- event kinds.  down: the reason is ANY text *)
Theorem C13_down_event : forall e counter p reason,
  env_ok e -> peer_ok p ->
  (wf_json (ev_down e counter p reason) = true /\ single_line (ev_down e counter p reason) = true)
  /\ map member_key (event_members e counter t_state None None p None
                       [(k_state, json_string [100; 111; 119; 110]); (k_reason, json_string reason)])
     = map Some (header_keys (Some counter) None None ++ [k_neighbor])
  /\ map member_key (event_neighbor_members p None [(k_state, json_string [100; 111; 119; 110]); (k_reason, json_string reason)])
     = map Some (neighbor_keys p None ++ [k_state; k_reason]).
Proof. exact ev_down_ok. Qed.

(* notification: the hex data and the decoded message are ANY text *)
Theorem C13_notification_event : forall e counter hdr body p direction code subcode hex text,
  env_ok e -> opt_safe hdr -> opt_safe body -> peer_ok p -> safe_key direction = true ->
  (wf_json (ev_notification e counter hdr body p direction code subcode hex text) = true
   /\ single_line (ev_notification e counter hdr body p direction code subcode hex text) = true)
  /\ map member_key (event_members e counter k_notification hdr body p (Some direction)
                       [(k_notification, notification_object code subcode hex text)])
     = map Some (header_keys (Some counter) hdr body ++ [k_neighbor])
  /\ map member_key (event_neighbor_members p (Some direction) [(k_notification, notification_object code subcode hex text)])
     = map Some (neighbor_keys p (Some direction) ++ [k_notification]).
Proof. exact ev_notification_ok. Qed.

Theorem C13_state_event : forall e counter mtype p word,
  env_ok e -> safe_key mtype = true -> peer_ok p ->
  (wf_json (ev_state e counter mtype p word) = true /\ single_line (ev_state e counter mtype p word) = true)
  /\ map member_key (event_members e counter mtype None None p None [(k_state, json_string word)])
     = map Some (header_keys (Some counter) None None ++ [k_neighbor])
  /\ map member_key (event_neighbor_members p None [(k_state, json_string word)])
     = map Some (neighbor_keys p None ++ [k_state]).
Proof. exact ev_state_ok. Qed.

Theorem C13_keepalive_event : forall e counter hdr body p direction,
  env_ok e -> opt_safe hdr -> opt_safe body -> peer_ok p -> safe_key direction = true ->
  (wf_json (ev_keepalive e counter hdr body p direction) = true /\ single_line (ev_keepalive e counter hdr body p direction) = true)
  /\ map member_key (event_members e counter t_keepalive hdr body p (Some direction) [])
     = map Some (header_keys (Some counter) hdr body ++ [k_neighbor])
  /\ map member_key (event_neighbor_members p (Some direction) []) = map Some (neighbor_keys p (Some direction) ++ []).
Proof. exact ev_keepalive_ok. Qed.

(* the whole update event line: envelope + JSON._update + optional negotiated fragment *)
Theorem C13_update_event_line : forall e counter hdr body p direction u negotiated,
  env_ok e -> opt_safe hdr -> opt_safe body -> peer_ok p -> safe_key direction = true ->
  (forall m, u_eor u = Some m -> member_ok m) ->
  Forall ann_ok (u_ann u) -> Forall wd_ok (u_wd u) ->
  (forall c, u_attr u = Some c -> frag_ok (braces c)) ->
  (forall n, negotiated = Some n -> frag_ok n) ->
  (wf_json (ev_update e counter hdr body p direction u negotiated) = true
   /\ single_line (ev_update e counter hdr body p direction u negotiated) = true)
  /\ map member_key (event_members e counter t_update hdr body p (Some direction) (update_kvs u negotiated))
     = map Some (header_keys (Some counter) hdr body ++ [k_neighbor])
  /\ map member_key (event_neighbor_members p (Some direction) (update_kvs u negotiated))
     = map Some (neighbor_keys p (Some direction) ++ map fst (update_kvs u negotiated)).
Proof. exact ev_update_ok. Qed.

(* ---- json() bodies modelled exactly (Model_JsonFrag): the INET NLRI and the attribute object restricted to ORIGIN,
   NEXT_HOP, MED, LOCAL_PREF, ATOMIC_AGGREGATE, AGGREGATOR, COMMUNITY, ORIGINATOR_ID, CLUSTER_LIST, for ALL decoded
   values.  These discharge the fragment hypotheses of C13_update_event_wf for updates made of such routes and
   attributes; every other class stays a fragment validated by the harness only (AS_PATH included: json.dumps of a dict) *)
Theorem C13_inet_nlri_fragment : forall prefix pathinfo compact,
  safe_key prefix = true -> opt_safe pathinfo ->
  (wf_json (inet_json prefix pathinfo compact) = true /\ single_line (inet_json prefix pathinfo compact) = true)
  /\ match pathinfo, compact with
     | Some pi, _ => map member_key [kv_pair k_nlri (quoted prefix); kv_pair k_path_information (quoted pi)]
                     = [Some k_nlri; Some k_path_information]
     | None, false => map member_key [kv_pair k_nlri (quoted prefix)] = [Some k_nlri]
     | None, true => True
     end.
Proof. exact inet_json_ok. Qed.

Theorem C13_simple_attributes_fragment : forall l,
  NoDup (map attr_code l) -> Forall attr_ok l ->
  (wf_json (braces (attr_content l)) = true /\ single_line (braces (attr_content l)) = true)
  /\ map member_key (map attr_member l) = map Some (map attr_name l)
  /\ NoDup (map attr_name l).
Proof. exact attr_content_ok. Qed.

(* the key names used by the model are the ones of the regenerated representation table *)
Theorem C13_simple_attribute_names_regenerated :
  forallb (fun a => opt_eqb (key_name (attr_code a) attr_key_table) (Some (attr_name a))) attr_representatives = true.
Proof. exact attr_names_regenerated. Qed.

(* non-vacuity of the update theorems: two families, a next hop shared by two routes and reused in the other family,
   a withdraw, attributes *)
Example C13_update_example :
  let r s := json_object [([110; 108; 114; 105], json_string s)] in
  let v4 := [105; 112; 118; 52] in let v6 := [105; 112; 118; 54] in
  let nh := [49; 46; 49; 46; 49; 46; 49] in let nh2 := [50; 46; 50; 46; 50; 46; 50] in
  let u := mkUpd None [(v4, (nh, r [97])); (v6, (nh, r [98])); (v4, (nh2, r [99])); (v4, (nh, r [100]))]
                 [(v6, r [101])] (Some (kv_pair [109; 101; 100] (json_int 5))) in
  wf_json (update_message u) = true
  /\ map fst (group (u_ann u)) = [v4; v6]
  /\ map (fun f => map fst (group (snd f))) (group (u_ann u)) = [[nh; nh2]; [nh]]
  /\ wf_json (update_message (mkUpd None [] [] (Some (kv_pair [109; 101; 100] (json_int 5))))) = true
  /\ wf_json (update_message (mkUpd None [] [] None)) = true.
Proof. vm_compute. repeat split. Qed.

(* ---- non-vacuity: a hostile host name inside an envelope of two levels *)
Example C13_example :
  let hostile := [97; 34; 125; 10; 92; 233; 128512; 0] in          (* a, quote, closing brace, LF, backslash, e-acute, U+1F600, NUL *)
  let inner := json_object [([104; 111; 115; 116], json_string hostile); ([112; 105; 100], json_int (-42))] in
  wf_json (json_object [([116; 121; 112; 101], json_string [111; 112; 101; 110]); ([110], inner); ([117; 112], json_bool true)]) = true
  /\ single_line inner = true /\ ascii_encodable inner = true
  /\ wf_json (json_string [97] ++ [10] ++ json_string [98]) = false     (* two values are not one *)
  /\ wf_json ([34] ++ hostile ++ [34]) = false.                          (* unescaped, the same text is refused *)
Proof. vm_compute. repeat split. Qed.

(* ---- the API pipe (Processes.write in async mode, Processes.flush_write_queue; Model_WriteQueue, tied by
   harness/wqueue.py).  For EVERY history of write() calls and flushes, whatever the pipe accepts at each os.write
   (everything, a part, nothing, EAGAIN; at most BATCH items per flush) and as long as the pipe reports no error:
   what the helper has read, followed by what is still queued, is exactly the records written, in the order written -
   no record overtaken, repeated, dropped or cut anywhere but at the end of what was read so far.  (C13: every event is read as exactly one whole record.) *)
Theorem C13_api_pipe_in_order : forall ops,
  forallb Model_WriteQueue.error_free ops = true ->
  Model_WriteQueue.wq_dead (Model_WriteQueue.run ops) = false
  /\ Model_WriteQueue.wq_out (Model_WriteQueue.run ops) ++ concat (Model_WriteQueue.wq_q (Model_WriteQueue.run ops))
     = Model_WriteQueue.enqueued ops.
Proof. exact Proofs_WriteQueue.queue_in_order. Qed.

(* a pipe that takes everything empties a queue of at most BATCH records in one flush *)
Theorem C13_api_pipe_drains : forall big q out budget,
  Forall (fun d => (length d <= big)%nat) q -> (length q <= budget)%nat ->
  fst (fst (Model_WriteQueue.drain q out budget (Proofs_WriteQueue.generous big (length q)))) = ([], out ++ concat q, false).
Proof. exact Proofs_WriteQueue.drain_generous. Qed.

(* not vacuous: putting a refused record back at the END of the queue (a seeded change) delivers [2; 1] for [1]; [2] *)
Theorem C13_api_pipe_back_refuted :
  let '((q1, out1, _), _, _) := Model_WriteQueue.drain_back [[1%Z]; [2%Z]] [] 10 [Model_WriteQueue.Again] in
  let '((q2, out2, _), _, _) := Model_WriteQueue.drain_back q1 out1 10 [Model_WriteQueue.W 5; Model_WriteQueue.W 5] in
  out2 = [2%Z; 1%Z] /\ q2 = [].
Proof. exact Proofs_WriteQueue.back_reorders. Qed.

Print Assumptions C13_escape_safe.
Print Assumptions C13_escaped_string_is_wf.
Print Assumptions C13_escaped_string_in_context.
Print Assumptions C13_scalar_wf.
Print Assumptions C13_member_wf.
Print Assumptions C13_object_of_members_wf.
Print Assumptions C13_object_wf.
Print Assumptions C13_dup_free_is_NoDup.
Print Assumptions C13_no_duplicate_keys_criterion.
Print Assumptions C13_no_duplicate_keys_iff.
Print Assumptions C13_no_duplicate_keys_partial.
Print Assumptions C13_no_duplicate_keys_refuted.
Print Assumptions C13_text_no_control.
Print Assumptions C13_text_ascii_partial.
Print Assumptions C13_text_ascii_refuted.
Print Assumptions C13_text_ascii_latin1_iff.
Print Assumptions C13_update_event_wf.
Print Assumptions C13_update_event_shape.
Print Assumptions C13_update_grouping_no_duplicate_keys.
Print Assumptions C13_group_keys_distinct.
Print Assumptions C13_event_envelope.
Print Assumptions C13_envelope_keys_distinct.
Print Assumptions C13_neighbor_keys_distinct.
Print Assumptions C13_global_event_envelope.
Print Assumptions C13_down_event.
Print Assumptions C13_notification_event.
Print Assumptions C13_state_event.
Print Assumptions C13_keepalive_event.
Print Assumptions C13_update_event_line.
Print Assumptions C13_inet_nlri_fragment.
Print Assumptions C13_simple_attributes_fragment.
Print Assumptions C13_simple_attribute_names_regenerated.
Print Assumptions C13_api_pipe_in_order.
Print Assumptions C13_api_pipe_drains.
Print Assumptions C13_api_pipe_back_refuted.
