(* C13 - API events stay well-formed whatever a peer sends.
   Statements only; every proof is `exact <lemma>`; assumptions are printed.

   Proved here, for ALL strings / keys / fragments: the escaping that ExaBGP applies to peer-chosen text
   (json.dumps, ensure_ascii), the text encoder's `oneline`, the envelope combinators, against a strict
   RFC 8259 recogniser (`wf_json`, a pushdown automaton folded over the text) and the ASCII step of
   Processes.write.  The key names of the attribute object come from the table regenerated from
   AttributeCollection.representation on every run (gen/Gen_JsonKeys.v).
   NOT modelled (partial): the bodies of the per-class json() / __str__ methods of NLRI, attribute,
   capability and BGP-LS TLV classes.  They enter the theorems as fragments with the hypothesis
   "is one well-formed JSON value on one line"; that hypothesis is validated only by harness/c13.py, which
   parses every event the real encoders produce. *)
From Coq Require Import ZArith Bool List.
From ExaV Require Import gen.Gen_JsonKeys model.Model_Json proofs.Proofs_Json.
Import ListNotations.
Open Scope Z_scope.

(* ---- peer-chosen text inside a JSON string *)

(* every character of the escaped text is printable ASCII, and the escaped text is transparent to the string
   scanner: whatever follows it is read in the same string, in the same context - so the text can neither close
   the string (no unescaped quote or backslash) nor break the line *)
Theorem C13_escape_safe : forall s,
  Forall (fun c => 32 <= c <= 126) (escape s)
  /\ forall stk key rest, run (stk, MStr key) (escape s ++ rest) = run (stk, MStr key) rest.
Proof. exact escape_safe. Qed.

Theorem C13_escaped_string_is_wf : forall s,
  wf_json (json_string s) = true /\ single_line (json_string s) = true /\ ascii_encodable (json_string s) = true.
Proof. exact escaped_string_full. Qed.

(* in any context (inside any nesting of objects and arrays) the string is read as exactly one value *)
Theorem C13_escaped_string_in_context : forall s K, run (K, MVal) (json_string s) = Some (K, MAfter).
Proof. exact escaped_string_run. Qed.

(* integers and booleans as JSON._string prints them *)
Theorem C13_scalar_wf : forall n b, wf_json (json_int n) = true /\ wf_json (json_bool b) = true.
Proof. exact scalar_wf. Qed.

(* ---- envelope *)

(* `"key": value` built from a key that needs no escaping and a well-formed fragment is one member, its key is `key` *)
Theorem C13_member_wf : forall k v,
  safe_key k = true -> wf_json v = true ->
  wf_member (kv_pair k v) = true /\ member_key (kv_pair k v) = Some k.
Proof. exact member_full. Qed.

(* "{ " ++ members joined by ", " ++ " }" is a well-formed value whenever every member is (JSON._header,
   _neighbor, notification, open, negotiated ... splice pre-rendered members this way); no member: "{  }" *)
Theorem C13_object_of_members_wf : forall ms,
  Forall (fun m => wf_member m = true) ms ->
  wf_json (obj_of_members ms) = true /\ forall K, run (K, MVal) (obj_of_members ms) = Some (K, MAfter).
Proof. exact object_of_members_full. Qed.

(* an object built from distinct keys and well-formed single-line fragments: well-formed, one line, and the keys
   found in the rendered members are exactly the given ones, without repetition *)
Theorem C13_object_wf : forall kvs,
  Forall (fun kv => safe_key (fst kv) = true /\ wf_json (snd kv) = true) kvs ->
  Forall (fun kv => single_line (snd kv) = true) kvs ->
  NoDup (map fst kvs) ->
  wf_json (json_object kvs) = true
  /\ single_line (json_object kvs) = true
  /\ map member_key (map (fun kv => kv_pair (fst kv) (snd kv)) kvs) = map (fun kv => Some (fst kv)) kvs
  /\ dup_free (map fst kvs) = true.
Proof. exact object_full. Qed.

Theorem C13_dup_free_is_NoDup : forall ks, dup_free ks = true <-> NoDup ks.
Proof. exact dup_free_NoDup. Qed.

(* ---- the attribute object: names under which _generate_json emits the codes of the regenerated table.
   Any two distinct codes can be present in one decoded UPDATE (a dict keyed by code), so the names of the
   emitted codes must be pairwise distinct, need no escaping and must not look like a generic key. *)

Theorem C13_no_duplicate_keys_criterion : forall (H : Type) (t : list (Z * H * list Z * bool)),
  attr_keys_ok t = true <->
  (NoDup (emitted_names t)
   /\ forall n, In n (emitted_names t) -> safe_key n = true /\ is_prefix generic_prefix n = false).
Proof. exact keys_criterion. Qed.

(* finite check over the regenerated table, valid whatever the tree: the attribute object is free of duplicate
   keys exactly when AS4_AGGREGATOR (18) is not emitted under AGGREGATOR's (7) name *)
Theorem C13_no_duplicate_keys_iff :
  attr_keys_ok attr_key_table = true <-> key_name 18 attr_key_table <> key_name 7 attr_key_table.
Proof. exact regenerated_keys_iff. Qed.

(* ... and without code 18 the regenerated table is fine *)
Theorem C13_no_duplicate_keys_partial : attr_keys_ok (drop_code 18 attr_key_table) = true.
Proof. exact regenerated_keys_partial. Qed.

(* REFUTED on the pinned tree (D7): its table gives codes 7 and 18 the same name "aggregator" *)
Theorem C13_no_duplicate_keys_refuted :
  key_name 7 pinned_attr_key_table = key_name 18 pinned_attr_key_table
  /\ key_name 7 pinned_attr_key_table = Some [97;103;103;114;101;103;97;116;111;114]
  /\ ~ NoDup (emitted_names pinned_attr_key_table).
Proof. exact pinned_keys_refuted. Qed.

(* ---- text encoder: oneline, for any oracle `pr` of str.isprintable above ASCII *)

Theorem C13_text_no_control : forall pr s x,
  In x (oneline pr s) -> 32 <= x /\ x <> 127 /\ (x <= 126 \/ (128 <= x /\ pr x = true)).
Proof. exact oneline_no_control_full. Qed.

(* Processes.write: bytes(..., 'ascii') succeeds when no kept character lies above ASCII ... *)
Theorem C13_text_ascii_partial : forall pr s,
  (forall c, In c s -> 128 <= c -> pr c = false) -> ascii_encodable (oneline pr s) = true.
Proof. exact oneline_ascii_partial. Qed.

(* ... REFUTED otherwise (D8): a printable non-ASCII character survives oneline and cannot be encoded *)
Theorem C13_text_ascii_refuted : forall pr, pr 233 = true -> ascii_encodable (oneline pr [233]) = false.
Proof. exact text_ascii_refuted. Qed.

(* finite check over the regenerated table of Latin-1 characters that oneline keeps, valid whatever the tree:
   all of Latin-1 is encodable after oneline exactly when oneline keeps none of 128..255 *)
Theorem C13_text_ascii_latin1_iff :
  ascii_encodable (oneline (in_table oneline_kept_latin1) latin1_range) = true <-> oneline_kept_latin1 = [].
Proof. exact regenerated_text_ascii_iff. Qed.

(* ---- non-vacuity: a hostile host name inside an envelope of two levels *)
Example C13_example :
  let hostile := [97; 34; 125; 10; 92; 233; 128512; 0] in          (* a, quote, closing brace, LF, backslash, e-acute, U+1F600, NUL *)
  let inner := json_object [([104; 111; 115; 116], json_string hostile); ([112; 105; 100], json_int (-42))] in
  wf_json (json_object [([116; 121; 112; 101], json_string [111; 112; 101; 110]); ([110], inner); ([117; 112], json_bool true)]) = true
  /\ single_line inner = true /\ ascii_encodable inner = true
  /\ wf_json (json_string [97] ++ [10] ++ json_string [98]) = false     (* two values are not one *)
  /\ wf_json ([34] ++ hostile ++ [34]) = false.                          (* unescaped, the same text is refused *)
Proof. vm_compute. repeat split. Qed.

Print Assumptions C13_escape_safe.
Print Assumptions C13_escaped_string_is_wf.
Print Assumptions C13_escaped_string_in_context.
Print Assumptions C13_scalar_wf.
Print Assumptions C13_member_wf.
Print Assumptions C13_object_of_members_wf.
Print Assumptions C13_object_wf.
Print Assumptions C13_dup_free_is_NoDup.
Print Assumptions C13_no_duplicate_keys_criterion.
Print Assumptions C13_no_duplicate_keys_iff.
Print Assumptions C13_no_duplicate_keys_partial.
Print Assumptions C13_no_duplicate_keys_refuted.
Print Assumptions C13_text_no_control.
Print Assumptions C13_text_ascii_partial.
Print Assumptions C13_text_ascii_refuted.
Print Assumptions C13_text_ascii_latin1_iff.
