(* C02 / C08 - RFC-level reference for the UPDATE message body, written from the RFCs and not from the code:
     RFC 4271 4.3   Withdrawn Routes Length, Withdrawn Routes, Total Path Attribute Length, Path Attributes
                    as <flags, type, length (1 octet, or 2 with the Extended Length bit), value>, NLRI
     RFC 4271 5     attribute categories (well-known / optional transitive / optional non-transitive)
     RFC 7606 3-7   what makes an attribute (or the attribute block) malformed and the approach per type
     RFC 4760 3, 4  MP_REACH_NLRI / MP_UNREACH_NLRI layout; RFC 4364 / 4659: VPN next hops carry a zero RD
     RFC 6793 4.2.3 reconstruction of the AS path from AS_PATH and AS4_PATH on a 2-octet session
     RFC 4724 2     End-of-RIB marker;  RFC 8092 5: duplicate Large Community values are removed
   The syntax of one prefix NLRI (RFC 4271 4.3, 7911, 8277, 4364) is the subject of C15: this file is
   parameterised by a prefix decoder `nd withdraw addpath afi safi bytes`.
   Bytes are Z in 0..255.  Shares no code with Model_Update. *)
From Coq Require Import ZArith List Bool.
Import ListNotations.
Open Scope Z_scope.

Definition blen (l : list Z) : Z := Z.of_nat (length l).

(* ------------------------------------------------------------------ attribute flags, RFC 4271 4.3 *)

Definition f_optional (f : Z) : bool := 128 <=? f.
Definition f_transitive (f : Z) : bool := 64 <=? f mod 128.
Definition f_partial (f : Z) : bool := 32 <=? f mod 64.
Definition f_extended (f : Z) : bool := 16 <=? f mod 32.
Definition f_unused (f : Z) : Z := f mod 16.

(* ------------------------------------------------------------------ the attribute block as TLVs *)

Record raw := mkRaw { r_flags : Z; r_code : Z; r_val : list Z }.

(* None: a truncated header, or a length that runs past the end of the block (RFC 7606 section 4) *)
Fixpoint tlvs (fuel : nat) (d : list Z) : option (list raw) :=
  match d with
  | [] => Some []
  | _ =>
    match fuel with
    | O => None
    | S f =>
      match d with
      | fl :: c :: rest =>
        match (if f_extended fl
               then match rest with h :: l :: r => Some (h * 256 + l, r) | _ => None end
               else match rest with l :: r => Some (l, r) | _ => None end) with
        | None => None
        | Some (len, body) =>
          if blen body <? len then None else
          match tlvs f (skipn (Z.to_nat len) body) with
          | None => None
          | Some t => Some (mkRaw fl c (firstn (Z.to_nat len) body) :: t)
          end
        end
      | _ => None
      end
    end
  end.

(* ------------------------------------------------------------------ categories and RFC 7606 approaches *)

Inductive category := WellKnown | OptTransitive | OptNonTransitive.

Definition category_of (code : Z) : option category :=
  if (code =? 1) || (code =? 2) || (code =? 3) || (code =? 5) || (code =? 6) then Some WellKnown else
  if (code =? 4) || (code =? 9) || (code =? 10) || (code =? 14) || (code =? 15) || (code =? 26) || (code =? 29)
  then Some OptNonTransitive else
  if (code =? 7) || (code =? 8) || (code =? 16) || (code =? 17) || (code =? 18) || (code =? 22) || (code =? 23)
     || (code =? 25) || (code =? 32) || (code =? 40) then Some OptTransitive else
  None.

(* RFC 7606 section 7 (and 6793 6, 8092 5, 7311, 9552, 8669 for the later attributes) *)
Inductive approach := TreatAsWithdraw | AttributeDiscard | SessionReset | Unspecified.

Definition approach_of (code : Z) : approach :=
  if (code =? 1) || (code =? 2) || (code =? 3) || (code =? 4) || (code =? 5) || (code =? 8) || (code =? 9)
     || (code =? 10) || (code =? 16) || (code =? 25) || (code =? 32) then TreatAsWithdraw else
  if (code =? 6) || (code =? 7) || (code =? 17) || (code =? 18) then AttributeDiscard else
  if (code =? 14) || (code =? 15) then SessionReset else
  Unspecified.

(* the flags a recognised attribute is reported with: its category *)
Definition category_flags (c : category) : Z :=
  match c with WellKnown => 64 | OptTransitive => 192 | OptNonTransitive => 128 end.

(* RFC 7606 3.c: Optional / Transitive bits in conflict with the attribute's definition *)
Definition flags_conflict (code f : Z) : bool :=
  match category_of code with
  | Some WellKnown => f_optional f || negb (f_transitive f)
  | Some OptTransitive => negb (f_optional f) || negb (f_transitive f)
  | Some OptNonTransitive => negb (f_optional f) || f_transitive f
  | None => false
  end.

(* ------------------------------------------------------------------ AS paths *)

Fixpoint be_num (d : list Z) : Z :=
  match d with [] => 0 | x :: r => x * 256 ^ blen r + be_num r end.

Fixpoint groups (fuel : nat) (w : nat) (d : list Z) : list Z :=
  match fuel with
  | O => []
  | S f => match d with [] => [] | _ => be_num (firstn w d) :: groups f w (skipn w d) end
  end.

(* RFC 4271 4.3 b / RFC 7606 7.2: <type 1..4, count >= 1, count AS numbers of w octets>, exact fit *)
Fixpoint rfc_path (fuel : nat) (w : nat) (d : list Z) : option (list (Z * list Z)) :=
  match d with
  | [] => Some []
  | _ =>
    match fuel with
    | O => None
    | S f =>
      match d with
      | t :: n :: rest =>
        if (t <? 1) || (4 <? t) || (n <? 1) then None else
        let k := (Z.to_nat n * w)%nat in
        if (length rest <? k)%nat then None else
        match rfc_path f w (skipn k rest) with
        | None => None
        | Some tl => Some ((t, groups (Z.to_nat n) w (firstn k rest)) :: tl)
        end
      | _ => None
      end
    end
  end.

(* ------------------------------------------------------------------ per-type value rules, RFC 7606 section 7 *)

Definition nonzero_multiple (v : list Z) (n : Z) : bool := (0 <? blen v) && (blen v mod n =? 0).

(* only the types with a rule here; `other code v` decides for the remaining recognised types *)
Definition value_malformed (other : Z -> list Z -> bool) (asn4 : bool) (code : Z) (v : list Z) : bool :=
  if code =? 1 then negb ((blen v =? 1) && (nth 0 v 0 <=? 2)) else
  if code =? 2 then match rfc_path (length v) (if asn4 then 4 else 2) v with Some _ => false | None => true end else
  if code =? 3 then negb (blen v =? 4) else
  if code =? 4 then negb (blen v =? 4) else
  if code =? 5 then negb (blen v =? 4) else
  if code =? 6 then negb (blen v =? 0) else
  if code =? 7 then negb (blen v =? (if asn4 then 8 else 6)) else
  if code =? 8 then negb (nonzero_multiple v 4) else
  if code =? 9 then negb (blen v =? 4) else
  if code =? 10 then negb (nonzero_multiple v 4) else
  if code =? 16 then negb (nonzero_multiple v 8) else
  if code =? 17 then match rfc_path (length v) 4 v with Some _ => false | None => true end else
  if code =? 18 then negb (blen v =? 8) else
  if code =? 25 then negb (nonzero_multiple v 20) else
  if code =? 32 then negb (nonzero_multiple v 12) else
  other code v.

(* ------------------------------------------------------------------ RFC 6793 4.2.3 *)

(* path length: an AS_SET counts one, confederation segments are not counted *)
Definition hops (sg : Z * list Z) : Z := if fst sg =? 2 then blen (snd sg) else if fst sg =? 1 then 1 else 0.
Definition path_hops (p : list (Z * list Z)) : Z := fold_right (fun sg a => hops sg + a) 0 p.

(* the leading part of AS_PATH worth `k` hops; confederation segments that lead or are adjacent to a
   taken segment come along *)
Fixpoint leading (p : list (Z * list Z)) (k : Z) : list (Z * list Z) :=
  match p with
  | [] => []
  | (t, asns) :: r =>
    if (t =? 3) || (t =? 4) then (t, asns) :: leading r k else
    if k <=? 0 then [] else
    if t =? 1 then (t, asns) :: leading r (k - 1) else
    (2, firstn (Z.to_nat k) asns) :: leading r (k - blen (firstn (Z.to_nat k) asns))
  end.

Definition rfc6793 (as_path as4_path : list (Z * list Z)) : list (Z * list Z) :=
  if path_hops as_path <? path_hops as4_path then as_path
  else leading as_path (path_hops as_path - path_hops as4_path) ++ as4_path.

(* a path as a list of segments of at most 255 AS numbers (what any wire encoding of it decodes to) *)
Fixpoint split255 (fuel : nat) (t : Z) (l : list Z) : list (Z * list Z) :=
  match fuel with
  | O => []
  | S f => match l with
           | [] => []
           | _ => if (length l <=? 255)%nat then [(t, l)] else (t, firstn 255 l) :: split255 f t (skipn 255 l)
           end
  end.
Definition wire_form (p : list (Z * list Z)) : list (Z * list Z) :=
  flat_map (fun sg => split255 (length (snd sg)) (fst sg) (snd sg)) p.

(* ------------------------------------------------------------------ the reference decoder *)

Inductive sval := SBytes (b : list Z) | SPath (p : list (Z * list Z)).

Section Reference.
  Context {N : Type}.
  (* prefix NLRI decoder: withdraw, addpath, afi, safi, bytes -> route and remaining bytes (C15) *)
  Variable nd : bool -> bool -> Z -> Z -> list Z -> option (N * list Z).

  (* rs_extnh: the <AFI, SAFI> for which an IPv6 next hop was negotiated (RFC 8950 capability, next hop AFI 2) *)
  Record rsess := mkRS { rs_asn4 : bool; rs_fams : list (Z * Z); rs_addpath : list (Z * Z); rs_extnh : list (Z * Z) }.

  Definition has_fam (l : list (Z * Z)) (afi safi : Z) : bool :=
    existsb (fun p => (fst p =? afi) && (snd p =? safi)) l.

  Fixpoint routes (fuel : nat) (w ap : bool) (afi safi : Z) (d : list Z) : option (list N) :=
    match d with
    | [] => Some []
    | _ =>
      match fuel with
      | O => None
      | S f =>
        match nd w ap afi safi d with
        | None => None
        | Some (n, rest) =>
          if (length d <=? length rest)%nat then None else
          match routes f w ap afi safi rest with None => None | Some t => Some (n :: t) end
        end
      end
    end.

  Record rupdate := mkRU {
    ru_announced : list (N * list Z);      (* route, next hop address *)
    ru_withdrawn : list N;
    ru_attrs : list (Z * Z * sval) }.      (* code, flags as relayed, value; MP attributes not included *)

  Inductive rres := RUpdate (u : rupdate) | REor (afi safi : Z).

  (* Length of Next Hop Network Address per <AFI, SAFI>: RFC 4760 3 (IPv4: 4; IPv6: 16, or 32 with a link-local
     address), RFC 4364 4.3.2 / 4659 3.2.1 (VPN: an 8-octet zero RD in front of each address: 12; 24 or 48),
     RFC 8277; RFC 8950 3: an IPv4 family may carry an IPv6 next hop (16 / 32; VPN 24 / 48) only when the
     capability was exchanged for that <AFI, SAFI>.  An IPv6 family never carries an IPv4 next hop. *)
  Definition nh_len_ok (afi safi : Z) (ext : bool) (len : Z) : bool :=
    if safi =? 128 then
      (if afi =? 1 then (len =? 12) || (ext && ((len =? 24) || (len =? 48))) else (len =? 24) || (len =? 48))
    else
      (if afi =? 1 then (len =? 4) || (ext && ((len =? 16) || (len =? 32))) else (len =? 16) || (len =? 32)).

  (* RFC 4760 section 3: AFI, SAFI, next hop length, next hop, reserved octet, NLRI *)
  Definition mp_reach (s : rsess) (v : list Z) : option (list (N * list Z)) :=
    match v with
    | a1 :: a0 :: safi :: nhl :: rest =>
      let afi := a1 * 256 + a0 in
      if negb (has_fam (rs_fams s) afi safi) then None else
      if negb (nh_len_ok afi safi (has_fam (rs_extnh s) afi safi) nhl) then None else
      if blen rest <? nhl + 1 then None else
      let nhf := firstn (Z.to_nat nhl) rest in
      let rdlen := if safi =? 128 then 8%nat else 0%nat in
      if negb (forallb (Z.eqb 0) (firstn rdlen nhf)) then None else
      if negb (nth (Z.to_nat nhl) rest 1 =? 0) then None else
      let nl := skipn (Z.to_nat nhl + 1) rest in
      match nl with
      | [] => None          (* an MP_REACH_NLRI announces at least one route *)
      | _ => match routes (length nl) false (has_fam (rs_addpath s) afi safi) afi safi nl with
             | None => None
             | Some ns => Some (map (fun n => (n, firstn 16 (skipn rdlen nhf))) ns)
             end
      end
    | _ => None
    end.

  (* RFC 4760 section 4: AFI, SAFI, withdrawn routes *)
  Definition mp_unreach (s : rsess) (v : list Z) : option (Z * Z * list N) :=
    match v with
    | a1 :: a0 :: safi :: nl =>
      let afi := a1 * 256 + a0 in
      if negb (has_fam (rs_fams s) afi safi) then None else
      match routes (length nl) true (has_fam (rs_addpath s) afi safi) afi safi nl with
      | None => None
      | Some ns => Some (afi, safi, ns)
      end
    | _ => None
    end.

  Definition find_raw (l : list raw) (c : Z) : option raw := find (fun r => r_code r =? c) l.

  Fixpoint nodup_codes (l : list raw) : bool :=
    match l with
    | [] => true
    | r :: t => negb (existsb (fun x => r_code x =? r_code r) t) && nodup_codes t
    end.

  (* duplicate values removed, first occurrence kept (RFC 8092 section 5) *)
  Fixpoint uniq (seen l : list (list Z)) : list (list Z) :=
    match l with
    | [] => []
    | c :: r => if existsb (fun x => forallb (fun p => fst p =? snd p) (combine x c) && (length x =? length c)%nat) seen
                then uniq seen r else c :: uniq (c :: seen) r
    end.
  Fixpoint pieces (fuel : nat) (n : nat) (d : list Z) : list (list Z) :=
    match fuel with O => [] | S f => match d with [] => [] | _ => firstn n d :: pieces f n (skipn n d) end end.

  (* a well-formed attribute as a conforming sender writes it: unused bits zero, PARTIAL only with the
     Optional bit, category bits right, value well-formed; an unrecognised attribute is optional *)
  Definition attr_wellformed (other : Z -> list Z -> bool) (s : rsess) (r : raw) : bool :=
    (f_unused (r_flags r) =? 0)
    && (0 <=? r_flags r) && (r_flags r <? 256)
    && (f_optional (r_flags r) || negb (f_partial (r_flags r)))
    && match category_of (r_code r) with
       | Some _ => negb (flags_conflict (r_code r) (r_flags r))
                   && negb (value_malformed other (rs_asn4 s) (r_code r) (r_val r))
       | None => f_optional (r_flags r)
       end.

  (* RFC 4760 3 / RFC 7606 7.11: the framing of MP_REACH_NLRI (the syntax of the NLRI inside is not judged here;
     the reserved octet is ignored on receipt) *)
  Definition mp_reach_malformed (s : rsess) (v : list Z) : bool :=
    match v with
    | a1 :: a0 :: safi :: nhl :: rest =>
      let afi := a1 * 256 + a0 in
      negb (has_fam (rs_fams s) afi safi)
      || negb (nh_len_ok afi safi (has_fam (rs_extnh s) afi safi) nhl)
      || (blen rest <? nhl + 1)
      || negb (forallb (Z.eqb 0) (firstn (if safi =? 128 then 8%nat else 0%nat) rest))
    | _ => true
    end.
  Definition mp_unreach_malformed (s : rsess) (v : list Z) : bool :=
    match v with
    | a1 :: a0 :: safi :: _ => negb (has_fam (rs_fams s) (a1 * 256 + a0) safi)
    | _ => true
    end.

  (* RFC 7606: is this attribute of the block malformed, and the approach its type calls for *)
  Definition attr_malformed (other : Z -> list Z -> bool) (s : rsess) (r : raw) : bool :=
    match category_of (r_code r) with
    | Some _ => flags_conflict (r_code r) (r_flags r) || value_malformed other (rs_asn4 s) (r_code r) (r_val r)
                || ((r_code r =? 14) && mp_reach_malformed s (r_val r))
                || ((r_code r =? 15) && mp_unreach_malformed s (r_val r))
    | None => false
    end.

  (* what the attribute contributes to the relayed attribute set *)
  Definition attr_entry (s : rsess) (r : raw) : list (Z * Z * sval) :=
    let c := r_code r in
    match category_of c with
    | Some cat =>
      if (c =? 14) || (c =? 15) then [] else
      if c =? 2 then
        match rfc_path (length (r_val r)) (if rs_asn4 s then 4 else 2) (r_val r) with
        | Some p => [(c, category_flags cat, SPath p)] | None => [] end
      else if c =? 17 then
        match rfc_path (length (r_val r)) 4 (r_val r) with
        | Some p => [(c, category_flags cat, SPath p)] | None => [] end
      else if c =? 32 then [(c, category_flags cat, SBytes (concat (uniq [] (pieces (length (r_val r)) 12 (r_val r)))))]
      else [(c, category_flags cat, SBytes (r_val r))]
    | None =>
      (* unrecognised: transitive ones are relayed with the Partial bit set, the others are not relayed *)
      if f_transitive (r_flags r)
      then [(c, (if f_partial (r_flags r) then r_flags r else r_flags r + 32), SBytes (r_val r))]
      else []
    end.

  Definition entry_code (e : Z * Z * sval) : Z := fst (fst e).
  Definition lookup (l : list (Z * Z * sval)) (c : Z) : option (Z * Z * sval) := find (fun e => entry_code e =? c) l.
  Definition path_of_entry (e : option (Z * Z * sval)) : list (Z * list Z) :=
    match e with Some (_, _, SPath p) => p | _ => [] end.

  (* RFC 6793: on a 2-octet session AS_PATH and AS4_PATH are reported as the one reconstructed path *)
  Definition reconstruct (l : list (Z * Z * sval)) : list (Z * Z * sval) :=
    match lookup l 2, lookup l 17 with
    | Some _, Some _ =>
      filter (fun e => negb (entry_code e =? 2) && negb (entry_code e =? 17)) l
      ++ [(2, 64, SPath (wire_form (rfc6793 (path_of_entry (lookup l 2)) (path_of_entry (lookup l 17)))))]
    | _, _ => l
    end.

  Definition be16 (d : list Z) : Z := nth 0 d 0 * 256 + nth 1 d 0.

  (* RFC 4271 4.3 sections; None when the two length fields do not fit the body *)
  Definition sections (b : list Z) : option (list Z * list Z * list Z) :=
    if blen b <? 4 then None else
    let lw := be16 b in
    if blen b <? 4 + lw then None else
    let la := be16 (skipn (Z.to_nat (2 + lw)) b) in
    if blen b <? 4 + lw + la then None else
    Some (firstn (Z.to_nat lw) (skipn 2 b),
          firstn (Z.to_nat la) (skipn (Z.to_nat (4 + lw)) b),
          skipn (Z.to_nat (4 + lw + la)) b).

  (* Some: the body is a well-formed UPDATE of the session and this is its content *)
  Definition ref_update_gen (other : Z -> list Z -> bool) (s : rsess) (b : list Z) : option rres :=
    match sections b with
    | None => None
    | Some (wb, ab, nb) =>
      match tlvs (length ab) ab with
      | None => None
      | Some l =>
        if negb (forallb (attr_wellformed other s) l) then None else
        if negb (nodup_codes l) then None else
        if rs_asn4 s && existsb (fun r => r_code r =? 17) l then None else
        let ap := has_fam (rs_addpath s) 1 1 in
        match routes (length wb) true ap 1 1 wb, routes (length nb) false ap 1 1 nb with
        | Some wd, Some ann =>
          let nh := match find_raw l 3 with Some r => r_val r | None => [] end in
          match (match find_raw l 15 with
                 | Some r => match mp_unreach s (r_val r) with Some (a, sf, ns) => Some (Some (a, sf), ns) | None => None end
                 | None => Some (None, []) end),
                (match find_raw l 14 with Some r => mp_reach s (r_val r) | None => Some [] end) with
          | Some (ufam, mwd), Some mann =>
            let attrs := reconstruct (flat_map (attr_entry s) l) in
            let announced := map (fun n => (n, nh)) ann ++ mann in
            let withdrawn := wd ++ mwd in
            (* RFC 4724: no route at all and nothing but (at most) an empty MP_UNREACH_NLRI *)
            match announced, withdrawn, attrs with
            | [], [], [] =>
              match ufam with
              | Some (a, sf) => Some (REor a sf)
              | None => Some (REor 1 1)
              end
            | _, _, _ => Some (RUpdate (mkRU announced withdrawn attrs))
            end
          | _, _ => None
          end
        | _, _ => None
        end
      end
    end.

  (* flat observation for the harness, same layout as Model_Update.observe; [-9] = not well-formed *)
  Definition o_list (l : list Z) : list Z := blen l :: l.
  Definition o_attr (e : Z * Z * sval) : list Z :=
    [-7; fst (fst e); snd (fst e)] ++
    match snd e with
    | SBytes b => 0 :: o_list b
    | SPath p => 1 :: blen (map fst p) :: flat_map (fun sg => fst sg :: o_list (snd sg)) p
    end.
  Definition observe_ref_gen (pn : N -> list Z) (r : option rres) : list Z :=
    match r with
    | None => [-9]
    | Some (REor a s) => [-3; a; s]
    | Some (RUpdate u) =>
      [-4] ++ flat_map (fun a => -5 :: pn (fst a) ++ o_list (snd a)) (ru_announced u)
      ++ flat_map (fun n => -6 :: pn n) (ru_withdrawn u)
      ++ flat_map o_attr (ru_attrs u)
    end.
End Reference.

(* ------------------------------------------------------------------ RFC 7606 verdict on a body, for the harness:
   [-8] the two length fields do not fit the body; [-9] the attribute block is malformed as a whole (truncated
   header / length overrun); otherwise one <code, 0|1|2> per attribute in order: 1 = malformed (flags or value),
   2 = a second occurrence of the code *)
Definition verdict (other : Z -> list Z -> bool) (s : rsess) (b : list Z) : list Z :=
  match sections b with
  | None => [-8]
  | Some (_, ab, _) =>
    match tlvs (length ab) ab with
    | None => [-9]
    | Some l =>
      (fix go (seen : list Z) (l : list raw) : list Z :=
         match l with
         | [] => []
         | r :: t =>
           r_code r :: (if existsb (Z.eqb (r_code r)) seen then 2
                        else if attr_malformed other s r then 1 else 0) :: go (r_code r :: seen) t
         end) [] l
    end
  end.

(* ------------------------------------------------------------------ Adj-RIB-In after an UPDATE, RFC 4271 4.3 / 9:
   the withdrawn routes are removed and the announced ones installed (a later announce of the same route replaces an
   earlier one); "An UPDATE message SHOULD NOT include the same address prefix in the WITHDRAWN ROUTES and Network Layer
   Reachability Information fields; however, a BGP speaker MUST be able to process UPDATE messages in this form [and]
   SHOULD treat [it] as though the WITHDRAWN ROUTES do not contain the address prefix": the announcement stays.
   `before` is the table as a lookup function, `key` the identity of a route, `same` the equality of keys. *)
Definition ref_rib_after {N A : Type} (key : N -> list Z) (same : list Z -> list Z -> bool)
    (before : list Z -> option (N * list Z * A))
    (announced : list (N * list Z)) (withdrawn : list N) (attrs : A) (k : list Z) : option (N * list Z * A) :=
  match find (fun a => same (key (fst a)) k) (rev announced) with
  | Some a => Some (fst a, snd a, attrs)
  | None => if existsb (fun n => same (key n) k) withdrawn then None else before k
  end.
