(* C16 - reference reading of a FlowSpec NLRI, written from RFC 8955 section 4 (IPv4) and RFC 8956
   section 3 (IPv6), independently of ExaBGP's code.

   RFC 8955 4.1   length: one octet below 240, otherwise two octets whose first nibble is 0xF
   RFC 8955 4.2   components in strictly increasing type order, each type at most once
   RFC 8955 4.2.1.1  operator octet  e a len(2) 0 lt gt eq ; value of 1 << len octets; list ends at e = 1
   RFC 8955 4.2.2.1/2 prefix: <type, length, prefix> with ceil(length/8) octets, trailing bits irrelevant
   RFC 8956 3.1   prefix: <type, length, offset, pattern> with ceil((length-offset)/8) octets;
                  length = offset = 0, or offset < length <= 128
   RFC 8955 8     flow-vpn: an 8 octet route distinguisher first
   A rule is what the octets MEAN: a prefix component is the integer value of the matched bits
   (padding dropped), an operator component the list of (and bit, operator bits, value). *)
From Coq Require Import ZArith List Bool Lia.
Import ListNotations.
Open Scope Z_scope.

Definition op := (Z * Z * Z)%type. (* and bit, low nibble of the operator octet, value *)
Inductive comp :=
| CPfx (ty mask off pat : Z)
| COps (ty : Z) (ops : list op).
Record rule := mkRule { r_rd : list Z; r_comps : list comp }.

Definition comp_ty (c : comp) : Z := match c with CPfx t _ _ _ => t | COps t _ => t end.

Inductive rerr := EUndefined | ETruncated | ENoEOL | EOrder | EPrefix | ELength | ERd.
(* outcome of the component walk: the components read, or the fault and the components before it *)
Inductive cres := COk (cs : list comp) | CErr (e : rerr) (before : list comp).
Inductive rres := ROk (r : rule) (over : list Z) | RErr (e : rerr) (before : list comp).

Fixpoint be_val (acc : Z) (l : list Z) : Z :=
  match l with [] => acc | b :: l' => be_val (acc * 256 + b) l' end.

Definition take (n : Z) (l : list Z) : option (list Z * list Z) :=
  if (0 <=? n) && (n <=? Z.of_nat (length l))
  then Some (firstn (Z.to_nat n) l, skipn (Z.to_nat n) l) else None.

Definition defined_type (v6 : bool) (t : Z) : bool := (1 <=? t) && (t <=? (if v6 then 13 else 12)).

(* operator list: Some (ops, rest) | None with the fault *)
Fixpoint ref_ops (fuel : nat) (l : list Z) : (list op * list Z) + rerr :=
  match fuel with
  | O => inr ENoEOL
  | S f =>
    match l with
    | [] => inr ENoEOL
    | b :: l1 =>
      match take (2 ^ ((b / 16) mod 4)) l1 with
      | None => inr ETruncated
      | Some (vb, l2) =>
        let o := ((b / 64) mod 2, b mod 16, be_val 0 vb) in
        if 128 <=? b then inl ([o], l2)
        else match ref_ops f l2 with inl (os, l3) => inl (o :: os, l3) | inr e => inr e end
      end
    end
  end.

Definition ref_prefix (v6 : bool) (t : Z) (l : list Z) : (comp * list Z) + rerr :=
  match l with
  | [] => inr ETruncated
  | m :: l1 =>
    if v6 then
      match l1 with
      | [] => inr ETruncated
      | off :: l2 =>
        if ((m =? 0) && (off =? 0)) || ((off <? m) && (m <=? 128)) then
          let n := (m - off + 7) / 8 in
          match take n l2 with
          | None => inr ETruncated
          | Some (pb, l3) => inl (CPfx t m off (be_val 0 pb / 2 ^ (8 * n - (m - off))), l3)
          end
        else inr EPrefix
      end
    else if m <=? 32 then
      let n := (m + 7) / 8 in
      match take n l1 with
      | None => inr ETruncated
      | Some (pb, l3) => inl (CPfx t m 0 (be_val 0 pb / 2 ^ (8 * n - m)), l3)
      end
    else inr EPrefix
  end.

Definition ccons (c : comp) (r : cres) : cres :=
  match r with COk cs => COk (c :: cs) | CErr e b => CErr e (c :: b) end.

(* `ordered` = enforce the strictly increasing type order (the RFC reading); with ordered = false
   the walk only checks the framing, which is what C16_never_broader is about *)
Fixpoint ref_comps (fuel : nat) (ordered v6 : bool) (last : Z) (l : list Z) : cres :=
  match l with
  | [] => COk []
  | t :: l1 =>
    match fuel with
    | O => CErr ELength []
    | S f =>
      if negb (defined_type v6 t) then CErr EUndefined []
      else if ordered && (t <=? last) then CErr EOrder []
      else if t <=? 2 then
        match ref_prefix v6 t l1 with
        | inl (c, l2) => ccons c (ref_comps f ordered v6 t l2)
        | inr e => CErr e []
        end
      else
        match ref_ops (length l1) l1 with
        | inl (os, l2) => ccons (COps t os) (ref_comps f ordered v6 t l2)
        | inr e => CErr e []
        end
    end
  end.

Definition ref_flow_gen (ordered v6 vpn : bool) (data : list Z) : rres :=
  match data with
  | [] => RErr ELength []
  | l0 :: d1 =>
    let hdr := if l0 <? 240 then Some (l0, d1)
               else match d1 with [] => None | l1 :: d2 => Some ((l0 - 240) * 256 + l1, d2) end in
    match hdr with
    | None => RErr ELength []
    | Some (len, d) =>
      match take len d with
      | None => RErr ELength []
      | Some (body, over) =>
        match (if vpn then take 8 body else Some ([], body)) with
        | None => RErr ERd []
        | Some (rd, cs) =>
          match ref_comps (length cs) ordered v6 0 cs with
          | COk comps => ROk (mkRule rd comps) over
          | CErr e b => RErr e b
          end
        end
      end
    end
  end.

Definition ref_flow := ref_flow_gen true.
Definition ref_scan := ref_flow_gen false.

(* RFC 8955 4.1: how the length of an NLRI body is written *)
Definition ref_length (n : Z) : option (list Z) :=
  if n <? 240 then Some [n] else if n <? 4096 then Some [240 + n / 256; n mod 256] else None.

(* the faults the property names: an undefined component, a truncated value, a list without its end *)
Definition named_fault (e : rerr) : bool :=
  match e with EUndefined | ETruncated | ENoEOL => true | _ => false end.

(* Traffic actions, RFC 8955 section 7 (+ RFC 7674 for the 4-octet AS redirect, RFC 8955 7.3 rate in
   packets 0x800c): the 8 octets of the extended community.  `ieee` is the IEEE-754 single of the rate. *)
Inductive action :=
| ARateBytes (asn ieee : Z) | ARatePackets (asn ieee : Z) | AAction (sample terminal : bool)
| ARedirect2 (asn nn : Z) | ARedirect4 (asn nn : Z) | AMark (dscp : Z).

Definition w16 (v : Z) : list Z := [v / 256 mod 256; v mod 256].
Definition w32 (v : Z) : list Z := [v / 16777216 mod 256; v / 65536 mod 256; v / 256 mod 256; v mod 256].
Definition ref_action (a : action) : list Z :=
  match a with
  | ARateBytes asn f => [128; 6] ++ w16 asn ++ w32 f
  | ARatePackets asn f => [128; 12] ++ w16 asn ++ w32 f
  | AAction s t => [128; 7; 0; 0; 0; 0; 0; (if s then 2 else 0) + (if t then 1 else 0)]
  | ARedirect2 asn nn => [128; 8] ++ w16 asn ++ w32 nn
  | ARedirect4 asn nn => [130; 8] ++ w32 asn ++ w16 nn
  | AMark d => [128; 9; 0; 0; 0; 0; 0; d]
  end.
