(* C14 - property-level specification, written without looking at the reader's code.

   The byte stream a process writes is a sequence of lines, each ended by a newline; Python's
   `stream.split('\n')` gives every piece, the last piece being what is not yet terminated.  The
   commands ExaBGP must execute are the complete lines, in order, whatever the pipe did.
   (The execution part of the property is stated directly over the model's tables in Prop_C14.v:
   there is nothing to specify beyond "unchanged" and "member of the selector".) *)
From Coq Require Import ZArith Bool List.
Import ListNotations.
Open Scope Z_scope.

(* first piece, remaining pieces *)
Fixpoint pieces (s : list Z) : list Z * list (list Z) :=
  match s with
  | [] => ([], [])
  | c :: r =>
      let '(p, ps) := pieces r in
      if c =? 10 then ([], p :: ps) else (c :: p, ps)
  end.

(* str.split('\n'): never empty *)
Definition py_split (s : list Z) : list (list Z) := fst (pieces s) :: snd (pieces s).

Definition complete_lines (s : list Z) : list (list Z) := removelast (py_split s).
Definition pending_tail (s : list Z) : list Z := last (py_split s) [].

(* every line, and the unterminated rest, holds at most max characters *)
Definition lines_within (max : Z) (s : list Z) : Prop :=
  Forall (fun l => Z.of_nat (length l) <= max) (py_split s).

Definition ascii (s : list Z) : Prop := Forall (fun c => 0 <= c < 128) s.

