(* C14 - property-level specification, written without looking at the reader's code.

   The byte stream a process writes is a sequence of lines, each ended by a newline; Python's
   `stream.split('\n')` gives every piece, the last piece being what is not yet terminated.  The
   commands ExaBGP must execute are the complete lines, in order, whatever the pipe did.
   (The execution part of the property is stated directly over the model's tables in Prop_C14.v:
   there is nothing to specify beyond "unchanged" and "member of the selector".) *)
From Coq Require Import ZArith Bool List.
Import ListNotations.
Open Scope Z_scope.

(* first piece, remaining pieces *)
Fixpoint pieces (s : list Z) : list Z * list (list Z) :=
  match s with
  | [] => ([], [])
  | c :: r =>
      let '(p, ps) := pieces r in
      if c =? 10 then ([], p :: ps) else (c :: p, ps)
  end.

(* str.split('\n'): never empty *)
Definition py_split (s : list Z) : list (list Z) := fst (pieces s) :: snd (pieces s).

Definition complete_lines (s : list Z) : list (list Z) := removelast (py_split s).
Definition pending_tail (s : list Z) : list Z := last (py_split s) [].

(* every line, and the unterminated rest, holds at most max characters *)
Definition lines_within (max : Z) (s : list Z) : Prop :=
  Forall (fun l => Z.of_nat (length l) <= max) (py_split s).

Definition ascii (s : list Z) : Prop := Forall (fun c => 0 <= c < 128) s.


(* ------------------------------------------------------------------ selectors as text
   A peer name is a sequence of tokens separated by one space:
     neighbor <ip> local-ip <ip> local-as <n> peer-as <n> router-id <ip> family-allowed <x>
   and a selector term "<key> <value>" selects the peer exactly when that key token is followed by
   that value token - never when the value is only the beginning or the end of the peer's. *)
Definition white (c : Z) : Prop := 9 <= c <= 13 \/ 28 <= c <= 32.

(* a token: not empty, no white space, no comma *)
Definition token (w : list Z) : Prop := w <> [] /\ Forall (fun c => ~ white c /\ c <> 44) w.

Fixpoint join (ws : list (list Z)) : list Z :=
  match ws with
  | [] => []
  | [w] => w
  | w :: r => w ++ 32 :: join r
  end.

Definition pair_occurs (k v : list Z) (ws : list (list Z)) : Prop :=
  exists before after, ws = before ++ k :: v :: after.

(* the peer name the code builds from (key, value) fields *)
Definition name_tokens (fields : list (list Z * list Z)) : list (list Z) :=
  flat_map (fun p => [fst p; snd p]) fields.
