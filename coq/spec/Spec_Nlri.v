(* C15 - RFC-level wire encoding of a prefix route, written from the RFCs and not from the code:
     RFC 4271 4.3   <length in bits, prefix padded to a whole number of octets>
     RFC 7911 3     a 4-octet Path Identifier in front when ADD-PATH is in use
     RFC 8277 2.2/3 length covers the labels; each label is 20 bits + 3 bits TC + bottom-of-stack bit,
                    the S bit set on the last label only
     RFC 4364 4.3.4 labels, then the 8-octet Route Distinguisher, then the prefix; length covers all three
   Values are integers (path-id, 20-bit labels, 64-bit rd, the address as the integer formed by its
   first ceil(len/8) octets).  Shares nothing with Model_Nlri. *)
From Coq Require Import ZArith List.
Import ListNotations.
Open Scope Z_scope.

Fixpoint be (n : nat) (v : Z) : list Z :=
  match n with O => [] | S k => (v / 256 ^ Z.of_nat k) mod 256 :: be k v end.

Record rfc_route := mkR {
  r_pid : option Z; r_labels : list Z; r_rd : option Z; r_len : Z; r_addr : Z }.

Fixpoint rfc_labels (ls : list Z) : list Z :=
  match ls with
  | [] => []
  | [l] => be 3 (l * 16 + 1)
  | l :: rest => be 3 (l * 16) ++ rfc_labels rest
  end.

Definition rfc_encode (r : rfc_route) : list Z :=
  (match r_pid r with Some p => be 4 p | None => [] end)
  ++ [24 * Z.of_nat (length (r_labels r)) + (match r_rd r with Some _ => 64 | None => 0 end) + r_len r]
  ++ rfc_labels (r_labels r)
  ++ (match r_rd r with Some d => be 8 d | None => [] end)
  ++ be (Z.to_nat ((r_len r + 7) / 8)) (r_addr r).
