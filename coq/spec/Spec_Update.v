(* C01 - RFC reference DECODER of an UPDATE body, written from the RFCs and not from the code:
     RFC 4271 4.3   Withdrawn Routes Length / Withdrawn Routes / Total Path Attribute Length /
                    Path Attributes (flags, type, 1- or 2-octet length by the Extended Length bit) / NLRI
     RFC 4271 5.1   ORIGIN, AS_PATH (segment type, count, ASNs), NEXT_HOP, MULTI_EXIT_DISC, LOCAL_PREF,
                    ATOMIC_AGGREGATE, AGGREGATOR;  RFC 1997 COMMUNITIES;  RFC 4456 ORIGINATOR_ID,
                    CLUSTER_LIST;  RFC 4360 EXTENDED COMMUNITIES;  RFC 8092 LARGE COMMUNITIES
     RFC 4760 3/4   MP_REACH_NLRI (AFI, SAFI, next hop length, next hop, reserved, NLRI), MP_UNREACH_NLRI;
                    a NEXT_HOP attribute next to MP_REACH_NLRI only is ignored
     RFC 4364 4.3.4 / RFC 4659 3.2.1  VPN next hop = RD of zero + address;  RFC 8950 3  IPv6 next hop
                    for IPv4 NLRI when negotiated
     RFC 7911 3     4-octet Path Identifier in front of every NLRI of a family with ADD-PATH
     RFC 8277 2     label stack up to the bottom-of-stack bit; on withdraw the label field is ignored
                    (0x800000 compatibility value)
     RFC 6793 4     2-octet AS_PATH/AGGREGATOR from an OLD speaker + AS4_PATH/AS4_AGGREGATOR reconstruction
   The decoded NLRI value is Spec_Nlri.rfc_route.  Shares nothing with the Model_* files. *)
From Coq Require Import ZArith List Bool.
From ExaV Require Import spec.Spec_Nlri.
Import ListNotations.
Open Scope Z_scope.

(* what the receiving side of the session knows *)
Record rsess := mkRS {
  rs_asn4 : bool;                 (* both speakers are NEW speakers (RFC 6793) *)
  rs_addpath : Z -> Z -> bool;    (* ADD-PATH is in use for (afi, safi) in this direction *)
  rs_extnh : Z -> Z -> bool       (* RFC 8950 negotiated for (afi, safi) with an IPv6 next hop *) }.

(* ------------------------------------------------------------------ octets *)

Definition num (l : list Z) : Z := fold_left (fun a b => a * 256 + b) l 0.
Definition len (l : list Z) : Z := Z.of_nat (length l).
Definition take (n : Z) (l : list Z) : list Z := firstn (Z.to_nat n) l.
Definition drop (n : Z) (l : list Z) : list Z := skipn (Z.to_nat n) l.

(* a field of n octets: (value octets, rest) *)
Definition field (n : Z) (l : list Z) : option (list Z * list Z) :=
  if len l <? n then None else Some (take n l, drop n l).

(* l cut in chunks of n octets read as numbers; None unless the length is a multiple of n *)
Fixpoint chunks (fuel : nat) (n : Z) (l : list Z) : option (list Z) :=
  match l with
  | [] => Some []
  | _ =>
    match fuel with
    | O => None
    | S f =>
      match field n l with
      | None => None
      | Some (v, r) => match chunks f n r with Some t => Some (num v :: t) | None => None end
      end
    end
  end.

(* ------------------------------------------------------------------ RFC 4271 4.3: attribute TLVs *)

Definition tlv := (Z * Z * list Z)%type.   (* flags, type code, value *)

Fixpoint tlvs (fuel : nat) (d : list Z) : option (list tlv) :=
  match d with
  | [] => Some []
  | _ =>
    match fuel with
    | O => None
    | S f =>
      match d with
      | fl :: code :: rest =>
        let lsize := if (fl / 16) mod 2 =? 1 then 2 else 1 in
        match field lsize rest with
        | None => None
        | Some (lv, r1) =>
          match field (num lv) r1 with
          | None => None
          | Some (v, r2) => match tlvs f r2 with Some t => Some ((fl, code, v) :: t) | None => None end
          end
        end
      | _ => None
      end
    end
  end.

(* ------------------------------------------------------------------ NLRI *)

(* RFC 8277: 3-octet entries until the bottom-of-stack bit.  -> (20-bit labels, rest) *)
Fixpoint label_stack (fuel : nat) (d : list Z) : option (list Z * list Z) :=
  match fuel with
  | O => None
  | S f =>
    match field 3 d with
    | None => None
    | Some (w, r) =>
      if Z.odd (num w) then Some ([num w / 16], r)
      else match label_stack f r with Some (ls, r') => Some (num w / 16 :: ls, r') | None => None end
    end
  end.

(* one NLRI of family (afi, safi).  bits = 32 / 128.  On withdraw the label field carries no
   information: a first entry 0x800000 is the whole field, and the labels are not reported. *)
Definition nlri1 (addpath withdraw : bool) (afi safi : Z) (d : list Z) : option (rfc_route * list Z) :=
  let bits := if afi =? 1 then 32 else 128 in
  match (if addpath then match field 4 d with Some (p, r) => Some (Some (num p), r) | None => None end
         else Some (None, d)) with
  | None => None
  | Some (pid, d1) =>
    match d1 with
    | [] => None
    | total :: d2 =>
      match (if (safi =? 4) || (safi =? 128) then
               if withdraw && (num (take 3 d2) =? 8388608) then Some ([], 1%nat, drop 3 d2)
               else match label_stack (length d2) d2 with
                    | Some (ls, r) => Some (if withdraw then [] else ls, length ls, r)
                    | None => None end
             else Some ([], 0%nat, d2)) with
      | None => None
      | Some (labels, nl, d3) =>
        match (if safi =? 128 then match field 8 d3 with Some (rd, r) => Some (Some (num rd), r) | None => None end
               else Some (None, d3)) with
        | None => None
        | Some (rd, d4) =>
          let plen := total - 24 * Z.of_nat nl - (match rd with Some _ => 64 | None => 0 end) in
          if (plen <? 0) || (bits <? plen) then None else
          match field ((plen + 7) / 8) d4 with
          | None => None
          | Some (a, rest) => Some (mkR pid labels rd plen (num a), rest)
          end
        end
      end
    end
  end.

Fixpoint nlris (fuel : nat) (addpath withdraw : bool) (afi safi : Z) (d : list Z) : option (list rfc_route) :=
  match d with
  | [] => Some []
  | _ =>
    match fuel with
    | O => None
    | S f =>
      match nlri1 addpath withdraw afi safi d with
      | None => None
      | Some (r, rest) => match nlris f addpath withdraw afi safi rest with Some t => Some (r :: t) | None => None end
      end
    end
  end.

(* ------------------------------------------------------------------ RFC 4760 / 4364 / 4659 / 8950: next hop *)

Definition all_zero (l : list Z) : bool := forallb (Z.eqb 0) l.

(* the network address of the next hop: 4 octets (IPv4) or 16 (IPv6; a following link-local is dropped) *)
Definition mp_nexthop (rs : rsess) (afi safi : Z) (nh : list Z) : option (list Z) :=
  let body := if safi =? 128 then (if all_zero (take 8 nh) && (8 <=? len nh) then Some (drop 8 nh) else None)
              else Some nh in
  match body with
  | None => None
  | Some a =>
    if len a =? 4 then (if afi =? 1 then Some a else None)
    else if (len a =? 16) || (len a =? 32) then
      (if (afi =? 2) || rs_extnh rs afi safi then Some (take 16 a) else None)
    else None
  end.

(* ------------------------------------------------------------------ attribute values *)

Definition segment := (Z * list Z)%type.   (* 1 AS_SET, 2 AS_SEQUENCE, 3 AS_CONFED_SEQUENCE, 4 AS_CONFED_SET *)

Fixpoint segments (fuel : nat) (width : Z) (d : list Z) : option (list segment) :=
  match d with
  | [] => Some []
  | _ =>
    match fuel with
    | O => None
    | S f =>
      match d with
      | ty :: count :: rest =>
        if (ty <? 1) || (4 <? ty) then None else
        match field (count * width) rest with
        | None => None
        | Some (v, r) =>
          match chunks (length v) width v, segments f width r with
          | Some asns, Some t => Some ((ty, asns) :: t)
          | _, _ => None
          end
        end
      | _ => None
      end
    end
  end.

Inductive sattr :=
| SOrigin (v : Z)
| SAsPath (p : list segment)
| SMed (v : Z)
| SLocalPref (v : Z)
| SAtomic
| SAggregator (asn : Z) (ip : list Z)
| SCommunity (vs : list Z)
| SOriginator (ip : list Z)
| SCluster (ids : list Z)
| SExtended (vs : list Z)
| SLarge (vs : list Z)
| SOther (flags code : Z) (data : list Z).

(* everything an UPDATE can carry, before the RFC 6793 / RFC 4760 post-processing *)
Inductive rattr :=
| RSem (a : sattr)
| RNextHop (ip : list Z)
| RAs4Path (p : list segment)
| RAs4Aggregator (asn : Z) (ip : list Z)
| RReach (afi safi : Z) (nh : list Z) (l : list rfc_route)
| RUnreach (afi safi : Z) (l : list rfc_route).

Definition opt_map {A B} (f : A -> B) (o : option A) : option B :=
  match o with Some x => Some (f x) | None => None end.

Definition interp (rs : rsess) (t : tlv) : option rattr :=
  match t with (fl, code, v) =>
    let known (want : Z) (r : option rattr) : option rattr :=
      (* Optional and Transitive bits must be the ones of the attribute type (RFC 4271 6.3) *)
      if fl / 64 =? want then r else None in
    if code =? 1 then known 1 (match v with [o] => if o <=? 2 then Some (RSem (SOrigin o)) else None | _ => None end)
    else if code =? 2 then known 1 (opt_map (fun p => RSem (SAsPath p)) (segments (length v) (if rs_asn4 rs then 4 else 2) v))
    else if code =? 3 then known 1 (if len v =? 4 then Some (RNextHop v) else None)
    else if code =? 4 then known 2 (if len v =? 4 then Some (RSem (SMed (num v))) else None)
    else if code =? 5 then known 1 (if len v =? 4 then Some (RSem (SLocalPref (num v))) else None)
    else if code =? 6 then known 1 (match v with [] => Some (RSem SAtomic) | _ => None end)
    else if code =? 7 then
      known 3 (let w := if rs_asn4 rs then 4 else 2 in
               if len v =? w + 4 then Some (RSem (SAggregator (num (take w v)) (drop w v))) else None)
    else if code =? 8 then known 3 (opt_map (fun l => RSem (SCommunity l)) (chunks (length v) 4 v))
    else if code =? 9 then known 2 (if len v =? 4 then Some (RSem (SOriginator v)) else None)
    else if code =? 10 then known 2 (opt_map (fun l => RSem (SCluster l)) (chunks (length v) 4 v))
    else if code =? 14 then
      known 2 (match v with
               | a1 :: a2 :: safi :: nhl :: r =>
                 let afi := a1 * 256 + a2 in
                 match field nhl r with
                 | Some (nh, 0 :: r2) =>
                   match mp_nexthop rs afi safi nh, nlris (length r2) (rs_addpath rs afi safi) false afi safi r2 with
                   | Some a, Some l => Some (RReach afi safi a l)
                   | _, _ => None
                   end
                 | _ => None
                 end
               | _ => None
               end)
    else if code =? 15 then
      known 2 (match v with
               | a1 :: a2 :: safi :: r =>
                 let afi := a1 * 256 + a2 in
                 opt_map (RUnreach afi safi) (nlris (length r) (rs_addpath rs afi safi) true afi safi r)
               | _ => None
               end)
    else if code =? 16 then known 3 (opt_map (fun l => RSem (SExtended l)) (chunks (length v) 8 v))
    else if code =? 17 then known 3 (opt_map RAs4Path (segments (length v) 4 v))
    else if code =? 18 then known 3 (if len v =? 8 then Some (RAs4Aggregator (num (take 4 v)) (drop 4 v)) else None)
    else if code =? 32 then known 3 (opt_map (fun l => RSem (SLarge l)) (chunks (length v) 12 v))
    else Some (RSem (SOther (fl - (if (fl / 16) mod 2 =? 1 then 16 else 0)) code v))
  end.

Fixpoint interp_all (rs : rsess) (l : list tlv) : option (list rattr) :=
  match l with
  | [] => Some []
  | t :: r => match interp rs t, interp_all rs r with Some a, Some b => Some (a :: b) | _, _ => None end
  end.

(* ------------------------------------------------------------------ RFC 6793 4.2.3 *)

Definition seg_count (sg : segment) : Z :=
  if fst sg =? 2 then len (snd sg) else if fst sg =? 1 then 1 else 0.
Definition path_count (p : list segment) : Z := fold_right (fun sg a => seg_count sg + a) 0 p.

(* the leading k ASes of a path *)
Fixpoint leading (k : Z) (p : list segment) : list segment :=
  match p with
  | [] => []
  | sg :: r =>
    if k <=? 0 then []
    else if seg_count sg <=? k then sg :: leading (k - seg_count sg) r
    else if fst sg =? 2 then [(2, take k (snd sg))] else []
  end.

Definition reconstruct (p2 : list segment) (p4 : option (list segment)) : list segment :=
  match p4 with
  | None => p2
  | Some p4 =>
    if path_count p2 <? path_count p4 then p2
    else leading (path_count p2 - path_count p4) p2 ++ p4
  end.

Definition find_as4path (l : list rattr) : option (list segment) :=
  match filter (fun a => match a with RAs4Path _ => true | _ => false end) l with
  | RAs4Path p :: _ => Some p | _ => None end.
Definition find_as4aggr (l : list rattr) : option (Z * list Z) :=
  match filter (fun a => match a with RAs4Aggregator _ _ => true | _ => false end) l with
  | RAs4Aggregator a i :: _ => Some (a, i) | _ => None end.
Definition find_nexthop (l : list rattr) : option (list Z) :=
  match filter (fun a => match a with RNextHop _ => true | _ => false end) l with
  | RNextHop i :: _ => Some i | _ => None end.

(* the attribute values an RFC 6793 receiver ends up with *)
Definition merge_as4 (rs : rsess) (l : list rattr) : list sattr :=
  flat_map (fun a =>
    match a with
    | RSem (SAsPath p) => [SAsPath (if rs_asn4 rs then p else reconstruct p (find_as4path l))]
    | RSem (SAggregator asn ip) =>
      [match (if rs_asn4 rs then None else find_as4aggr l) with
       | Some (a4, i4) => if asn =? 23456 then SAggregator a4 i4 else SAggregator asn ip
       | None => SAggregator asn ip end]
    | RSem x => [x]
    | _ => []
    end) l.

(* ------------------------------------------------------------------ the UPDATE *)

Definition family := (Z * Z)%type.

Record update_sem := mkU {
  u_withdrawn : list (family * rfc_route);
  u_announced : list (family * rfc_route * list Z);   (* with the next hop address *)
  u_attrs : list sattr;                               (* NEXT_HOP / MP_* / AS4_* are folded into the above *)
  u_raw_aspath : option (list segment);               (* AS_PATH as on the wire, before reconstruction *)
  u_raw_as4path : option (list segment) }.

Definition find_aspath (l : list rattr) : option (list segment) :=
  match filter (fun a => match a with RSem (SAsPath _) => true | _ => false end) l with
  | RSem (SAsPath p) :: _ => Some p | _ => None end.

Definition ref_decode (rs : rsess) (body : list Z) : option update_sem :=
  match field 2 body with
  | None => None
  | Some (wl, b1) =>
    match field (num wl) b1 with
    | None => None
    | Some (wd, b2) =>
      match field 2 b2 with
      | None => None
      | Some (al, b3) =>
        match field (num al) b3 with
        | None => None
        | Some (at_, nl) =>
          match nlris (length wd) (rs_addpath rs 1 1) true 1 1 wd,
                tlvs (length at_) at_,
                nlris (length nl) (rs_addpath rs 1 1) false 1 1 nl with
          | Some w4, Some ts, Some a4 =>
            match interp_all rs ts with
            | None => None
            | Some ras =>
              match (match a4 with [] => Some [] | _ =>
                       match find_nexthop ras with Some nh => Some (map (fun r => ((1, 1), r, nh)) a4) | None => None end
                     end) with
              | None => None      (* NLRI without NEXT_HOP *)
              | Some ann4 =>
                Some (mkU
                  (map (fun r => ((1, 1), r)) w4
                   ++ flat_map (fun a => match a with RUnreach afi safi l => map (fun r => ((afi, safi), r)) l | _ => [] end) ras)
                  (ann4
                   ++ flat_map (fun a => match a with RReach afi safi nh l => map (fun r => ((afi, safi), r, nh)) l | _ => [] end) ras)
                  (merge_as4 rs ras)
                  (find_aspath ras)
                  (find_as4path ras))
              end
            end
          | _, _, _ => None
          end
        end
      end
    end
  end.
