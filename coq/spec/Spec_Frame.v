(* RFC 4271 section 4.1 / 6.1 framing, written without reference to ExaBGP's code.
   No schedule: the specification is a function of the byte stream alone. *)
From Coq Require Import ZArith Bool List Arith.
Import ListNotations.
Open Scope Z_scope.

Inductive fout := FMsg (ty : Z) (body : list Z) | FNotify (code sub : Z).

Definition all_ff (l : list Z) : bool := forallb (Z.eqb 255) l.

(* minimum / exact lengths per type: RFC 4271 4.2-4.5, RFC 2918 3; OPERATIONAL (6) is the
   draft type ExaBGP registers and has no bound beyond the header *)
Definition rfc_len_ok (ty len : Z) : bool :=
  match ty with
  | 1 => 29 <=? len
  | 2 => 23 <=? len
  | 3 => 21 <=? len
  | 4 => len =? 19
  | 5 => len =? 23
  | _ => 19 <=? len
  end.

Definition known_type (ty : Z) : bool := (1 <=? ty) && (ty <=? 6).

Fixpoint frame (fuel : nat) (max : Z) (s : list Z) : list fout :=
  match fuel with
  | O => []
  | S fuel' =>
    if (length s <? 19)%nat then []
    else if negb (all_ff (firstn 16 s)) then [FNotify 1 1]
    else
      let len := 256 * nth 16 s 0 + nth 17 s 0 in
      let ty := nth 18 s 0 in
      if (len <? 19) || (max <? len) || negb (rfc_len_ok ty len) then [FNotify 1 2]
      else if (length s <? Z.to_nat len)%nat then []
      else if negb (known_type ty) then [FNotify 1 3]
      else FMsg ty (firstn (Z.to_nat len - 19) (skipn 19 s)) :: frame fuel' max (skipn (Z.to_nat len) s)
  end.

Definition frames (max : Z) (s : list Z) : list fout := frame (S (length s)) max s.
