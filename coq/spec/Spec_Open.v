(* C07 - what RFC 4271 (OPEN, hold time, error subcodes), RFC 5492 (capabilities), RFC 4760 (families),
   RFC 6793 (4-octet AS), RFC 7911 (ADD-PATH), RFC 8950 (extended next hop), RFC 2918 / RFC 7313
   (route refresh), RFC 8654 (extended message) and RFC 6286 (BGP identifier) say the parameters of a
   session are, as a function of what the two OPEN messages advertise.
   Written from the RFCs; shares no definition with Model_Open (it does not even import it). *)
From Coq Require Import ZArith Bool List.
Import ListNotations.
Open Scope Z_scope.

Definition family := (Z * Z)%type.
Definition nexthop := (Z * Z * Z)%type.

(* What one OPEN advertises: fixed fields, and for every capability code the values of all its
   instances, concatenated in the order of the message (a capability may be repeated, RFC 5492 s.4). *)
Record adv := {
  a_version : Z;
  a_as2 : Z;                          (* the 2-octet My Autonomous System field *)
  a_hold : Z;
  a_id : Z;                           (* BGP Identifier as a 32 bit number *)
  a_mp : list family;                 (* every MULTIPROTOCOL instance *)
  a_as4 : list Z;                     (* every 4-octet AS capability value *)
  a_addpath : list (family * Z);      (* every (family, Send/Receive) tuple of every ADD-PATH instance *)
  a_nexthop : list nexthop;           (* every tuple of every extended next hop instance *)
  a_extmsg : bool;
  a_refresh : bool;
  a_enhanced : bool;
  a_paths_limit : list (family * Z);  (* every (family, limit) tuple of every PATHS-LIMIT instance *)
  a_multisession : bool;              (* draft-ietf-idr-bgp-multisession capability present *)
  a_ms_ids : list Z }.                (* the session identifier capability codes it lists (all instances) *)

Inductive refresh_kind := RefreshAbsent | RefreshNormal | RefreshEnhanced.

Record params := {
  p_families : list family;
  p_asn4 : bool;
  p_local_as : Z;
  p_peer_as : Z;
  p_send : family -> bool;            (* we may send several paths for that family *)
  p_recv : family -> bool;            (* the peer may send us several paths *)
  p_nexthop : list nexthop;
  p_refresh : refresh_kind;
  p_msg_size : Z;
  p_hold : Z;
  p_paths_limit : family -> option Z;      (* how many paths the peer accepts from us for that family *)
  p_adv_paths_limit : family -> option Z   (* how many we told the peer we accept *) }.

Definition same_family (a b : family) : bool := (fst a =? fst b) && (snd a =? snd b).
Definition same_nexthop (a b : nexthop) : bool :=
  (fst (fst a) =? fst (fst b)) && (snd (fst a) =? snd (fst b)) && (snd a =? snd b).

(* intersection, listed once each, in the order the peer listed them *)
Fixpoint common {A} (eqb : A -> A -> bool) (seen ours theirs : list A) : list A :=
  match theirs with
  | [] => []
  | x :: t =>
      if existsb (eqb x) seen then common eqb seen ours t
      else if existsb (eqb x) ours then x :: common eqb (seen ++ [x]) ours t
      else common eqb (seen ++ [x]) ours t
  end.

(* RFC 6793: a NEW speaker says its AS number in the capability; the last instance counts *)
Definition speaks_as4 (a : adv) : bool := negb (Nat.eqb (length (a_as4 a)) 0).
Definition true_as (a : adv) : Z := last (a_as4 a) (a_as2 a).

(* RFC 7911 s.4: Send/Receive 1 = can receive, 2 = can send, 3 = both; the last tuple for a family counts *)
Definition send_receive (a : adv) (f : family) : Z :=
  fold_left (fun acc e => if same_family f (fst e) then snd e else acc) (a_addpath a) 0.
Definition can_receive (x : Z) : bool := (x =? 1) || (x =? 3).
Definition can_send (x : Z) : bool := (x =? 2) || (x =? 3).

(* draft-abraitis-idr-addpath-paths-limit: a limit of zero is ignored, the first tuple of a family counts;
   the limit binds the side that sends several paths for that family, so it exists only where ADD-PATH
   was negotiated in that direction *)
Fixpoint first_limit (l : list (family * Z)) (f : family) : option Z :=
  match l with
  | [] => None
  | e :: t => if same_family f (fst e) && negb (snd e =? 0) then Some (snd e) else first_limit t f
  end.

Definition rfc_negotiate (ours theirs : adv) : params :=
  {| p_families := common same_family [] (a_mp ours) (a_mp theirs);
     p_asn4 := speaks_as4 ours && speaks_as4 theirs;
     p_local_as := true_as ours;
     (* an OLD speaker (one that does not advertise the capability) only knows the 2-octet field *)
     p_peer_as := if speaks_as4 ours then true_as theirs else a_as2 theirs;
     p_send := fun f => can_send (send_receive ours f) && can_receive (send_receive theirs f);
     p_recv := fun f => can_receive (send_receive ours f) && can_send (send_receive theirs f);
     p_nexthop := common same_nexthop [] (a_nexthop ours) (a_nexthop theirs);
     p_refresh := if a_enhanced ours && a_enhanced theirs then RefreshEnhanced
                  else if a_refresh ours && a_refresh theirs then RefreshNormal else RefreshAbsent;
     p_msg_size := if a_extmsg ours && a_extmsg theirs then 65535 else 4096;
     p_hold := Z.min (a_hold ours) (a_hold theirs);
     p_paths_limit := fun f =>
       if can_send (send_receive ours f) && can_receive (send_receive theirs f)
       then first_limit (a_paths_limit theirs) f else None;
     p_adv_paths_limit := fun f =>
       if can_receive (send_receive ours f) && can_send (send_receive theirs f)
       then first_limit (a_paths_limit ours) f else None |}.

(* RFC 6793 s.4.1/4.2.1: the 2-octet field carries the AS number when it fits, AS_TRANS otherwise *)
Definition as_consistent (a : adv) : Prop :=
  a_as4 a = [] \/ a_as2 a = (if true_as a <=? 65535 then true_as a else 23456).

(* draft-ietf-idr-bgp-multisession-07 s.6: a speaker that requires session grouping refuses a peer
   without the capability with "Grouping Required" (2/9); when both have it the sessions must be grouped
   on the same identifiers (none listed means MULTIPROTOCOL, code 1) and the same families, else
   "Grouping Conflict" (2/8).  The group is the list of families (each once). *)
Definition session_ids (a : adv) : list Z := match a_ms_ids a with [] => [1] | l => l end.
Definition same_set (a b : list Z) : bool :=
  forallb (fun x => existsb (Z.eqb x) b) a && forallb (fun x => existsb (Z.eqb x) a) b.
Fixpoint same_families (a b : list family) : bool :=
  match a, b with
  | [], [] => true
  | x :: a', y :: b' => same_family x y && same_families a' b'
  | _, _ => false end.
Definition ms_faults (ours theirs : adv) : list (Z * Z) :=
  if a_multisession ours then
    if a_multisession theirs then
      (if same_set (session_ids ours) (session_ids theirs)
          && same_families (a_mp ours) (common same_family [] (a_mp theirs) (a_mp theirs)) then [] else [(2, 8)])
    else [(2, 9)]
  else [].

(* The faults of the peer's OPEN that the RFCs require to be answered by a NOTIFICATION, each with its
   OPEN Message Error subcode (RFC 4271 s.6.2, RFC 6286 s.2.2).  `expected` = configured peer AS, 0 = any. *)
Definition rfc_faults (expected local_id : Z) (ours theirs : adv) : list (Z * Z) :=
  let p := rfc_negotiate ours theirs in
  (if a_version theirs =? 4 then [] else [(2, 1)])
  ++ (if negb (expected =? 0) && negb (p_peer_as p =? expected) then [(2, 2)] else [])
  ++ (if a_id theirs =? 0 then [(2, 3)] else [])
  ++ (if (p_peer_as p =? p_local_as p) && (a_id theirs =? local_id) then [(2, 3)] else [])
  ++ (if (0 <? a_hold theirs) && (a_hold theirs <? 3) then [(2, 6)] else [])
  ++ ms_faults ours theirs.

(* RFC 9072 s.2, on the octets that follow the BGP Identifier: the extended encoding is in use iff the Non-Ext OP
   Type octet (the second) is 255; the Non-Ext OP Len octet (the first) is then any value but 0 ("SHOULD be 255",
   "MUST NOT be 0", "MUST be ignored on receipt once the use of the extended encoding has been determined"), and the
   Extended Opt. Parm. Length is the two octets after them. *)
Definition rfc9072_extended (d : list Z) : bool := negb (nth 0 d 0 =? 0) && (nth 1 d 0 =? 255).
