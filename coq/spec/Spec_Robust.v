(* C03 - RFC-level vocabulary, written from the RFCs and sharing no code with Model_Robust:
   * which (error code, error subcode) pairs a NOTIFICATION may carry,
   * the wire form of a path attribute (RFC 4271 4.3) and of a block of attributes,
   * when the two length fields of an UPDATE fit its body (RFC 4271 4.3 / 6.3). *)
From Coq Require Import ZArith Bool List.
Import ListNotations.
Open Scope Z_scope.

(* RFC 4271 4.5: "If no appropriate Error Subcode is defined, then a zero (Unspecific) value is used", for every code.
   1 Message Header Error (6.1): 1 Connection Not Synchronized, 2 Bad Message Length, 3 Bad Message Type.
   2 OPEN Message Error (6.2): 1..6 (5 deprecated), 7 Unsupported Capability (RFC 5492).
   3 UPDATE Message Error (6.3): 1..11 (7 deprecated); RFC 7606 reuses them.
   4 Hold Timer Expired.  5 Finite State Machine Error: 1..3 (RFC 6608).
   6 Cease: 1..8 (RFC 4486), 9 Hard Reset (RFC 8538), 10 BFD Down (RFC 9384).
   7 ROUTE-REFRESH Message Error (RFC 7313): 1 Invalid Message Length, nothing else. *)
Definition rfc_defined (code sub : Z) : bool :=
  (0 <=? sub) &&
  (if code =? 1 then sub <=? 3
   else if code =? 2 then sub <=? 7
   else if code =? 3 then sub <=? 11
   else if code =? 4 then sub =? 0
   else if code =? 5 then sub <=? 3
   else if code =? 6 then sub <=? 10
   else if code =? 7 then sub <=? 1
   else false).

(* RFC 4271 4.3: attribute flags octet, type code octet, one length octet - two when the Extended Length bit
   (0x10, the fourth high-order bit) is set - then the value. *)
Record pattr := mkA { pa_flags : Z; pa_code : Z; pa_value : list Z }.

Definition ext_bit (flags : Z) : bool := Z.odd (flags / 16).
Definition vlen (a : pattr) : Z := Z.of_nat (length (pa_value a)).

Definition enc_attr (a : pattr) : list Z :=
  if ext_bit (pa_flags a)
  then [pa_flags a; pa_code a; vlen a / 256; vlen a mod 256] ++ pa_value a
  else [pa_flags a; pa_code a; vlen a] ++ pa_value a.

Definition enc_block (l : list pattr) : list Z := flat_map enc_attr l.

(* the value fits the length field *)
Definition wf_attr (a : pattr) : Prop :=
  0 <= pa_flags a < 256 /\ (if ext_bit (pa_flags a) then vlen a < 65536 else vlen a < 256).

(* RFC 4271 4.3: Withdrawn Routes Length (2), Withdrawn Routes, Total Path Attribute Length (2), Path Attributes,
   NLRI (the rest).  6.3: "Withdrawn Routes Length or Total Attribute Length too large" is an error. *)
Definition u16 (l : list Z) (at_ : Z) : Z := nth (Z.to_nat at_) l 0 * 256 + nth (Z.to_nat (at_ + 1)) l 0.

Definition sections_fit (b : list Z) : bool :=
  let n := Z.of_nat (length b) in
  (4 <=? n) && (4 + u16 b 0 <=? n) && (4 + u16 b 0 + u16 b (2 + u16 b 0) <=? n).

Definition byte_list (b : list Z) : Prop := Forall (fun x => 0 <= x < 256) b.
