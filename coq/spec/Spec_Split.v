(* C09 - property-level vocabulary: what one generated UPDATE is, how long it is on the wire
   (RFC 4271 4.3, RFC 4760 3/4), what a list of UPDATEs announces and withdraws.  Written from the
   RFCs, independent of how ExaBGP packs: no budget, no accumulator, no loop of the code here.

   NLRIs are abstract (type A with a wire length sz); next hops are abstract (type NH with an
   encoded length nhlen, RD padding included); families are abstract tags (type F). *)
From Coq Require Import ZArith List Bool.
Import ListNotations.
Open Scope Z_scope.

(* RFC 4271 4.3: an attribute is flags(1) type(1) length(1, or 2 when extended) value *)
Definition attr_len (p : Z) : Z := p + (if 255 <? p then 4 else 3).

Record msg {A NH F : Type} := Msg {
  m_wd : list A;                       (* Withdrawn Routes field *)
  m_unreach : option (F * list A);     (* MP_UNREACH_NLRI attribute, if any *)
  m_attr : bool;                       (* the packed path attributes of the collection present *)
  m_reach : option (F * NH * list A);  (* MP_REACH_NLRI attribute, if any *)
  m_ann : list A                       (* Network Layer Reachability Information field *)
}.
Arguments msg : clear implicits.
Arguments Msg {A NH F}.

Section Obs.
  Context {A NH F : Type}.
  Variable sz : A -> Z.
  Variable nhlen : NH -> Z.
  Variable alen : Z.          (* length of the packed attribute block *)

  Definition lsum (l : list A) : Z := fold_right (fun x s => sz x + s) 0 l.

  (* MP_UNREACH_NLRI value: AFI(2) SAFI(1) NLRIs *)
  Definition unreach_wire (o : option (F * list A)) : Z :=
    match o with None => 0 | Some (_, l) => attr_len (3 + lsum l) end.

  (* MP_REACH_NLRI value: AFI(2) SAFI(1) NHlen(1) NH reserved(1) NLRIs *)
  Definition reach_wire (o : option (F * NH * list A)) : Z :=
    match o with None => 0 | Some (_, nh, l) => attr_len (5 + nhlen nh + lsum l) end.

  Definition attrs_wire (m : msg A NH F) : Z :=
    unreach_wire (m_unreach m) + (if m_attr m then alen else 0) + reach_wire (m_reach m).

  (* header 19, withdrawn length 2, withdrawn, attribute length 2, attributes, nlri *)
  Definition wire_size (m : msg A NH F) : Z :=
    19 + 2 + lsum (m_wd m) + 2 + attrs_wire m + lsum (m_ann m).

  Definition fits (M : Z) (ms : list (msg A NH F)) : Prop :=
    Forall (fun m => wire_size m <= M) ms.

  (* what the messages say, in order of emission *)
  Definition announced_v4 (ms : list (msg A NH F)) : list A := flat_map (@m_ann A NH F) ms.
  Definition withdrawn_v4 (ms : list (msg A NH F)) : list A := flat_map (@m_wd A NH F) ms.
  Definition announced_mp (ms : list (msg A NH F)) : list (F * NH * A) :=
    flat_map (fun m => match m_reach m with
                       | Some (f, nh, l) => map (fun x => (f, nh, x)) l
                       | None => [] end) ms.
  Definition withdrawn_mp (ms : list (msg A NH F)) : list (F * A) :=
    flat_map (fun m => match m_unreach m with
                       | Some (f, l) => map (fun x => (f, x)) l
                       | None => [] end) ms.

  (* an UPDATE that announces something carries the attributes *)
  Definition attrs_where_needed (ms : list (msg A NH F)) : Prop :=
    Forall (fun m => (m_ann m <> [] \/ m_reach m <> None) -> m_attr m = true) ms.
End Obs.

(* the request, as the property speaks of it: IPv4 announces/withdraws, and per MP family the
   announces (each with its own next hop) and the withdraws *)
Definition requested_mp {A NH F} (fams : list (F * list (NH * A) * list A)) : list (F * NH * A) :=
  flat_map (fun fam => match fam with (f, routed, _) =>
              map (fun r => (f, fst r, snd r)) routed end) fams.
Definition requested_mp_wd {A NH F} (fams : list (F * list (NH * A) * list A)) : list (F * A) :=
  flat_map (fun fam => match fam with (f, _, wds) => map (fun x => (f, x)) wds end) fams.

(* "every single NLRI fits the room the attributes leave" (room = M - 19 - 2 - 2 - len attr): an IPv4
   NLRI as such, an MP NLRI inside an MP_(UN)REACH_NLRI attribute that carries it alone *)
Definition fits_alone {A NH F} (sz : A -> Z) (nhlen : NH -> Z) (room : Z)
           (v4a v4w : list A) (fams : list (F * list (NH * A) * list A)) : Prop :=
  (forall x, In x (v4a ++ v4w) -> 0 < sz x <= room) /\
  (forall f routed wds nh x, In (f, routed, wds) fams -> In (nh, x) routed ->
     0 < sz x /\ attr_len (5 + nhlen nh + sz x) <= room) /\
  (forall f routed wds x, In (f, routed, wds) fams -> In x wds ->
     0 < sz x /\ attr_len (3 + sz x) <= room).

(* "the attributes leave no room for even one prefix" *)
Definition none_fits {A NH F} (sz : A -> Z) (nhlen : NH -> Z) (room : Z)
           (v4a v4w : list A) (fams : list (F * list (NH * A) * list A)) : Prop :=
  (forall x, In x (v4a ++ v4w) -> room < sz x) /\
  (forall f routed wds nh x, In (f, routed, wds) fams -> In (nh, x) routed ->
     room < attr_len (5 + nhlen nh + sz x)) /\
  (forall f routed wds x, In (f, routed, wds) fams -> In x wds -> room < attr_len (3 + sz x)).
