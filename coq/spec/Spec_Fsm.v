(* Spec_Fsm - what RFC 4271 (s6, s8.2.2), RFC 6608 and RFC 7313 say about the session state machine,
   written from the RFCs, independently of ExaBGP's code.

   1. the vocabulary of observations shared by the model, the harness and the checkers below:
      stimuli (event) and effects (action) of one peer session;
   2. rfc_allowed : the state transitions that exist in RFC 4271 s8.2.2;
   3. class_ok    : which NOTIFICATION (code, subcode) answers which error class (RFC 4271 s6.1-6.7,
                    RFC 6608 for the FSM-error subcodes, RFC 7313 for ROUTE-REFRESH errors);
   4. a monitor (mon) that follows a trace of (event, actions) and the per-clause checkers of C05 and
      C10 judged on it.  A trace is what the harness observes on the real Peer and what the model
      produces; the checkers never look at the model's state. *)
From Coq Require Import ZArith List Bool.
Import ListNotations.
Open Scope Z_scope.

(* ------------------------------------------------------------------------------------------------ *)
(* 1. vocabulary *)

Inductive fstate := Idle | Active | Connect | OpenSent | OpenConfirm | Established.

(* what the reader obtained from the transport; error kinds carry the subcode of their RFC class *)
Inductive rkind :=
| OpenOk                      (* an OPEN that passes every check of s6.2 *)
| OpenBad (sub : Z)           (* an OPEN failing the check whose subcode is sub *)
| Keepalive
| UpdateOk                    (* an UPDATE that does not require a session reset (incl. End-of-RIB, RFC 7606 cases) *)
| UpdateBad (sub : Z)         (* an UPDATE whose error requires a session reset, subcode sub *)
| Notification
| Refresh
| RefreshBad (sub : Z)
| Operational                 (* well-formed message of type 6 (not negotiated) *)
| UnknownType
| HeaderErr (sub : Z).        (* s6.1: 1 connection not synchronised, 2 bad length *)

Inductive reload := Same | Changed | Removed.

Inductive event :=
| Tick                        (* the scheduler lets the peer task make progress: next attempt / pending sends *)
| ConnectOk | ConnectFail     (* result of the outgoing TCP connect *)
| Incoming (rid_ge : bool)    (* an incoming TCP connection is offered; rid_ge: remote BGP id >= local id *)
| Recv (k : rkind)
| Eof | SockErr
| HoldExpire | OpenWaitExpire
| Teardown (code : Z)         (* API teardown <code> *)
| Reload (r : reload)         (* configuration reload: neighbor unchanged / changed / removed *)
| ApiRefresh                  (* the API queues a ROUTE-REFRESH to send *)
| ProcessBroken               (* the API process consuming neighbor-changes died *)
| RecvPart                    (* the reader took the first octets of a message that is not complete yet *)
| Handover                    (* top of a main-loop iteration: the reloaded neighbor (routes) is adopted *)
| LoopPause                   (* the main loop enters the pause that ends an iteration while a teardown is requested *)
| LoopExit.                   (* the main loop is left because a teardown is requested *)

Inductive wmsg := WOpen | WKeepalive | WUpdate | WEor | WRefresh | WNotification (c s : Z).

Inductive action :=
| Fsm (a b : fstate)          (* FSM.change(b) called in state a *)
| Write (m : wmsg)            (* one message written on the transport the session owns *)
| CloseTransport              (* the transport the session owns is closed *)
| CloseOrphan                 (* an accepted transport that was never used is dropped *)
| ApiUp | ApiDown | ApiConnected.   (* ApiConnected: a new transport becomes the session's transport *)

Definition trace := list (event * list action).

Definition fstate_eqb (a b : fstate) : bool :=
  match a, b with
  | Idle, Idle | Active, Active | Connect, Connect | OpenSent, OpenSent
  | OpenConfirm, OpenConfirm | Established, Established => true
  | _, _ => false
  end.

(* "connected" states: a TCP connection belongs to the session *)
Definition connected (a : fstate) : bool :=
  match a with Idle | Active => false | _ => true end.

(* ------------------------------------------------------------------------------------------------ *)
(* 2. RFC 4271 s8.2.2: the transitions that exist (event numbers of s8.1 in comments) *)

Definition rfc_allowed (a b : fstate) : bool :=
  match a, b with
  (* Idle: ManualStart/AutomaticStart (1,3) -> Connect; passive start (4,5) -> Active; every other event is ignored *)
  | Idle, Idle | Idle, Connect | Idle, Active => true
  (* Connect: ConnectRetryTimer (9) stays; Tcp success (16,17) -> OpenSent, or with DelayOpen an OPEN (20) ->
     OpenConfirm; TcpConnectionFails (18) -> Active (DelayOpen running) or Idle; anything else -> Idle *)
  | Connect, Connect | Connect, OpenSent | Connect, OpenConfirm | Connect, Active | Connect, Idle => true
  (* Active: ConnectRetryTimer (9) -> Connect; Tcp success -> OpenSent; DelayOpen + OPEN (20) -> OpenConfirm;
     TcpConnectionFails / errors -> Idle *)
  | Active, Active | Active, Connect | Active, OpenSent | Active, OpenConfirm | Active, Idle => true
  (* OpenSent: TcpConnectionFails (18) -> Active; BGPOpen (19) -> OpenConfirm; errors, stop, hold timer -> Idle *)
  | OpenSent, OpenSent | OpenSent, Active | OpenSent, OpenConfirm | OpenSent, Idle => true
  (* OpenConfirm: KeepaliveTimer (11) stays; KeepAliveMsg (26) -> Established; everything else -> Idle *)
  | OpenConfirm, OpenConfirm | OpenConfirm, Established | OpenConfirm, Idle => true
  (* Established: timers, KEEPALIVE, UPDATE stay; everything else -> Idle *)
  | Established, Established | Established, Idle => true
  | _, _ => false
  end.

(* ------------------------------------------------------------------------------------------------ *)
(* 3. RFC 4271 s6 + RFC 6608 + RFC 7313: the NOTIFICATION that answers an error *)

(* RFC 6608 s3: FSM error subcodes by state *)
Definition unexpected (st : fstate) (c s : Z) : bool :=
  (c =? 5) && match st with OpenSent => s =? 1 | OpenConfirm => s =? 2 | Established => s =? 3 | _ => false end.

Definition pairb (c s c' s' : Z) : bool := (c =? c') && (s =? s').

(* class_ok st td pb e c s: NOTIFICATION (c, s) is a right answer when stimulus e takes effect in FSM
   state st; td: an administrative teardown was requested and not served yet (Cease, any subcode of
   RFC 4486); pb: the API process is lost (Cease, unspecific). *)
Definition class_ok (st : fstate) (td pb : bool) (e : event) (c s : Z) : bool :=
  (td && (c =? 6)) || (pb && pairb c s 6 0) ||
  (connected st &&
   match e with
   | Recv (HeaderErr x) => pairb c s 1 x                              (* s6.1 *)
   | Recv UnknownType => pairb c s 1 3                                (* s6.1 Bad Message Type *)
   | Recv (OpenBad x) =>                                              (* s6.2; in Established an OPEN is also an FSM error *)
       pairb c s 2 x || (fstate_eqb st Established && unexpected st c s)
   | Recv OpenOk => negb (fstate_eqb st OpenSent) && unexpected st c s
   | Recv Keepalive => fstate_eqb st OpenSent && unexpected st c s
   | Recv UpdateOk | Recv Refresh | Recv Operational =>
       (fstate_eqb st OpenSent || fstate_eqb st OpenConfirm) && unexpected st c s
   | Recv (UpdateBad x) =>                                            (* s6.3; outside Established the message is unexpected too *)
       if fstate_eqb st Established then pairb c s 3 x else (pairb c s 3 x || unexpected st c s)
   | Recv (RefreshBad x) =>                                           (* RFC 7313 s5 *)
       if fstate_eqb st Established then pairb c s 7 x else (pairb c s 7 x || unexpected st c s)
   | HoldExpire => pairb c s 4 0                                      (* s6.5 *)
   | OpenWaitExpire =>                                                (* s8.2.2 OpenSent hold timer: 4/0; ExaBGP's open wait
                                                                         is specified (C12) to end with FSM error 5/1 *)
       fstate_eqb st OpenSent && (pairb c s 4 0 || pairb c s 5 1)
   | Teardown _ | Reload Changed => c =? 6                            (* s6.7 Cease *)
   | _ => false
   end).

(* stimuli after which a session that ends must have been told why (received message other than a
   NOTIFICATION, timer expiry) *)
Definition must_answer (e : event) : bool :=
  match e with
  | Recv Notification => false
  | Recv _ | HoldExpire | OpenWaitExpire => true
  | _ => false
  end.

(* ------------------------------------------------------------------------------------------------ *)
(* 4. the monitor *)

Record mon := {
  m_fsm : fstate;        (* state according to the Fsm actions seen *)
  m_topen : bool;        (* the session owns an open transport *)
  m_osent : bool;        (* OPEN written on it *)
  m_orcvd : bool;        (* valid OPEN read from it *)
  m_krcvd : bool;        (* KEEPALIVE read from it after the OPEN *)
  m_up : bool;           (* API: up reported, down not yet *)
  m_notified : bool;     (* NOTIFICATION written on it *)
  m_td : bool;           (* teardown requested, Cease not sent yet *)
  m_pb : bool;           (* API process lost *)
  m_mustclose : bool     (* a connected state was left and the transport is still open *)
}.

Definition mon0 : mon :=
  {| m_fsm := Idle; m_topen := false; m_osent := false; m_orcvd := false; m_krcvd := false; m_up := false;
     m_notified := false; m_td := false; m_pb := false; m_mustclose := false |}.

(* a transport is taken (o = true) or closed (o = false); a requested teardown stays requested until a
   Cease is written (ExaBGP keeps Peer._teardown across a connection replaced by an incoming one) *)
Definition set_transport (m : mon) (o : bool) : mon :=
  {| m_fsm := m_fsm m; m_topen := o; m_osent := false; m_orcvd := false; m_krcvd := false; m_up := m_up m;
     m_notified := false; m_td := m_td m; m_pb := m_pb m; m_mustclose := false |}.

(* the stimulus is seen before its effects *)
Definition mon_ev (m : mon) (e : event) : mon :=
  match e with
  | Recv OpenOk =>
      {| m_fsm := m_fsm m; m_topen := m_topen m; m_osent := m_osent m; m_orcvd := m_orcvd m || m_topen m;
         m_krcvd := m_krcvd m; m_up := m_up m; m_notified := m_notified m; m_td := m_td m; m_pb := m_pb m;
         m_mustclose := m_mustclose m |}
  | Recv Keepalive =>
      {| m_fsm := m_fsm m; m_topen := m_topen m; m_osent := m_osent m; m_orcvd := m_orcvd m;
         m_krcvd := m_krcvd m || m_orcvd m; m_up := m_up m; m_notified := m_notified m; m_td := m_td m;
         m_pb := m_pb m; m_mustclose := m_mustclose m |}
  | Teardown _ | Reload Changed | Reload Removed =>
      {| m_fsm := m_fsm m; m_topen := m_topen m; m_osent := m_osent m; m_orcvd := m_orcvd m; m_krcvd := m_krcvd m;
         m_up := m_up m; m_notified := m_notified m; m_td := true; m_pb := m_pb m; m_mustclose := m_mustclose m |}
  | ProcessBroken =>
      {| m_fsm := m_fsm m; m_topen := m_topen m; m_osent := m_osent m; m_orcvd := m_orcvd m; m_krcvd := m_krcvd m;
         m_up := m_up m; m_notified := m_notified m; m_td := m_td m; m_pb := true; m_mustclose := m_mustclose m |}
  | _ => m
  end.

Definition mon_act (m : mon) (a : action) : mon :=
  match a with
  | Fsm x y =>
      {| m_fsm := y; m_topen := m_topen m; m_osent := m_osent m; m_orcvd := m_orcvd m; m_krcvd := m_krcvd m;
         m_up := m_up m; m_notified := m_notified m; m_td := m_td m; m_pb := m_pb m;
         m_mustclose := m_mustclose m || (connected x && negb (connected y) && m_topen m) |}
  | Write WOpen =>
      {| m_fsm := m_fsm m; m_topen := m_topen m; m_osent := true; m_orcvd := m_orcvd m; m_krcvd := m_krcvd m;
         m_up := m_up m; m_notified := m_notified m; m_td := m_td m; m_pb := m_pb m; m_mustclose := m_mustclose m |}
  | Write (WNotification c _) =>
      {| m_fsm := m_fsm m; m_topen := m_topen m; m_osent := m_osent m; m_orcvd := m_orcvd m; m_krcvd := m_krcvd m;
         m_up := m_up m; m_notified := true; m_td := m_td m && negb (c =? 6); m_pb := m_pb m;
         m_mustclose := m_mustclose m |}
  | Write _ => m
  | CloseTransport => set_transport m false
  | CloseOrphan => m
  | ApiConnected => set_transport m true
  | ApiUp =>
      {| m_fsm := m_fsm m; m_topen := m_topen m; m_osent := m_osent m; m_orcvd := m_orcvd m; m_krcvd := m_krcvd m;
         m_up := true; m_notified := m_notified m; m_td := m_td m; m_pb := m_pb m; m_mustclose := m_mustclose m |}
  | ApiDown =>
      {| m_fsm := m_fsm m; m_topen := m_topen m; m_osent := m_osent m; m_orcvd := m_orcvd m; m_krcvd := m_krcvd m;
         m_up := false; m_notified := m_notified m; m_td := m_td m; m_pb := m_pb m; m_mustclose := m_mustclose m |}
  end.

Definition mon_acts (m : mon) (l : list action) : mon := fold_left mon_act l m.
Definition mon_step (m : mon) (x : event * list action) : mon := mon_acts (mon_ev m (fst x)) (snd x).

(* ---- clauses; each is judged on the monitor state in which the action happens.
   A clause is a pair: okA m0 e m a  (m0 = monitor at the start of the step, after the stimulus; m = just
   before action a)  and  okE m0 e acts m_end  (end of the step). *)

Definition is_notification (a : action) : bool := match a with Write (WNotification _ _) => true | _ => false end.
Definition is_write (a : action) : bool := match a with Write _ => true | _ => false end.
Definition leaves (a : action) : bool := match a with Fsm x y => connected x && negb (connected y) | _ => false end.

(* C05 (1): every transition is an RFC transition and starts from the state the machine is in *)
Definition okA_trans (m : mon) (a : action) : bool :=
  match a with Fsm x y => rfc_allowed x y && fstate_eqb x (m_fsm m) | _ => true end.

(* C05 (2): Established only after OPEN sent, valid OPEN received, KEEPALIVE received, on the owned transport *)
Definition okA_est (m : mon) (a : action) : bool :=
  match a with
  | Fsm _ Established => m_topen m && m_osent m && m_orcvd m && m_krcvd m
  | _ => true
  end.

(* C05 (3): UPDATE, End-of-RIB, ROUTE-REFRESH only in Established *)
Definition okA_upd (m : mon) (a : action) : bool :=
  match a with
  | Write WUpdate | Write WEor | Write WRefresh => fstate_eqb (m_fsm m) Established
  | _ => true
  end.

(* C05 (4): when a connected state is left the transport is closed before the step ends and before
   another transport is taken *)
Definition okA_close (m : mon) (a : action) : bool :=
  match a with ApiConnected => negb (m_mustclose m) | _ => true end.
Definition okE_close (m : mon) : bool := negb (m_mustclose m).

(* C05 (5): up / down alternate *)
Definition okA_updown (m : mon) (a : action) : bool :=
  match a with ApiUp => negb (m_up m) | _ => true end.

(* C10 (3): nothing is written after a NOTIFICATION, and the transport is closed before the step ends
   and before another one is taken *)
Definition okA_silence (m : mon) (a : action) : bool :=
  match a with
  | Write _ | ApiConnected => negb (m_notified m)
  | _ => true
  end.
Definition okE_silence (m : mon) : bool := negb (m_notified m).

(* C10 (1a): a NOTIFICATION names the error class of the stimulus that took effect in this step, in the
   state the machine was in when it did (m0) *)
Definition okA_class (m0 : mon) (e : event) (a : action) : bool :=
  match a with
  | Write (WNotification c s) => m_topen m0 && class_ok (m_fsm m0) (m_td m0) (m_pb m0) e c s
  | _ => true
  end.

(* C10 (1b): a session ended by a received message or a timer is told why: if the step leaves a
   connected state, it wrote a NOTIFICATION *)
Definition okE_answered (e : event) (acts : list action) : bool :=
  negb (must_answer e && existsb leaves acts) || existsb is_notification acts.

(* C10 (2): a received NOTIFICATION is not answered *)
Definition okE_noreply (e : event) (acts : list action) : bool :=
  match e with Recv Notification => negb (existsb is_write acts) | _ => true end.

(* generic folding of a clause over a trace *)
Fixpoint acts_ok (okA : mon -> action -> bool) (m : mon) (l : list action) : bool :=
  match l with
  | [] => true
  | a :: r => okA m a && acts_ok okA (mon_act m a) r
  end.

Definition step_ok (okA : mon -> event -> mon -> action -> bool) (okE : mon -> event -> list action -> mon -> bool)
  (m : mon) (x : event * list action) : bool :=
  let m0 := mon_ev m (fst x) in
  acts_ok (okA m0 (fst x)) m0 (snd x) && okE m0 (fst x) (snd x) (mon_acts m0 (snd x)).

Fixpoint trace_ok (okA : mon -> event -> mon -> action -> bool) (okE : mon -> event -> list action -> mon -> bool)
  (m : mon) (t : trace) : bool :=
  match t with
  | [] => true
  | x :: r => step_ok okA okE m x && trace_ok okA okE (mon_step m x) r
  end.

Definition noE (m0 : mon) (e : event) (acts : list action) (m : mon) : bool := true.

Definition check_trans := trace_ok (fun _ _ => okA_trans) noE.
Definition check_est := trace_ok (fun _ _ => okA_est) noE.
Definition check_upd := trace_ok (fun _ _ => okA_upd) noE.
Definition check_close := trace_ok (fun _ _ => okA_close) (fun _ _ _ m => okE_close m).
Definition check_updown := trace_ok (fun _ _ => okA_updown) noE.
Definition check_silence := trace_ok (fun _ _ => okA_silence) (fun _ _ _ m => okE_silence m).
Definition check_class := trace_ok (fun m0 e _ => okA_class m0 e) noE.
Definition check_answered := trace_ok (fun _ _ _ _ => true) (fun _ e acts _ => okE_answered e acts).
Definition check_noreply := trace_ok (fun _ _ _ _ => true) (fun _ e acts _ => okE_noreply e acts).

(* "single": at most one NOTIFICATION per transport follows from check_silence (a second one would be
   a write after a NOTIFICATION). *)

(* all clauses, as a list of verdicts in a fixed order (used by the harness on observed traces) *)
Definition verdicts (t : trace) : list bool :=
  [check_trans mon0 t; check_est mon0 t; check_upd mon0 t; check_close mon0 t; check_updown mon0 t;
   check_class mon0 t; check_answered mon0 t; check_noreply mon0 t; check_silence mon0 t].
