(* RFC 4271 (4.2, 4.4, 6.5, 8 / events 10, 11) vocabulary for C12, written without reference to
   ExaBGP's code: what a schedule is, what "silence", "hold time domain", "paced by delta" and
   "KEEPALIVE count" mean.  No timer code here; Model_Timer only borrows the schedule types.

   Time is what the integer clock int(time.time()) shows (seconds, Z).  [int_clock_*] in
   Proofs_Timer relate these readings to a finer clock (any unit u per second). *)
From Coq Require Import ZArith Bool List.
Import ListNotations.
Open Scope Z_scope.

(* what the reader handed to the loop in one iteration: nothing, or a message of wire type ty *)
Inductive inbound := InNone | InMsg (ty : Z).

(* one iteration of the established loop:
     dt  seconds pass between the previous consultation of the send timer and this
         consultation of the hold timer (read wait, handlers, outbound batch of the
         previous iteration, sleeps, other peers);
     inb is what the read returned;
     dk  seconds pass between the hold-timer check and the send-timer check of the same
         iteration (adjacent statements: 0, or 1 when the second changes in between). *)
Record step := { dt : Z; inb : inbound; dk : Z }.

Definition real (i : inbound) : bool := match i with InNone => false | InMsg _ => true end.
(* RFC 4271 4.1: KEEPALIVE is type 4 *)
Definition is_ka (i : inbound) : bool := match i with InMsg t => t =? 4 | InNone => false end.

Definition wf_step (x : step) : Prop := 0 <= dt x /\ 0 <= dk x.
Definition silent (x : step) : Prop := inb x = InNone.

(* negotiated hold times: RFC 4271 4.2 (0 or at least 3), 16-bit field *)
Definition hold_ok (H : Z) : Prop := H = 0 \/ 3 <= H <= 65535.

(* clock reading after a prefix of the schedule, starting at t *)
Fixpoint t_after (t : Z) (l : list step) : Z :=
  match l with [] => t | x :: r => t_after (t + dt x + dk x) r end.

(* reading at which something was last heard, after a prefix (h: before the prefix) *)
Fixpoint heard_after (h t : Z) (l : list step) : Z :=
  match l with
  | [] => h
  | x :: r => heard_after (if real (inb x) then t + dt x else h) (t + dt x + dk x) r
  end.

(* the silence the hold timer is asked about at the iteration x that follows prefix pre *)
Definition silence (h t : Z) (pre : list step) (x : step) : Z :=
  if real (inb x) then 0 else t_after t pre + dt x - heard_after h t pre.

(* delta: no two consecutive consultations of the same timer are more than delta apart.
   prev = seconds between the last hold-timer check before the schedule and its start. *)
Fixpoint paced (delta prev : Z) (l : list step) : Prop :=
  match l with
  | [] => True
  | x :: r => prev + dt x <= delta /\ dt x + dk x <= delta /\ paced delta (dk x) r
  end.

Definition count_ka (l : list step) : nat := length (filter (fun x => is_ka (inb x)) l).

(* every two neighbours of a list are related by P *)
Fixpoint chain (P : Z -> Z -> Prop) (a : Z) (l : list Z) : Prop :=
  match l with [] => True | b :: r => P a b /\ chain P b r end.

(* open wait: what arrives while waiting for the peer's OPEN; d = time since the previous
   event, in the unit of the configured wait *)
Inductive open_in := OpNothing | OpOpen | OpOther.

(* first thing that is not "nothing", with its arrival time *)
Fixpoint first_msg (e : Z) (l : list (Z * open_in)) : option (Z * open_in) :=
  match l with
  | [] => None
  | (d, OpNothing) :: r => first_msg (e + d) r
  | (d, i) :: _ => Some (e + d, i)
  end.

Fixpoint total (e : Z) (l : list (Z * open_in)) : Z :=
  match l with [] => e | (d, _) :: r => total (e + d) r end.

(* RFC 4271 / the property: what the attempt must come to.  5/1 when no OPEN arrived before the
   wait elapsed (or when the first message is not an OPEN); the OPEN when it came in time;
   still waiting when the observation ends before the wait. *)
Inductive open_out := OpenPending (e : Z) | OpenGot (e : Z) | OpenNotify (e c s : Z).

Definition open_expected (wait : Z) (l : list (Z * open_in)) : open_out :=
  match first_msg 0 l with
  | Some (e, OpOpen) => if e <? wait then OpenGot e else OpenNotify wait 5 1
  | Some (e, _) => if e <? wait then OpenNotify e 5 1 else OpenNotify wait 5 1
  | None => if wait <=? total 0 l then OpenNotify wait 5 1 else OpenPending (total 0 l)
  end.
