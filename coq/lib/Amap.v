(* Association lists with Python-dict semantics: a key keeps its position when re-assigned,
   new keys are appended, iteration is in insertion order. *)
From Coq Require Import List Bool Arith.
Import ListNotations.

Section Amap.
  Context {K V : Type}.
  Variable eqb : K -> K -> bool.
  Hypothesis eqb_spec : forall a b, reflect (a = b) (eqb a b).

  Definition amap := list (K * V).

  Fixpoint aget (k : K) (m : amap) : option V :=
    match m with
    | [] => None
    | (k', v) :: m' => if eqb k k' then Some v else aget k m'
    end.

  Fixpoint aset (k : K) (v : V) (m : amap) : amap :=
    match m with
    | [] => [(k, v)]
    | (k', v') :: m' => if eqb k k' then (k', v) :: m' else (k', v') :: aset k v m'
    end.

  Fixpoint apop (k : K) (m : amap) : amap :=
    match m with
    | [] => []
    | (k', v') :: m' => if eqb k k' then m' else (k', v') :: apop k m'
    end.

  Definition amem (k : K) (m : amap) : bool := match aget k m with Some _ => true | None => false end.
  Definition akeys (m : amap) : list K := map fst m.
  Definition avalues (m : amap) : list V := map snd m.
  Definition awf (m : amap) : Prop := NoDup (akeys m).

  Lemma eqb_refl : forall a, eqb a a = true.
  Proof. intros a. destruct (eqb_spec a a); [reflexivity|congruence]. Qed.

  Lemma aget_aset_same : forall k v m, aget k (aset k v m) = Some v.
  Proof.
    induction m as [|[k' v'] m IH]; simpl.
    - now rewrite eqb_refl.
    - destruct (eqb k k') eqn:E; simpl; rewrite E; [reflexivity|exact IH].
  Qed.

  Lemma aget_aset_other : forall k k' v m, k <> k' -> aget k (aset k' v m) = aget k m.
  Proof.
    intros k k' v m N. induction m as [|[k2 v2] m IH]; simpl.
    - destruct (eqb_spec k k'); [contradiction|reflexivity].
    - destruct (eqb_spec k' k2) as [->|N2]; simpl.
      + destruct (eqb_spec k k2); [contradiction|reflexivity].
      + destruct (eqb k k2); [reflexivity|exact IH].
  Qed.

  Lemma aget_not_in : forall k m, ~ In k (akeys m) -> aget k m = None.
  Proof.
    induction m as [|[k' v'] m IH]; simpl; intros H; [reflexivity|].
    destruct (eqb_spec k k') as [->|N]; [exfalso; apply H; now left|].
    apply IH. intros C. apply H. now right.
  Qed.

  Lemma aget_in_keys : forall k v m, aget k m = Some v -> In k (akeys m).
  Proof.
    induction m as [|[k' v'] m IH]; simpl; intros H; [discriminate|].
    destruct (eqb_spec k k') as [->|N]; [now left|right; now apply IH].
  Qed.

  Lemma aget_apop_same : forall k m, awf m -> aget k (apop k m) = None.
  Proof.
    induction m as [|[k' v'] m IH]; simpl; intros W; [reflexivity|].
    inversion W as [|? ? Hn Hw]; subst.
    destruct (eqb_spec k k') as [->|N].
    - now apply aget_not_in.
    - simpl. destruct (eqb_spec k k'); [contradiction|now apply IH].
  Qed.

  Lemma aget_apop_other : forall k k' m, k <> k' -> aget k (apop k' m) = aget k m.
  Proof.
    intros k k' m N. induction m as [|[k2 v2] m IH]; simpl; [reflexivity|].
    destruct (eqb_spec k' k2) as [->|N2]; simpl.
    - destruct (eqb_spec k k2); [contradiction|reflexivity].
    - destruct (eqb k k2); [reflexivity|exact IH].
  Qed.

  Lemma akeys_aset : forall k v m, In k (akeys m) -> akeys (aset k v m) = akeys m.
  Proof.
    induction m as [|[k' v'] m IH]; simpl; intros H; [contradiction|].
    destruct (eqb_spec k k') as [->|N]; simpl; [reflexivity|].
    f_equal. apply IH. destruct H; [congruence|assumption].
  Qed.

  Lemma akeys_aset_new : forall k v m, ~ In k (akeys m) -> akeys (aset k v m) = akeys m ++ [k].
  Proof.
    induction m as [|[k' v'] m IH]; simpl; intros H; [reflexivity|].
    destruct (eqb_spec k k') as [->|N]; [exfalso; apply H; now left|].
    simpl. f_equal. apply IH. intros C; apply H; now right.
  Qed.

  Lemma in_keys_aset : forall k k' v m, In k (akeys (aset k' v m)) <-> k = k' \/ In k (akeys m).
  Proof.
    intros k k' v m. induction m as [|[k2 v2] m IH]; simpl.
    - intuition congruence.
    - destruct (eqb_spec k' k2) as [->|N]; simpl; intuition congruence.
  Qed.

  Lemma awf_aset : forall k v m, awf m -> awf (aset k v m).
  Proof.
    unfold awf. induction m as [|[k' v'] m IH]; simpl; intros W.
    - constructor; [intros []|constructor].
    - inversion W as [|? ? Hn Hw]; subst.
      destruct (eqb_spec k k') as [->|N]; simpl.
      + constructor; assumption.
      + constructor; [|now apply IH].
        intros C. apply in_keys_aset in C. destruct C as [C|C]; [congruence|contradiction].
  Qed.

  Lemma in_keys_apop : forall k k' m, In k (akeys (apop k' m)) -> In k (akeys m).
  Proof.
    intros k k' m. induction m as [|[k2 v2] m IH]; simpl; [tauto|].
    destruct (eqb_spec k' k2) as [->|N]; simpl; intuition.
  Qed.

  Lemma awf_apop : forall k m, awf m -> awf (apop k m).
  Proof.
    unfold awf. induction m as [|[k' v'] m IH]; simpl; intros W; [constructor|].
    inversion W as [|? ? Hn Hw]; subst.
    destruct (eqb_spec k k'); simpl; [assumption|].
    constructor; [|now apply IH]. intros C. apply Hn. eapply in_keys_apop; eassumption.
  Qed.

  Lemma in_aget : forall k v m, awf m -> (In (k, v) m <-> aget k m = Some v).
  Proof.
    induction m as [|[k' v'] m IH]; simpl; intros W.
    - split; [intros []|discriminate].
    - inversion W as [|? ? Hn Hw]; subst. specialize (IH Hw).
      destruct (eqb_spec k k') as [->|N].
      + split.
        * intros [E|I]; [congruence|]. exfalso. apply Hn. change k' with (fst (k', v)). now apply in_map.
        * intros E. left. congruence.
      + split.
        * intros [E|I]; [congruence|now apply IH].
        * intros E. right. now apply IH.
  Qed.

  Lemma amem_true : forall k m, amem k m = true <-> In k (akeys m).
  Proof.
    intros k m. unfold amem. split.
    - destruct (aget k m) eqn:E; [intros _; eapply aget_in_keys; eassumption|discriminate].
    - intros H. destruct (aget k m) eqn:E; [reflexivity|].
      exfalso. induction m as [|[k' v'] m IH]; simpl in *; [assumption|].
      destruct (eqb_spec k k') as [->|N]; [discriminate|]. destruct H; [congruence|auto].
  Qed.
End Amap.

Arguments amap : clear implicits.
