(* Compact byte-string literals for generated case files: 8 bytes per Z word. *)
From Coq Require Import ZArith List.
Import ListNotations.
Open Scope Z_scope.

Definition word_bytes (w : Z) : list Z :=
  [ (w / 72057594037927936) mod 256; (w / 281474976710656) mod 256; (w / 1099511627776) mod 256;
    (w / 4294967296) mod 256; (w / 16777216) mod 256; (w / 65536) mod 256; (w / 256) mod 256; w mod 256 ].

Definition bytes_of (len : nat) (ws : list Z) : list Z := firstn len (flat_map word_bytes ws).
