(* Shared list lemmas missing from Coq 8.16's List. Stdlib only. *)
From Coq Require Import List Arith Lia.
Import ListNotations.

Lemma firstn_add {A} (n m : nat) (l : list A) :
  firstn (n + m) l = firstn n l ++ firstn m (skipn n l).
Proof.
  revert l; induction n as [|n IH]; intros l; simpl; [reflexivity|].
  destruct l as [|x l]; simpl.
  - now rewrite firstn_nil.
  - now rewrite IH.
Qed.

Lemma skipn_add {A} (n m : nat) (l : list A) :
  skipn (n + m) l = skipn m (skipn n l).
Proof.
  revert l; induction n as [|n IH]; intros l; simpl; [reflexivity|].
  destruct l as [|x l]; simpl.
  - now rewrite skipn_nil.
  - apply IH.
Qed.

Lemma skipn_length_le {A} (n : nat) (l : list A) : length (skipn n l) = length l - n.
Proof. apply skipn_length. Qed.

Lemma firstn_length_min {A} (n : nat) (l : list A) : length (firstn n l) = Nat.min n (length l).
Proof. apply firstn_length. Qed.
