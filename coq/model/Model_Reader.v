(* Model of Connection._reader_async/_reader + reader_async/reader + the framing part of
   Protocol.read_message.  The header validation itself is Gen_Header (regenerated from source). *)
From Coq Require Import ZArith Bool List Arith.
From ExaV Require Import gen.Gen_Header.
Import ListNotations.
Open Scope Z_scope.

Definition bytes := list Z.

(* One `recv_into(view[offset:])` call: the kernel hands over at least one byte and at most what
   is still needed (the view is exactly that long); `sched` says how many bytes each successive
   call offers (k means k+1 bytes); an exhausted schedule offers everything.  An empty stream
   is the peer's FIN: recv returns 0 -> LostConnection (None). *)
Fixpoint read_loop (fuel need : nat) (stream : bytes) (sched : list nat) (acc : bytes)
  : option (bytes * bytes * list nat) :=
  match need with
  | O => Some (acc, stream, sched)
  | S _ =>
    match fuel with
    | O => None
    | S fuel' =>
      match stream with
      | [] => None
      | _ :: _ =>
        let offer := match sched with [] => need | k :: _ => Nat.min (S k) need end in
        let got := Nat.min offer (length stream) in
        read_loop fuel' (need - got) (skipn got stream) (tl sched) (acc ++ firstn got stream)
      end
    end
  end.

Definition read_exact (need : nat) (stream : bytes) (sched : list nat) :=
  read_loop need need stream sched [].

Fixpoint list_eqb (a b : list Z) : bool :=
  match a, b with
  | [], [] => true
  | x :: a', y :: b' => (x =? y) && list_eqb a' b'
  | _, _ => false
  end.

(* what reader_async() returns *)
Record item := { it_len : Z; it_type : Z; it_header : bytes; it_body : bytes; it_err : option (Z * Z) }.

Inductive step_res :=
| Lost                                   (* LostConnection: the stream ended inside a message *)
| Got (i : item) (rest : bytes) (sched : list nat).

Definition reader_step (async : bool) (max : Z) (stream : bytes) (sched : list nat) : step_res :=
  match read_exact (Z.to_nat HEADER_LEN) stream sched with
  | None => Lost
  | Some (hdr, rest, sched') =>
    let hb := fun i => nth (Z.to_nat i) hdr 0 in
    let marker_ok := list_eqb (firstn 16 hdr) MARKER in
    match (if async then check_header_async hb marker_ok max else check_header_sync hb marker_ok max) with
    | HErr len c s => Got {| it_len := len; it_type := 0; it_header := hdr; it_body := []; it_err := Some (c, s) |} rest sched'
    | HDone len msg => Got {| it_len := len; it_type := msg; it_header := hdr; it_body := []; it_err := None |} rest sched'
    | HBody len msg number =>
      match read_exact (Z.to_nat number) rest sched' with
      | None => Lost
      | Some (body, rest', sched'') =>
        Got {| it_len := len; it_type := msg; it_header := hdr; it_body := body; it_err := None |} rest' sched''
      end
    end
  end.

(* what the protocol layer sees: a message (type, body) or the NOTIFICATION that ends the session *)
Inductive out := OMsg (ty : Z) (body : bytes) | ONotify (code sub : Z).

Definition mem (x : Z) (l : list Z) : bool := existsb (Z.eqb x) l.

(* Protocol.read_message up to Message.unpack's dispatch on the type *)
Definition deliver (i : item) : out :=
  match it_err i with
  | Some (c, s) => ONotify c s
  | None =>
    if negb (mem (it_type i) MESSAGES) then ONotify (fst UNKNOWN_TYPE_NOTIFY) (snd UNKNOWN_TYPE_NOTIFY)
    else if negb (mem (it_type i) REGISTERED) then ONotify (fst UNPACK_UNKNOWN_NOTIFY) (snd UNPACK_UNKNOWN_NOTIFY)
    else OMsg (it_type i) (it_body i)
  end.

Definition is_notify (o : out) : bool := match o with ONotify _ _ => true | _ => false end.

(* successive read_message calls until the session ends (notification) or the stream does *)
Fixpoint run_reader (fuel : nat) (async : bool) (max : Z) (stream : bytes) (sched : list nat) : list out :=
  match fuel with
  | O => []
  | S fuel' =>
    match reader_step async max stream sched with
    | Lost => []
    | Got i rest sched' =>
      let o := deliver i in
      if is_notify o then [o] else o :: run_reader fuel' async max rest sched'
    end
  end.

Definition reader (async : bool) (max : Z) (stream : bytes) (sched : list nat) : list out :=
  run_reader (S (length stream)) async max stream sched.

(* reader-level view (what successive reader_async()/reader() calls return), used by the
   correspondence check for the entry points below Protocol.read_message *)
Fixpoint run_items (fuel : nat) (async : bool) (max : Z) (stream : bytes) (sched : list nat) : list out :=
  match fuel with
  | O => []
  | S fuel' =>
    match reader_step async max stream sched with
    | Lost => []
    | Got i rest sched' =>
      match it_err i with
      | Some (c, s) => [ONotify c s]
      | None => OMsg (it_type i) (it_body i) :: run_items fuel' async max rest sched'
      end
    end
  end.
Definition reader_items (async : bool) (max : Z) (stream : bytes) (sched : list nat) : list out :=
  run_items (S (length stream)) async max stream sched.
