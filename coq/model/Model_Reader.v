(* Model of Connection._reader_async/_reader + reader_async/reader + the framing part of
   Protocol.read_message.  The header validation itself is Gen_Header (regenerated from source). *)
From Coq Require Import ZArith Bool List Arith.
From ExaV Require Import gen.Gen_Header.
Import ListNotations.
Open Scope Z_scope.

Definition bytes := list Z.

(* One `recv_into(view[offset:])` call: the kernel hands over at least one byte and at most what
   is still needed (the view is exactly that long); `sched` says how many bytes each successive
   call offers (k means k+1 bytes); an exhausted schedule offers everything.  An empty stream
   is the peer's FIN: recv returns 0 -> LostConnection (None). *)
Fixpoint read_loop (fuel need : nat) (stream : bytes) (sched : list nat) (acc : bytes)
  : option (bytes * bytes * list nat) :=
  match need with
  | O => Some (acc, stream, sched)
  | S _ =>
    match fuel with
    | O => None
    | S fuel' =>
      match stream with
      | [] => None
      | _ :: _ =>
        let offer := match sched with [] => need | k :: _ => Nat.min (S k) need end in
        let got := Nat.min offer (length stream) in
        read_loop fuel' (need - got) (skipn got stream) (tl sched) (acc ++ firstn got stream)
      end
    end
  end.

Definition read_exact (need : nat) (stream : bytes) (sched : list nat) :=
  read_loop need need stream sched [].

Fixpoint list_eqb (a b : list Z) : bool :=
  match a, b with
  | [], [] => true
  | x :: a', y :: b' => (x =? y) && list_eqb a' b'
  | _, _ => false
  end.

(* what reader_async() returns *)
Record item := { it_len : Z; it_type : Z; it_header : bytes; it_body : bytes; it_err : option (Z * Z) }.

Inductive step_res :=
| Lost                                   (* LostConnection: the stream ended inside a message *)
| Got (i : item) (rest : bytes) (sched : list nat).

Definition reader_step (async : bool) (max : Z) (stream : bytes) (sched : list nat) : step_res :=
  match read_exact (Z.to_nat HEADER_LEN) stream sched with
  | None => Lost
  | Some (hdr, rest, sched') =>
    let hb := fun i => nth (Z.to_nat i) hdr 0 in
    let marker_ok := list_eqb (firstn 16 hdr) MARKER in
    match (if async then check_header_async hb marker_ok max else check_header_sync hb marker_ok max) with
    | HErr len c s => Got {| it_len := len; it_type := 0; it_header := hdr; it_body := []; it_err := Some (c, s) |} rest sched'
    | HDone len msg => Got {| it_len := len; it_type := msg; it_header := hdr; it_body := []; it_err := None |} rest sched'
    | HBody len msg number =>
      match read_exact (Z.to_nat number) rest sched' with
      | None => Lost
      | Some (body, rest', sched'') =>
        Got {| it_len := len; it_type := msg; it_header := hdr; it_body := body; it_err := None |} rest' sched''
      end
    end
  end.

(* what the protocol layer sees: a message (type, body) or the NOTIFICATION that ends the session *)
Inductive out := OMsg (ty : Z) (body : bytes) | ONotify (code sub : Z).

Definition mem (x : Z) (l : list Z) : bool := existsb (Z.eqb x) l.

(* Protocol.read_message up to Message.unpack's dispatch on the type *)
Definition deliver (i : item) : out :=
  match it_err i with
  | Some (c, s) => ONotify c s
  | None =>
    if negb (mem (it_type i) MESSAGES) then ONotify (fst UNKNOWN_TYPE_NOTIFY) (snd UNKNOWN_TYPE_NOTIFY)
    else if negb (mem (it_type i) REGISTERED) then ONotify (fst UNPACK_UNKNOWN_NOTIFY) (snd UNPACK_UNKNOWN_NOTIFY)
    else OMsg (it_type i) (it_body i)
  end.

Definition is_notify (o : out) : bool := match o with ONotify _ _ => true | _ => false end.

(* successive read_message calls until the session ends (notification) or the stream does *)
Fixpoint run_reader (fuel : nat) (async : bool) (max : Z) (stream : bytes) (sched : list nat) : list out :=
  match fuel with
  | O => []
  | S fuel' =>
    match reader_step async max stream sched with
    | Lost => []
    | Got i rest sched' =>
      let o := deliver i in
      if is_notify o then [o] else o :: run_reader fuel' async max rest sched'
    end
  end.

Definition reader (async : bool) (max : Z) (stream : bytes) (sched : list nat) : list out :=
  run_reader (S (length stream)) async max stream sched.

(* reader-level view (what successive reader_async()/reader() calls return), used by the
   correspondence check for the entry points below Protocol.read_message *)
Fixpoint run_items (fuel : nat) (async : bool) (max : Z) (stream : bytes) (sched : list nat) : list out :=
  match fuel with
  | O => []
  | S fuel' =>
    match reader_step async max stream sched with
    | Lost => []
    | Got i rest sched' =>
      match it_err i with
      | Some (c, s) => [ONotify c s]
      | None => OMsg (it_type i) (it_body i) :: run_items fuel' async max rest sched'
      end
    end
  end.
Definition reader_items (async : bool) (max : Z) (stream : bytes) (sched : list nat) : list out :=
  run_items (S (length stream)) async max stream sched.

(* ---------------------------------------------------------------- the read step of Peer._main: timeouts
   Peer._read_message_or_nop waits at most 100 ms for the pending read and KEEPS it when the wait times
   out: a schedule is now a list of events, `Recv k` (the next recv hands over at most k+1 bytes) or
   `Timeout` (the wait expired).  `keep = true` is the code as it is; `keep = false` is the earlier
   behaviour (asyncio.wait_for cancelled the read: the bytes already taken from the socket were dropped
   and the next read started with a fresh header). *)
Inductive tev := Recv (k : nat) | Timeout.

(* bytes of the current message read so far (header and body together) *)
Record tstate := { t_acc : bytes; t_rest : bytes }.

Definition need_of (max : Z) (acc : bytes) : option nat :=
  (* how many more bytes the current message needs, None when the header is refused *)
  if (length acc <? 19)%nat then Some (19 - length acc)%nat
  else
    let hdr := firstn 19 acc in
    let hb := fun i => nth (Z.to_nat i) hdr 0 in
    match check_header_async hb (list_eqb (firstn 16 hdr) MARKER) max with
    | HErr _ _ _ => None
    | HDone _ _ => Some 0%nat
    | HBody len _ _ => Some (Z.to_nat len - length acc)%nat
    end.

Definition finish_msg (max : Z) (acc : bytes) : out :=
  let hdr := firstn 19 acc in
  let hb := fun i => nth (Z.to_nat i) hdr 0 in
  match check_header_async hb (list_eqb (firstn 16 hdr) MARKER) max with
  | HErr len c s => deliver {| it_len := len; it_type := 0; it_header := hdr; it_body := []; it_err := Some (c, s) |}
  | HDone len msg => deliver {| it_len := len; it_type := msg; it_header := hdr; it_body := []; it_err := None |}
  | HBody len msg _ => deliver {| it_len := len; it_type := msg; it_header := hdr; it_body := skipn 19 acc; it_err := None |}
  end.

Definition treset (s : tstate) : tstate := {| t_acc := []; t_rest := t_rest s |}.

Fixpoint run_timed (keep : bool) (max : Z) (evs : list tev) (s : tstate) : list out :=
  match evs with
  | [] => []
  | Timeout :: evs' => run_timed keep max evs' (if keep then s else treset s)
  | Recv k :: evs' =>
      match need_of max (t_acc s), t_rest s with
      | Some (S n), _ :: _ =>
          let got := Nat.min (Nat.min (S k) (S n)) (length (t_rest s)) in
          let acc' := t_acc s ++ firstn got (t_rest s) in
          let rest' := skipn got (t_rest s) in
          match need_of max acc' with
          | None => [finish_msg max acc']                       (* the header just completed is refused *)
          | Some O => let o := finish_msg max acc' in
                      if is_notify o then [o] else o :: run_timed keep max evs' {| t_acc := []; t_rest := rest' |}
          | Some (S _) => run_timed keep max evs' {| t_acc := acc'; t_rest := rest' |}
          end
      | _, _ => []          (* end of the stream inside a message (LostConnection) *)
      end
  end.

Definition timed_reader (keep : bool) (max : Z) (stream : bytes) (evs : list tev) : list out :=
  run_timed keep max evs {| t_acc := []; t_rest := stream |}.

Definition is_recv (e : tev) : bool := match e with Recv _ => true | Timeout => false end.

(* the read step of the tree as it is: READ_KEPT is regenerated from Peer._read_message_or_nop *)
Definition main_reader (max : Z) (stream : bytes) (evs : list tev) : list out :=
  timed_reader READ_KEPT max stream evs.
