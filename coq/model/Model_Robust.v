(* C03 - executable model of the outcome (decoded / refused / other error) of every message decoder,
   instrumented with the number of loop iterations or calls (`steps`) and the Python call depth (`depth`).
   Mirrors, line by line:
     bgp/message/message.py                         Message.unpack (dispatch, unknown type -> Notify(1,3))
     bgp/message/update/__init__.py                 Update.unpack_message (the two End-of-RIB fast paths)
     bgp/message/update/collection.py               UpdateCollection.split / _parse_payload (order of the three walks)
     bgp/message/update/attribute/collection.py     AttributeCollection.parse (the attribute walk; recursive or
                                                    iterative as Gen_ParseShape.PARSE_IS_RECURSIVE says)
     bgp/message/update/nlri/inet.py                INET.unpack_nlri for IPv4 unicast (mask / path-id framing)
     bgp/message/open/__init__.py + capability/capabilities.py   Open.unpack_message, Capabilities.unpack
     bgp/message/notification.py, refresh.py, keepalive.py, operational.py   unpack_message
   Abstracted (section variables, exercised by the harness): the value decoder of a registered attribute
   (`vdec`) and of a capability (`capv`): only their outcome class matters here.
   Constants, the attribute table and the shape of the walk come from gen/Gen_ParseShape.v (translator T12).
   No proofs in this file. *)
From Coq Require Import ZArith Bool List Arith.
From ExaV Require Import gen.Gen_ParseShape.
Import ListNotations.
Open Scope Z_scope.

Definition bytes := list Z.
Definition len (l : bytes) : Z := Z.of_nat (length l).
Definition rd16 (l : bytes) : Z := nth 0 l 0 * 256 + nth 1 l 0.
Definition mem (x : Z) (l : list Z) : bool := existsb (Z.eqb x) l.
Definition bit (flag mask : Z) : bool := negb (Z.land flag mask =? 0).

Fixpoint list_eqb (a b : bytes) : bool :=
  match a, b with
  | [], [] => true
  | x :: a', y :: b' => (x =? y) && list_eqb a' b'
  | _, _ => false
  end.

(* what the caller of a decoder sees *)
Inductive outcome :=
| Decoded (tag : Z)             (* a message object; tag says which (see each decoder) *)
| Refused (code sub : Z)        (* raise Notify(code, sub, ...) *)
| PyError (kind : Z).           (* any other exception *)

(* kinds of PyError *)
Definition K_FUEL : Z := 0.        (* model artefact, excluded by the theorems (fuel = length of the input) *)
Definition K_RECURSION : Z := 1.   (* RecursionError *)
Definition K_VALUE : Z := 2.       (* IndexError / ValueError of a value decoder re-raised by the walk *)
Definition K_ATTRIBUTE : Z := 3.   (* AttributeError: Advisory.__init__ calls .encode on the memoryview slice it is given *)
Definition K_UNMODELLED : Z := 99. (* the concrete value decoder below does not model this attribute code *)

(* ------------------------------------------------------------------ UPDATE: the three sections *)

Inductive sres := SOk (withdrawn attributes announced : bytes) | SRefused (code sub : Z).

(* UpdateCollection.split *)
Definition split (b : bytes) : sres :=
  let n := len b in
  if n <? UPD_HDR then SRefused 1 2
  else
    let lw := rd16 b in
    if n <? UPD_HDR + lw then SRefused 3 1
    else
      let withdrawn := firstn (Z.to_nat lw) (skipn (Z.to_nat UPD_WOFF) b) in
      let start_attributes := lw + UPD_HDR in
      let la := rd16 (skipn (Z.to_nat (lw + UPD_WOFF)) b) in
      if n <? start_attributes + la then SRefused 3 1
      else
        let start_announced := lw + la + UPD_HDR in
        let attributes := firstn (Z.to_nat la) (skipn (Z.to_nat start_attributes) b) in
        let announced := skipn (Z.to_nat start_announced) b in
        if negb (UPD_WOFF + lw + UPD_WOFF + la + len announced =? n) then SRefused 3 1
        else SOk withdrawn attributes announced.

(* ------------------------------------------------------------------ UPDATE: the attribute walk *)

(* outcome of Attribute.unpack(aid, flag, value, negotiated) *)
Inductive vres :=
| VOk                       (* an Attribute whose ID is aid *)
| VDiscarded                (* a Discard pseudo attribute (AIGP on a session without aigp): nothing is recorded under aid *)
| VNotify (code sub : Z)
| VIndexValue               (* IndexError or ValueError *)
| VOther (kind : Z).        (* any other exception *)

Inductive wout :=
| WOk (seen : list Z) (taw : bool)   (* codes now in the collection; INTERNAL_TREAT_AS_WITHDRAW recorded *)
| WRefused (code sub : Z)
| WPyError (kind : Z).

Record wres := mkW { w_out : wout; w_steps : nat; w_depth : nat }.

(* the call (or loop iteration) that ends the walk *)
Definition stop (o : wout) : wres := mkW o 1 1.
(* one more attribute was consumed before `r`: a loop iteration when the walk is a loop, a stack frame
   (`return self.parse(left, negotiated)`) when it calls itself *)
Definition bump (r : wres) : wres :=
  mkW (w_out r) (S (w_steps r)) (if PARSE_IS_RECURSIVE then S (w_depth r) else w_depth r).

(* the header of the next attribute: (flag, aid, length, what follows the header); None = IndexError on
   data[1], data[2] or data[3] (truncated header) *)
Definition hdr (data : bytes) : option (Z * Z * Z * bytes) :=
  match data with
  | flag :: aid :: l0 :: rest =>
      if bit flag F_EXT then
        match rest with
        | l1 :: rest' => Some (flag, aid, l0 * 256 + l1, rest')
        | [] => None
        end
      else Some (flag, aid, l0, rest)
  | _ => None
  end.

Inductive action := AStop (o : wout) | ACont (seen : list Z) (taw : bool).

Section Walk.
  Variable vdec : Z -> Z -> bytes -> vres.     (* flag, aid, value *)

  (* everything parse() does with one attribute once its header is read *)
  Definition act (seen : list Z) (taw : bool) (flag aid length : Z) (attribute : bytes) : action :=
    let row := attr_row aid in
    (* remove the PARTIAL bit before comparison if the attribute is optional *)
    let flag' := match row with
                 | Some r => if r_optional r then Z.land flag MASK_PARTIAL else flag
                 | None => flag end in
    if mem aid seen then
      (* aid in self *)
      match row with
      | Some r => if r_nodup r then AStop (WRefused 3 1) else ACont seen taw
      | None => ACont seen taw
      end
    else
      match row with
      | Some r =>
          if Z.lor flag' F_EXT =? r_flag r then
            (* Attribute.registered(aid, flag) *)
            if (length =? 0) && negb (r_vzero r) then ACont seen true
            else
              match vdec flag' aid attribute with
              | VOk => ACont (aid :: seen) taw
              | VDiscarded => ACont seen taw
              | VIndexValue =>
                  if r_taw r then ACont seen true
                  else if r_discard r then ACont seen taw
                  else AStop (WPyError K_VALUE)
              | VNotify c s =>
                  if r_taw r then ACont seen true
                  else if r_discard r then ACont seen taw
                  else AStop (WRefused c s)
              | VOther k => AStop (WPyError k)
              end
          else
            (* known attribute, flags are not what the RFC says *)
            ACont seen (taw || r_taw r)
      | None =>
          (* unknown: kept when transitive (GenericAttribute under its own code), ignored otherwise *)
          if bit flag' F_TRANSITIVE then ACont (aid :: seen) taw else ACont seen taw
      end.

  Fixpoint walk_f (fuel : nat) (seen : list Z) (taw : bool) (data : bytes) : wres :=
    match data with
    | [] => stop (WOk seen taw)                       (* if not data: return self *)
    | _ =>
      match hdr data with
      | None => stop (WOk seen true)                  (* IndexError -> TreatAsWithdraw, return self *)
      | Some (flag, aid, length, body) =>
        let n := Z.to_nat length in
        let attribute := firstn n body in                           (* attribute = data[:length] *)
        (* `len(data) < length`, read off the slice (it is shorter than asked exactly then) *)
        if OVERRUN_STOPS && (len attribute <? length) then stop (WOk seen true)
        else
        match fuel with
        | O => stop (WPyError K_FUEL)
        | S k =>
          match act seen taw flag aid length attribute with
          | AStop o => stop o
          | ACont seen' taw' => bump (walk_f k seen' taw' (skipn n body))   (* left = data[length:] *)
          end
        end
      end
    end.

  (* AttributeCollection().parse(data, negotiated) *)
  Definition walk (data : bytes) : wres := walk_f (length data) [] false data.
End Walk.

(* ------------------------------------------------------------------ UPDATE: IPv4 unicast NLRI sections *)

Inductive nres := NOk (count : nat) | NRefused (code sub : Z).
Record nwres := mkN { n_out : nres; n_steps : nat }.

Definition ncons (r : nwres) : nwres :=
  mkN (match n_out r with NOk c => NOk (S c) | x => x end) (S (n_steps r)).

(* the `while withdrawn_bytes:` / `while announced_bytes:` loops over INET.unpack_nlri(ipv4, unicast) *)
Fixpoint nlri_f (fuel : nat) (addpath : bool) (data : bytes) : nwres :=
  match data with
  | [] => mkN (NOk 0) 0
  | _ =>
    match fuel with
    | O => mkN (NRefused 0 0) 0
    | S k =>
      if addpath && (len data <=? 4) then mkN (NRefused 3 10) 1
      else
        match (if addpath then skipn 4 data else data) with
        | [] => mkN (NRefused 3 10) 1
        | mask :: d =>
            if mask >? 32 then mkN (NRefused 3 10) 1
            else if (len d =? 0) && negb (mask =? 0) then mkN (NRefused 3 10) 1
            else
              let size := (mask + 7) / 8 in
              if len d <? size then mkN (NRefused 3 10) 1
              else ncons (nlri_f k addpath (skipn (Z.to_nat size) d))
        end
    end
  end.
Definition nlri_walk (addpath : bool) (data : bytes) : nwres := nlri_f (length data) addpath data.

(* ------------------------------------------------------------------ UPDATE *)

Definition all_zero (b : bytes) : bool := forallb (Z.eqb 0) b.

Section Update.
  Variable vdec : Z -> Z -> bytes -> vres.
  Variable addpath : bool.      (* negotiated.required(ipv4, unicast) *)
  Variable limit : nat.         (* Python stack frames left when parse() is entered *)

  (* Update.unpack_message: Decoded 1 = End-of-RIB fast path, Decoded 2 = parsed UPDATE *)
  Definition dec_update (b : bytes) : outcome :=
    if (len b =? EOR4) && all_zero b then Decoded 1
    else if (len b =? EORP) && list_eqb (firstn (length EOR_PFX) b) EOR_PFX then Decoded 1
    else
      match split b with
      | SRefused c s => Refused c s
      | SOk w a n =>
          let r := walk vdec a in
          if (limit <? w_depth r)%nat then PyError K_RECURSION
          else
            match w_out r with
            | WRefused c s => Refused c s
            | WPyError k => PyError k
            | WOk _ _ =>
                match n_out (nlri_walk addpath w) with
                | NRefused c s => Refused c s
                | NOk _ =>
                    match n_out (nlri_walk addpath n) with
                    | NRefused c s => Refused c s
                    | NOk _ => Decoded 2
                    end
                end
            end
      end.

  (* number of elementary steps of the three walks *)
  Definition update_steps (b : bytes) : nat :=
    match split b with
    | SRefused _ _ => 1
    | SOk w a n => (1 + w_steps (walk vdec a) + n_steps (nlri_walk addpath w) + n_steps (nlri_walk addpath n))%nat
    end.
End Update.

(* the value decoders of the five fixed-size attributes the correspondence check uses (origin.py, med.py,
   localpref.py, atomicaggregate.py, originatorid.py: from_packet); any other registered code is not modelled here *)
Definition vdec_basic (flag aid : Z) (v : bytes) : vres :=
  if aid =? 1 then (match v with [x] => if x >? 2 then VIndexValue else VOk | _ => VIndexValue end)
  else if (aid =? 4) || (aid =? 5) || (aid =? 9) then (if len v =? 4 then VOk else VIndexValue)
  else if aid =? 6 then (match v with [] => VOk | _ => VIndexValue end)
  else VOther K_UNMODELLED.

(* ------------------------------------------------------------------ OPEN *)

(* _key_values / _extended_type_length: (key, value, rest); None = Notify(2, 0) *)
Definition kv1 (d : bytes) : option (Z * bytes * bytes) :=
  match d with
  | k :: l :: rest =>
      if len rest <? l then None else Some (k, firstn (Z.to_nat l) rest, skipn (Z.to_nat l) rest)
  | _ => None
  end.
Definition kv2 (d : bytes) : option (Z * bytes * bytes) :=
  match d with
  | k :: h :: l :: rest =>
      let n := h * 256 + l in
      if len rest <? n then None else Some (k, firstn (Z.to_nat n) rest, skipn (Z.to_nat n) rest)
  | _ => None
  end.

Inductive ores := OOk (caps : list Z) | ORefused (code sub : Z).
Record owres := mkO { o_out : ores; o_steps : nat }.
Definition ocons (c : list Z) (r : owres) : owres :=
  mkO (match o_out r with OOk l => OOk (c ++ l) | x => x end) (S (o_steps r)).
Definition oplus (a r : owres) : owres :=
  match o_out a with
  | ORefused c s => mkO (ORefused c s) (o_steps a)
  | OOk l => mkO (match o_out r with OOk l' => OOk (l ++ l') | x => x end) (S (o_steps a + o_steps r))
  end.

Section Open.
  Variable capv : Z -> bytes -> option (Z * Z).   (* Capability.unpack(code, ..., value): None = accepted *)

  (* the inner `while value:` loop *)
  Fixpoint caps_f (fuel : nat) (v : bytes) : owres :=
    match v with
    | [] => mkO (OOk []) 0
    | _ =>
      match fuel with
      | O => mkO (ORefused 0 0) 0
      | S k =>
        match kv1 v with
        | None => mkO (ORefused 2 0) 1
        | Some (code, cv, rest) =>
          match capv code cv with
          | Some (c, s) => mkO (ORefused c s) 1
          | None => ocons [code] (caps_f k rest)
          end
        end
      end
    end.

  (* the outer `while data:` loop *)
  Fixpoint params_f (ext : bool) (fuel : nat) (d : bytes) : owres :=
    match d with
    | [] => mkO (OOk []) 0
    | _ =>
      match fuel with
      | O => mkO (ORefused 0 0) 0
      | S k =>
        match (if ext then kv2 d else kv1 d) with
        | None => mkO (ORefused 2 0) 1
        | Some (key, v, rest) =>
          if key =? P_AUTH then mkO (ORefused 2 5) 1
          else if key =? P_CAPS then oplus (caps_f (length v) v) (params_f ext k rest)
          else mkO (ORefused 2 UNKNOWN_PARAM_SUB) 1    (* 'Unknow OPEN parameter' *)
        end
      end
    end.

  (* which encoding Capabilities.unpack reads: the RFC 9072 one when the type octet is 255 and four octets are there;
     the length octet must be 255 too (EXT_BY_TYPE_OCTET = false) or merely not zero (true, RFC 9072 2: "ignored") *)
  Definition ext_selected (d : bytes) : bool :=
    (if EXT_BY_TYPE_OCTET then negb (nth 0 d 0 =? 0) else nth 0 d 0 =? EXTENDED_LENGTH)
    && negb (len d <? 4) && (nth 1 d 0 =? EXTENDED_LENGTH).

  (* Capabilities.unpack(data[9:]).  (A length octet 255 with fewer than four octets is refused 2/0 by the base
     branch's truncation test; the older code has a test of its own for it, with the same answer.) *)
  Definition optparams (d : bytes) : owres :=
    match d with
    | [] => mkO (OOk []) 0
    | ol :: t =>
      if ext_selected d then
        let n := rd16 (skipn 2 d) in
        if len d <? n + 4 then mkO (ORefused 2 0) 1
        else let p := firstn (Z.to_nat n) (skipn 4 d) in params_f true (length p) p
      else
        if len d <? ol + 1 then mkO (ORefused 2 0) 1
        else let p := firstn (Z.to_nat ol) t in params_f false (length p) p
    end.

  Definition open_walk (b : bytes) : owres :=
    if len b <? OPEN_MIN then mkO (ORefused 1 2) 1
    else if negb (nth 0 b 0 =? BGP_4) then mkO (ORefused 2 1) 1
    else optparams (skipn (Z.to_nat OPEN_FIXED) b).

  (* Open.unpack_message: Decoded n = an Open with n capability TLVs *)
  Definition dec_open (b : bytes) : outcome :=
    match o_out (open_walk b) with
    | OOk l => Decoded (len l)
    | ORefused c s => Refused c s
    end.
End Open.

(* ------------------------------------------------------------------ NOTIFICATION, KEEPALIVE, ROUTE-REFRESH, OPERATIONAL *)

(* Notification.unpack_message never refuses (RFC 4271 6.5); the tag is how Notification.data reads the body:
   0 = not a shutdown / reset code, 1 = no communication, 2 = empty communication (length octet 0),
   3 = buffer underrun, 4 = too large, 5 = a communication (text, valid UTF-8 or not) *)
Definition dec_notification (b : bytes) : outcome :=
  let p := if len b <? NOTIF_HEADER then [0; 0] else b in
  let code := nth 0 p 0 in
  let sub := nth 1 p 0 in
  let raw := skipn 2 p in
  if negb ((code =? 6) && ((sub =? 2) || (sub =? 4))) then Decoded 0
  else
    match raw with
    | [] => Decoded 1
    | sl :: payload =>
        if sl =? 0 then Decoded 2
        else if len payload <? sl then Decoded 3
        else if sl >? SHUT_MAX then Decoded 4
        else Decoded 5
    end.

(* KeepAlive.unpack_message *)
Definition dec_keepalive (b : bytes) : outcome :=
  match b with [] => Decoded 0 | _ => Refused 1 2 end.

(* RouteRefresh.unpack_message: unpack('!HBB', data) needs exactly 4 octets; Decoded = the subtype *)
Definition dec_refresh (b : bytes) : outcome :=
  if negb (len b =? 4) then Refused 7 1
  else
    let reserved := nth 2 b 0 in
    if (reserved =? 0) || (reserved =? 1) || (reserved =? 2) then Decoded reserved
    else Refused 7 2.

Definition op_category (what : Z) : Z :=
  match find (fun e => fst e =? what) operational_table with Some e => snd e | None => 0 end.

(* Operational.unpack_message on the memoryview the reader delivers: Decoded = the category (0 = UnknownOperational) *)
Definition dec_operational (b : bytes) : outcome :=
  if len b <? 4 then Refused 5 0
  else
    let what := rd16 b in
    let length := rd16 (skipn 2 b) in
    if len b <? length + 4 then Refused 5 0
    else
      let cat := op_category what in
      let needed := if cat =? 1 then 7 else if cat =? 2 then 15 else if cat =? 3 then 19 else 0 in
      if len b <? needed then Refused 5 0
      else if (cat =? 1) && negb ADVISORY_ACCEPTS_BUFFER then PyError K_ATTRIBUTE
      else Decoded cat.

(* ------------------------------------------------------------------ Message.unpack *)

Section Message.
  Variable vdec : Z -> Z -> bytes -> vres.
  Variable capv : Z -> bytes -> option (Z * Z).
  Variable addpath : bool.
  Variable limit : nat.

  Definition dec_message (ty : Z) (b : bytes) : outcome :=
    if ty =? 1 then dec_open capv b
    else if ty =? 2 then dec_update vdec addpath limit b
    else if ty =? 3 then dec_notification b
    else if ty =? 4 then dec_keepalive b
    else if ty =? 5 then dec_refresh b
    else if ty =? 6 then dec_operational b
    else Refused 1 3.

  (* loop iterations / calls of the decoder of a message: what "time proportional to the size" counts in the model *)
  Definition message_steps (ty : Z) (b : bytes) : nat :=
    if ty =? 1 then o_steps (open_walk capv b)
    else if ty =? 2 then update_steps vdec addpath b
    else 1%nat.
End Message.
