(* C18 - value domains of the route text grammar: what the wire format can hold (RFC widths), and the
   big-endian field encoders / decoders.  Independent of the parser: the parser's accept predicates are
   generated from the source into gen/Gen_TextDomains.v and compared with these in Proofs_Text.v.
   No proofs here. *)
From Coq Require Import ZArith Bool List.
Import ListNotations.
Open Scope Z_scope.

(* ---- representable: 0 <= v < 2^w, or an explicit closed range for fields that are not a full bit field *)
Definition fits (w v : Z) : bool := (0 <=? v) && (v <? 2 ^ w).
Definition within (lo hi v : Z) : bool := (lo <=? v) && (v <=? hi).

(* RFC 4271 4.3 / 5.1.4 / 5.1.5: MED and LOCAL_PREF are 4-octet unsigned *)
Definition repr_med := fits 32.
Definition repr_local_preference := fits 32.
(* RFC 7311 3: AIGP metric TLV value is 8 octets *)
Definition repr_aigp := fits 64.
(* RFC 6793: AS numbers are 4 octets (AS_PATH members, AGGREGATOR); asdot halves are 2 octets *)
Definition repr_asn := fits 32.
Definition repr_asn_dotted_part := fits 16.
(* RFC 1997: a community is 4 octets, written high:low with 2-octet halves *)
Definition repr_community_high := fits 16.
Definition repr_community_low := fits 16.
Definition repr_community_number := fits 32.
(* RFC 8092: three 4-octet parts *)
Definition repr_large_community_part := fits 32.
(* RFC 3032 / 8277: label is 20 bits *)
Definition repr_label := fits 20.
(* RFC 7911: path identifier is 4 octets *)
Definition repr_path_information := fits 32.
(* RFC 4271 4.3: attribute flags and type code are one octet each *)
Definition repr_attribute_code := fits 8.
Definition repr_attribute_flag := fits 8.
(* RFC 4761 3.2.2: VE ID, VE block offset, VE block size 2 octets; label base 3 octets holding a 20-bit label *)
Definition repr_vpls_endpoint := fits 16.
Definition repr_vpls_size := fits 16.
Definition repr_vpls_offset := fits 16.
Definition repr_vpls_base := fits 20.
(* RFC 8955 4.2.2 / RFC 8956 3: component value ranges *)
Definition repr_flow_port := fits 16.
Definition repr_flow_packet_length := fits 16.
Definition repr_flow_protocol := fits 8.
Definition repr_flow_next_header := fits 8.
Definition repr_flow_icmp_type := fits 8.
Definition repr_flow_icmp_code := fits 8.
Definition repr_flow_dscp := fits 6.
Definition repr_flow_traffic_class := fits 8.
Definition repr_flow_flow_label := fits 20.
(* RFC 8955 7.5: traffic-marking carries a 6-bit DSCP *)
Definition repr_flow_mark := fits 6.
(* prefix lengths *)
Definition repr_mask_ipv4 := within 0 32.
Definition repr_mask_ipv6 := within 0 128.
Definition repr_flow_mask_ipv4 := within 0 32.
Definition repr_flow_mask_ipv6 := within 0 128.
(* RFC 4364 4.2: type 0 = 2-octet ASN : 4-octet number, type 2 = 4-octet ASN : 2-octet number *)
Definition repr_rd (n s : Z) : bool := (fits 16 n && fits 32 s) || (fits 32 n && fits 16 s).

(* ---- encoders: n octets, network byte order.  Outside the representable range the low octets are kept
   (what `& 0xFF` arithmetic does); python's struct.pack raises there instead - both are "cannot be sent". *)
Fixpoint be (n : nat) (v : Z) : list Z :=
  match n with O => [] | S k => be k (v / 256) ++ [v mod 256] end.
Fixpoint rd_be (l : list Z) (acc : Z) : Z :=
  match l with [] => acc | b :: r => rd_be r (acc * 256 + b) end.
Definition dec_u (l : list Z) : Z := rd_be l 0.

Definition enc_med := be 4.                     Definition dec_med := dec_u.
Definition enc_local_preference := be 4.        Definition dec_local_preference := dec_u.
Definition enc_aigp := be 8.                    Definition dec_aigp := dec_u.
Definition enc_asn := be 4.                     Definition dec_asn := dec_u.
Definition enc_asn_dotted_part := be 2.         Definition dec_asn_dotted_part := dec_u.
Definition enc_community_high := be 2.          Definition dec_community_high := dec_u.
Definition enc_community_low := be 2.           Definition dec_community_low := dec_u.
Definition enc_community_number := be 4.        Definition dec_community_number := dec_u.
Definition enc_large_community_part := be 4.    Definition dec_large_community_part := dec_u.
Definition enc_path_information := be 4.        Definition dec_path_information := dec_u.
Definition enc_attribute_code := be 1.          Definition dec_attribute_code := dec_u.
Definition enc_attribute_flag := be 1.          Definition dec_attribute_flag := dec_u.
Definition enc_vpls_endpoint := be 2.           Definition dec_vpls_endpoint := dec_u.
Definition enc_vpls_size := be 2.               Definition dec_vpls_size := dec_u.
Definition enc_vpls_offset := be 2.             Definition dec_vpls_offset := dec_u.
Definition enc_flow_protocol := be 1.           Definition dec_flow_protocol := dec_u.
Definition enc_flow_next_header := be 1.        Definition dec_flow_next_header := dec_u.
Definition enc_flow_icmp_type := be 1.          Definition dec_flow_icmp_type := dec_u.
Definition enc_flow_icmp_code := be 1.          Definition dec_flow_icmp_code := dec_u.
Definition enc_flow_dscp := be 1.               Definition dec_flow_dscp := dec_u.
Definition enc_flow_traffic_class := be 1.      Definition dec_flow_traffic_class := dec_u.
Definition enc_flow_mark := be 1.               Definition dec_flow_mark := dec_u.
Definition enc_mask_ipv4 := be 1.               Definition dec_mask_ipv4 := dec_u.
Definition enc_mask_ipv6 := be 1.               Definition dec_mask_ipv6 := dec_u.
Definition enc_flow_mask_ipv4 := be 1.          Definition dec_flow_mask_ipv4 := dec_u.
Definition enc_flow_mask_ipv6 := be 1.          Definition dec_flow_mask_ipv6 := dec_u.

(* a label sits in the top 20 bits of 3 octets, bottom-of-stack bit set on the only / last label *)
Definition enc_label (v : Z) : list Z := be 3 (v * 16 + 1).
Definition dec_label (l : list Z) : Z := dec_u l / 16.
Definition enc_vpls_base := enc_label.
Definition dec_vpls_base := dec_label.

(* FlowSpec numeric operands take the shortest of the sizes the component allows *)
Definition enc_flow12 (v : Z) : list Z := if v <? 256 then be 1 v else be 2 v.
Definition enc_flow124 (v : Z) : list Z := if v <? 256 then be 1 v else if v <? 65536 then be 2 v else be 4 v.
Definition enc_flow_port := enc_flow12.          Definition dec_flow_port := dec_u.
Definition enc_flow_packet_length := enc_flow12. Definition dec_flow_packet_length := dec_u.
Definition enc_flow_flow_label := enc_flow124.   Definition dec_flow_flow_label := dec_u.

(* route distinguisher: 2-octet type, then the two numbers *)
Definition enc_rd (n s : Z) : list Z :=
  if n <? 65536 then [0; 0] ++ be 2 n ++ be 4 s else [0; 2] ++ be 4 n ++ be 2 s.
Definition dec_rd (l : list Z) : Z * Z :=
  match l with
  | 0 :: 0 :: a :: b :: r => (dec_u [a; b], dec_u r)
  | 0 :: 2 :: a :: b :: c :: d :: r => (dec_u [a; b; c; d], dec_u r)
  | _ => (-1, -1)
  end.
