(* C15 - executable model of the prefix NLRI classes of ExaBGP:
     INETBase  (bgp/message/update/nlri/inet.py)   unicast / multicast
     LabelBase (bgp/message/update/nlri/label.py)  nlri-mpls   (decoded by INETBase.unpack_nlri)
     IPVPNBase (bgp/message/update/nlri/ipvpn.py)  mpls-vpn    (own decoder, keeps raw label bytes)
     CIDR      (bgp/message/update/nlri/cidr.py), PathInfo / Labels / RouteDistinguisher qualifiers,
     Family.index (protocol/family.py), Route.index (rib/route.py)
   and of the packed-bytes-first classes as (family, bytes).
   Bytes are Z in 0..255, byte strings `list Z`.  No proofs in this file.

   Two generations of index()/__hash__ are modelled:
     index_* / hash_key_*                the REPAIRED code (length-prefixed path-id tag; Label and
                                         IPVPN hash their index) - this is what the harness compares
                                         the implementation with
     index_*_pinned / hash_key_pinned    the code of the pinned tree (defects D14, D15), kept so that
                                         the refutations stay machine-checked. *)
From Coq Require Import ZArith List Bool.
From ExaV Require Import gen.Gen_NlriRegistry.
Import ListNotations.
Open Scope Z_scope.

(* ------------------------------------------------------------------ values *)

(* n_pid:    None = PathInfo.DISABLED (no ADD-PATH bytes stored), Some [a;b;c;d] = stored path-id;
             Some [0;0;0;0] is what the code reads back as the NOPATH singleton
   n_labels: raw 24-bit label words (20-bit label, 3 bits TC, bottom-of-stack bit)
   n_rd:     [] or the 8 route distinguisher bytes
   n_mask:   prefix length in bits (labels and rd NOT included)
   n_pfx:    prefix bytes *)
Record nlri := mkN {
  n_afi : Z; n_safi : Z; n_pid : option (list Z);
  n_labels : list Z; n_rd : list Z; n_mask : Z; n_pfx : list Z }.

Definition is_nil {A} (l : list A) : bool := match l with [] => true | _ => false end.

Fixpoint list_eqb (a b : list Z) : bool :=
  match a, b with
  | [], [] => true
  | x :: a', y :: b' => (x =? y) && list_eqb a' b'
  | _, _ => false
  end.

Definition zlen (l : list Z) : Z := Z.of_nat (length l).

(* ------------------------------------------------------------------ CIDR *)

(* CIDR.size: _mask_to_bytes.get(mask, 0), table filled for 0..128 with ceil(mask/8) *)
Definition csize (mask : Z) : Z :=
  if (0 <=? mask) && (mask <=? 128) then (mask + 7) / 8 else 0.

(* CIDR.pack_ip: self._packed[:CIDR.size(self.mask)] *)
Definition pack_ip (mask : Z) (pfx : list Z) : list Z := firstn (Z.to_nat (csize mask)) pfx.

(* ------------------------------------------------------------------ labels *)

Definition be24 (v : Z) : list Z := [(v / 65536) mod 256; (v / 256) mod 256; v mod 256].
(* unpack('!L', b'\0' + data[:3]) *)
Definition rd24 (d : list Z) : Z := nth 0 d 0 * 65536 + nth 1 d 0 * 256 + nth 2 d 0.

Definition lbl_bytes (ls : list Z) : list Z := flat_map be24 ls.

(* Labels.make_labels([raw >> 4 for raw in ls]): 20-bit values shifted back, bottom-of-stack bit on the last *)
Definition norm_labels (ls : list Z) : list Z :=
  match ls with
  | [] => []
  | _ => map (fun r => (r / 16) * 16) (removelast ls) ++ [(last ls 0 / 16) * 16 + 1]
  end.

(* ------------------------------------------------------------------ encoding *)

(* from_cidr: combined mask byte = label bits + rd bits + prefix bits *)
Definition cmask (n : nlri) : Z := 24 * zlen (n_labels n) + 8 * zlen (n_rd n) + n_mask n.

(* [mask][labels][rd][prefix] *)
Definition body (n : nlri) : list Z :=
  cmask n :: lbl_bytes (n_labels n) ++ n_rd n ++ pack_ip (n_mask n) (n_pfx n).

Definition pid_bytes (p : option (list Z)) : list Z := match p with Some b => b | None => [] end.

(* the stored wire bytes, self._packed *)
Definition packed (n : nlri) : list Z := pid_bytes (n_pid n) ++ body n.

(* pack_nlri(negotiated): `send` = negotiated.addpath.send(afi, safi).  The three classes carry the
   same four-way case split. *)
Definition pack_nlri (send : bool) (n : nlri) : list Z :=
  if send then (match n_pid n with Some b => b | None => [0;0;0;0] end) ++ body n
  else body n.

Definition pack_inet := pack_nlri.
Definition pack_label := pack_nlri.
Definition pack_ipvpn := pack_nlri.

(* ------------------------------------------------------------------ decoding *)

(* the `while mask - rd_mask >= LABEL_SIZE_BITS` loop of INETBase.unpack_nlri / IPVPNBase.unpack_nlri.
   -> None: Notify(3,10); Some (labels, mask, data, ended) *)
Fixpoint labels_loop (fuel : nat) (withdraw : bool) (rdm mask : Z) (data acc : list Z)
  : option (list Z * Z * list Z * bool) :=
  match fuel with
  | O => if 24 <=? mask - rdm then None else Some (acc, mask, data, false)
  | S f =>
    if 24 <=? mask - rdm then
      if (length data <? 3)%nat then None else
      let label := rd24 data in
      let data' := skipn 3 data in
      let mask' := mask - 24 in
      let acc' := acc ++ [label] in
      if Z.odd label then Some (acc', mask', data', true) else
      if (1 <? length acc')%nat then labels_loop f withdraw rdm mask' data' acc' else
      if (label =? 8388608) && withdraw then Some (acc', mask', data', true) else
      if label =? 0 then Some (acc', mask', data', true) else
      labels_loop f withdraw rdm mask' data' acc'
    else Some (acc, mask, data, false)
  end.

(* Everything both decoders do up to building the object.
   -> None = Notify(3,10) | Some (path-id, raw labels, rd, prefix mask, prefix bytes, rest) *)
Definition unpack_core (withdraw addpath : bool) (afi safi : Z) (data : list Z)
  : option (option (list Z) * list Z * list Z * Z * list Z * list Z) :=
  match (if addpath
         then (if (length data <=? 4)%nat then None else Some (Some (firstn 4 data), skipn 4 data))
         else Some (None, data)) with
  | None => None
  | Some (pid, data1) =>
    match data1 with
    | [] => None
    | mask0 :: data2 =>
      let rdsz := rd_size afi safi in
      let rdm := rdsz * 8 in
      match (if safi_has_label safi then labels_loop (length data2) withdraw rdm mask0 data2 []
             else Some ([], mask0, data2, false)) with
      | None => None
      | Some (labels, mask1, data3, ended) =>
        if negb (is_nil labels) && negb ended then None else
        match (if rdsz =? 0 then Some ([], mask1, data3)
               else if zlen data3 <? rdsz then None
                    else Some (firstn (Z.to_nat rdsz) data3, mask1 - rdm, skipn (Z.to_nat rdsz) data3)) with
        | None => None
        | Some (rd, mask, data4) =>
          if mask <? 0 then None else
          if ip_length afi * 8 <? mask then None else
          if is_nil data4 && negb (mask =? 0) then None else
          let size := csize mask in
          if zlen data4 <? size then None else
          Some (pid, labels, rd, mask, firstn (Z.to_nat size) data4, skipn (Z.to_nat size) data4)
        end
      end
    end
  end.

(* INETBase.unpack_nlri: the label stack is rebuilt by Labels.make_labels (normalised) *)
Definition unpack_inet (withdraw addpath : bool) (afi safi : Z) (data : list Z) : option (nlri * list Z) :=
  match unpack_core withdraw addpath afi safi data with
  | None => None
  | Some (pid, ls, rd, mask, pfx, rest) => Some (mkN afi safi pid (norm_labels ls) rd mask pfx, rest)
  end.

(* Label is decoded by the inherited INETBase.unpack_nlri *)
Definition unpack_label := unpack_inet.

(* IPVPNBase.unpack_nlri: raw label bytes are stored as read *)
Definition unpack_ipvpn (withdraw addpath : bool) (afi safi : Z) (data : list Z) : option (nlri * list Z) :=
  match unpack_core withdraw addpath afi safi data with
  | None => None
  | Some (pid, ls, rd, mask, pfx, rest) => Some (mkN afi safi pid ls rd mask pfx, rest)
  end.

(* NLRI.unpack_nlri: dispatch on the regenerated registry; the opaque classes are not modelled here *)
Definition unpack_nlri (withdraw addpath : bool) (afi safi : Z) (data : list Z) : option (nlri * list Z) :=
  match nlri_class afi safi with
  | Some KInet => unpack_inet withdraw addpath afi safi data
  | Some KLabel => unpack_label withdraw addpath afi safi data
  | Some KIpvpn => unpack_ipvpn withdraw addpath afi safi data
  | _ => None
  end.

(* ------------------------------------------------------------------ Family.index / Route.index *)

Definition hexd (d : Z) : Z := if d <? 10 then 48 + d else 87 + d.

(* f'{n:02x}'.encode() for 0 <= n < 65536 *)
Definition hexs (n : Z) : list Z :=
  if n <? 256 then [hexd (n / 16); hexd (n mod 16)]
  else if n <? 4096 then [hexd (n / 256); hexd ((n / 16) mod 16); hexd (n mod 16)]
  else [hexd (n / 4096); hexd ((n / 256) mod 16); hexd ((n / 16) mod 16); hexd (n mod 16)].

Definition fam_index (afi safi : Z) : list Z := hexs afi ++ hexs safi.

(* ------------------------------------------------------------------ index / hash *)

Definition s_disabled : list Z := [100;105;115;97;98;108;101;100].   (* b'disabled' *)
Definition s_nopi : list Z := [110;111;45;112;105].                   (* b'no-pi' *)

(* INETBase.index: the stored path bytes, or b'disabled' *)
Definition tag_inet (p : option (list Z)) : list Z :=
  match p with Some b => b | None => s_disabled end.

(* LabelBase.index / IPVPNBase.index: NOPATH (stored path-id 0.0.0.0) -> b'no-pi', DISABLED -> b'disabled' *)
Definition tag_label (p : option (list Z)) : list Z :=
  match p with
  | None => s_disabled
  | Some b => if list_eqb b [0;0;0;0] then s_nopi else b
  end.

(* repaired: the tag is preceded by its length *)
Definition ltag (t : list Z) : list Z := zlen t :: t.

Definition index_inet (n : nlri) : list Z :=
  fam_index (n_afi n) (n_safi n) ++ ltag (tag_inet (n_pid n)) ++ body n.

Definition index_label (n : nlri) : list Z :=
  fam_index (n_afi n) (n_safi n) ++ ltag (tag_label (n_pid n)) ++ n_mask n :: pack_ip (n_mask n) (n_pfx n).

Definition index_ipvpn (n : nlri) : list Z :=
  fam_index (n_afi n) (n_safi n) ++ ltag (tag_label (n_pid n))
    ++ (8 * zlen (n_rd n) + n_mask n) :: n_rd n ++ pack_ip (n_mask n) (n_pfx n).

(* the pinned tree: no length byte *)
Definition index_inet_pinned (n : nlri) : list Z :=
  fam_index (n_afi n) (n_safi n) ++ tag_inet (n_pid n) ++ body n.

Definition index_label_pinned (n : nlri) : list Z :=
  fam_index (n_afi n) (n_safi n) ++ tag_label (n_pid n) ++ n_mask n :: pack_ip (n_mask n) (n_pfx n).

Definition index_ipvpn_pinned (n : nlri) : list Z :=
  fam_index (n_afi n) (n_safi n) ++ tag_label (n_pid n)
    ++ (8 * zlen (n_rd n) + n_mask n) :: n_rd n ++ pack_ip (n_mask n) (n_pfx n).

Definition index_of (k : nlri_kind) (n : nlri) : list Z :=
  match k with KInet => index_inet n | KLabel => index_label n | KIpvpn => index_ipvpn n
  | KOpaque _ => fam_index (n_afi n) (n_safi n) ++ n_pfx n end.

Definition index_of_pinned (k : nlri_kind) (n : nlri) : list Z :=
  match k with KInet => index_inet_pinned n | KLabel => index_label_pinned n | KIpvpn => index_ipvpn_pinned n
  | KOpaque _ => fam_index (n_afi n) (n_safi n) ++ n_pfx n end.

(* NLRI.__eq__: index equality *)
Definition nlri_eqb (k : nlri_kind) (a b : nlri) : bool := list_eqb (index_of k a) (index_of k b).
Definition nlri_eqb_pinned (k : nlri_kind) (a b : nlri) : bool := list_eqb (index_of_pinned k a) (index_of_pinned k b).

(* __hash__: the byte string handed to Python's hash().
   pinned, all three classes: hash(_packed) if _has_addpath else hash(b'disabled' + _packed) *)
Definition hash_key_pinned (n : nlri) : list Z := tag_inet (n_pid n) ++ body n.

(* repaired: INET unchanged; Label and IPVPN hash what __eq__ compares *)
Definition hash_key (k : nlri_kind) (n : nlri) : list Z :=
  match k with KInet => hash_key_pinned n | _ => index_of k n end.

(* Route.index: b'%02x%02x' % (afi, safi) + nlri.index() *)
Definition route_index (k : nlri_kind) (n : nlri) : list Z :=
  fam_index (n_afi n) (n_safi n) ++ index_of k n.

(* ------------------------------------------------------------------ packed-bytes-first classes *)

(* Flow, VPLS, EVPN, RTC, MUP, MVPN, SR-policy, BGP-LS: index = Family.index + stored bytes *)
Definition opaque_index (afi safi : Z) (bytes : list Z) : list Z := fam_index afi safi ++ bytes.

Definition is_prefix_of (a b : list Z) : bool := list_eqb a (firstn (length a) b).
