(* Model_Cache - the process-wide state that ExaBGP's decoders read and write (C19).

   What is modelled, layer by layer, keyed exactly as the code keys it:

   L1  AttributeCollection.unpack (update/attribute/collection.py:357-377): class attributes
       `previous` (raw attribute block) and `cached` (the AttributeCollection OBJECT decoded from it).
       Hit  <=>  bool(cached) (a MutableMapping: non-empty NOW) and data == previous.
       The pinned key is the raw bytes ONLY; the repaired key adds a projection of the negotiated
       parameters.  Both are one model: the key projection `proj : params -> K` is a parameter
       (K = unit is the pinned code).  On a miss: parse (+ AS_PATH/AS4_PATH merge) = `dec_attrs`;
       an exception leaves the state alone; treat-as-withdraw returns BEFORE the state is written
       (the older entry survives); a collection with MP_REACH/MP_UNREACH clears the entry; anything
       else (also the empty collection) is stored.
   L2  objects: a decoded collection is a heap object {content; memo}.  `_parse_payload` pops
       MP_REACH/MP_UNREACH out of the object it was handed (collection.py:650-651) - also when that
       object is the shared cached one; `json()` memoises its string in `_json` on first use
       (collection.py:334-340).  The API line of a message is rendered right after its decoding.
   L3  Update.unpack_message's second AttributeCollection.unpack for an UPDATE that decoded to nothing
       (update/__init__.py:186-200).
   L4  Capability.klass (open/capability/capability.py:216-220) writes `kls.ID = what` on the CLASS; the
       classes registered under two codes (RouteRefresh 0x02/0x80, MultiSession 0x44/0x83) render
       themselves from `self.ID`, i.e. from the class attribute as it is when the rendering happens.
   L5  Attribute.unpack's per-attribute cache (attribute.py:313-330): enabled iff
       `cls.caching and cls.CACHING`, key (cls.ID, bytes(data)) - neither the attribute code, nor the flag
       nor any negotiated parameter; eviction (util/cache.py) is over-approximated by "the environment
       drops any set of keys before an insertion".  Every call site calls it on the base class
       (CACHING = False), so the layer is dead in the pinned tree; modelled to state exactly that.
   The AS_PATH merge cache of merge_attributes (collection.py:561-568) is read only: `self.add(aspath,
   key)` ignores the key, nothing ever inserts under it, the lookup always misses: it is part of
   `dec_attrs`.

   `dec_attrs`, `nlri_part`, `render`, ... are Section variables standing for the history-free decoders;
   nothing is assumed about them.  No proofs in this file. *)
From Coq Require Import ZArith List Bool.
Import ListNotations.
Open Scope Z_scope.

Definition bytes := list Z.

Fixpoint bytes_eqb (a b : bytes) : bool :=
  match a, b with
  | [], [] => true
  | x :: a', y :: b' => (x =? y) && bytes_eqb a' b'
  | _, _ => false
  end.

(* negotiated parameters: the two that the non-MP attribute decoders read (aspath.py:313 and
   aggregator.py:157 read negotiated.asn4, aigp.py:146 reads negotiated.aigp) and an opaque encoding of
   all the others (families, ADD-PATH per family, extended next hop, ...: read by MP_REACH/MP_UNREACH and
   by the NLRI decoders) *)
Record params := mkP { p_asn4 : bool; p_aigp : bool; p_other : list Z }.

Definition params_eqb (p q : params) : bool :=
  Bool.eqb (p_asn4 p) (p_asn4 q) && Bool.eqb (p_aigp p) (p_aigp q) && bytes_eqb (p_other p) (p_other q).

Definition TAW : Z := 65535.        (* Attribute.CODE.INTERNAL_TREAT_AS_WITHDRAW *)
Definition MP_REACH : Z := 14.
Definition MP_UNREACH : Z := 15.

Inductive kind := KWithdraw | KMp | KPlain | KEmpty.

(* association list with "first binding wins" *)
Definition zget (k : Z) (l : list (Z * Z)) (d : Z) : Z :=
  match find (fun kv => fst kv =? k) l with Some kv => snd kv | None => d end.
Definition zset (k v : Z) (l : list (Z * Z)) : list (Z * Z) := (k, v) :: l.

Fixpoint upd_nth {A} (l : list A) (i : nat) (x : A) : list A :=
  match l, i with
  | [], _ => []
  | _ :: t, O => x :: t
  | h :: t, S j => h :: upd_nth t j x
  end.

Section Model.
  Variables V E S N F K : Type.

  (* L1 key *)
  Variable proj : params -> K.
  Variable keqb : K -> K -> bool.

  (* history-free decoders (no hypotheses) *)
  Variable dec_attrs : params -> bytes -> E + list (Z * V).   (* parse + merge of one attribute block *)
  Variable render : list (Z * V) -> S.                        (* AttributeCollection._generate_json *)
  Variable attr_block : bytes -> option bytes.                (* UpdateCollection.split; None = Notify *)
  Variable nlri_part : params -> bytes -> list (Z * V) -> N.  (* withdrawn / announced / MP NLRI + next hops *)
  Variable is_empty_update : N -> bool.
  Variable dec_other : Z -> bytes -> S.                       (* NOTIFICATION / REFRESH / KEEPALIVE *)
  (* OPEN *)
  Variable open_fixed : bytes -> option F.                    (* None = Notify out of Open.unpack_message *)
  Variable open_caps : bytes -> list (Z * bytes).             (* capability TLVs reached, in order *)
  Variable cap_class : Z -> option Z.                         (* Capability.registered_capability *)
  Variable class_default : Z -> Z.                            (* the ID written in the class body *)
  Variable render_cap : option Z -> Z -> bytes -> S.          (* class ID as read at rendering time, key, value *)

  Definition coll := list (Z * V).

  Definition has (c : Z) (l : coll) : bool := existsb (fun kv => fst kv =? c) l.
  Definition nomp (l : coll) : bool := negb (has MP_REACH l) && negb (has MP_UNREACH l).
  Definition kind_of (l : coll) : kind :=
    if has TAW l then KWithdraw
    else if nomp l then match l with [] => KEmpty | _ => KPlain end
    else KMp.
  Definition pop_mp (l : coll) : coll :=
    filter (fun kv => negb ((fst kv =? MP_REACH) || (fst kv =? MP_UNREACH))) l.
  Definition is_nil (l : coll) : bool := match l with [] => true | _ => false end.

  Record obj := mkObj { content : coll; memo : option S }.

  Record cstate := mkSt {
    heap : list obj;                         (* every AttributeCollection object created so far *)
    last : option (K * bytes * nat);         (* (key part, previous, cached object) *)
    capid : list (Z * Z)                     (* class -> ID as currently written on the class *)
  }.

  Definition init : cstate := mkSt [] None [].

  Definition obj_at (st : cstate) (id : nat) : obj := nth id (heap st) (mkObj [] None).
  Definition content_at (st : cstate) (id : nat) : coll := content (obj_at st id).

  (* ---- L1: AttributeCollection.unpack ---- *)
  Definition hit (st : cstate) (p : params) (a : bytes) : option nat :=
    match last st with
    | Some (k, prev, id) =>
        if negb (is_nil (content_at st id)) && keqb (proj p) k && bytes_eqb a prev then Some id else None
    | None => None
    end.

  Definition unpack (st : cstate) (p : params) (a : bytes) : cstate * (E + nat) :=
    match hit st p a with
    | Some id => (st, inr id)
    | None =>
        match dec_attrs p a with
        | inl e => (st, inl e)
        | inr c =>
            let id := length (heap st) in
            let h' := heap st ++ [mkObj c None] in
            match kind_of c with
            | KWithdraw => (mkSt h' (last st) (capid st), inr id)
            | KMp => (mkSt h' None (capid st), inr id)
            | KPlain | KEmpty => (mkSt h' (Some (proj p, a, id)) (capid st), inr id)
            end
        end
    end.

  (* ---- L2: mutation and memoisation of collection objects ---- *)
  Definition set_content (st : cstate) (id : nat) (c : coll) : cstate :=
    mkSt (upd_nth (heap st) id (mkObj c (memo (obj_at st id)))) (last st) (capid st).

  Definition json (st : cstate) (id : nat) : cstate * S :=
    match memo (obj_at st id) with
    | Some s => (st, s)
    | None =>
        let s := render (content_at st id) in
        (mkSt (upd_nth (heap st) id (mkObj (content_at st id) (Some s))) (last st) (capid st), s)
    end.

  (* what an observer holding a reference sees, whenever it looks *)
  Definition view (st : cstate) (id : nat) : coll * S :=
    (content_at st id, match memo (obj_at st id) with Some s => s | None => render (content_at st id) end).

  Inductive output :=
  | OSplitErr
  | OErr (e : E)
  | OUpd (n : N) (attrs : coll) (js : S) (ref : nat)
  | OEor (n : N) (attrs2 : coll)
  | OOpenErr
  | OOpen (f : F) (caps : list (Z * bytes)) (rendered : list S)
  | OOther (s : S).

  (* the observable part of an output: the object reference is an address, not an observation *)
  Definition obs (o : output) : output :=
    match o with OUpd n a js _ => OUpd n a js O | _ => o end.

  (* ---- L1-L3: one UPDATE, as Update.unpack_message + Response.JSON.update do it ---- *)
  Definition upd_step (st : cstate) (p : params) (body : bytes) : cstate * output :=
    match attr_block body with
    | None => (st, OSplitErr)
    | Some a =>
        let (st1, r) := unpack st p a in
        match r with
        | inl e => (st1, OErr e)
        | inr id =>
            let full := content_at st1 id in
            let n := nlri_part p body full in
            let rest := pop_mp full in
            let st2 := set_content st1 id rest in
            if is_nil rest && is_empty_update n then
              let (st3, r2) := unpack st2 p a in
              match r2 with
              | inl e => (st3, OErr e)
              | inr id2 => (st3, OEor n (content_at st3 id2))
              end
            else
              let (st3, js) := json st2 id in
              (st3, OUpd n rest js id)
        end
    end.

  (* ---- L4: one OPEN ---- *)
  Fixpoint apply_caps (ids : list (Z * Z)) (caps : list (Z * bytes)) : list (Z * Z) :=
    match caps with
    | [] => ids
    | (c, _) :: t =>
        apply_caps (match cap_class c with Some k => zset k c ids | None => ids end) t
    end.

  Definition class_id (ids : list (Z * Z)) (c : Z) : option Z :=
    match cap_class c with Some k => Some (zget k ids (class_default k)) | None => None end.

  Definition render_caps (ids : list (Z * Z)) (caps : list (Z * bytes)) : list S :=
    map (fun cv => render_cap (class_id ids (fst cv)) (fst cv) (snd cv)) caps.

  Definition open_step (st : cstate) (body : bytes) : cstate * output :=
    let caps := open_caps body in
    let st' := mkSt (heap st) (last st) (apply_caps (capid st) caps) in
    match open_fixed body with
    | None => (st', OOpenErr)
    | Some f => (st', OOpen f caps (render_caps (capid st') caps))
    end.

  (* what a holder of an earlier OPEN object sees when it renders it in state st *)
  Definition view_open (st : cstate) (caps : list (Z * bytes)) : list S := render_caps (capid st) caps.

  (* ---- events ---- *)
  Inductive event :=
  | EUpdate (p : params) (body : bytes)
  | EOpen (body : bytes)
  | EOther (ty : Z) (body : bytes)
  | ERender (id : nat).          (* later processing: somebody renders an object it kept *)

  Definition step (st : cstate) (ev : event) : cstate * output :=
    match ev with
    | EUpdate p body => upd_step st p body
    | EOpen body => open_step st body
    | EOther ty body => (st, OOther (dec_other ty body))
    | ERender id =>
        if Nat.ltb id (length (heap st)) then let (st', s) := json st id in (st', OOther s)
        else (st, OOther (render []))
    end.

  Definition dec_stateful := step.

  Fixpoint run_from (st : cstate) (hist : list event) : cstate :=
    match hist with
    | [] => st
    | ev :: t => run_from (fst (step st ev)) t
    end.
  Definition run (hist : list event) : cstate := run_from init hist.

  (* ---- the history-free decoder, written without any state ---- *)
  Definition dec_fresh (ev : event) : output :=
    match ev with
    | EUpdate p body =>
        match attr_block body with
        | None => OSplitErr
        | Some a =>
            match dec_attrs p a with
            | inl e => OErr e
            | inr c =>
                let n := nlri_part p body c in
                let rest := pop_mp c in
                if is_nil rest && is_empty_update n then OEor n c
                else OUpd n rest (render rest) O
            end
        end
    | EOpen body =>
        let caps := open_caps body in
        match open_fixed body with
        | None => OOpenErr
        | Some f => OOpen f caps (render_caps (apply_caps [] caps) caps)
        end
    | EOther ty body => OOther (dec_other ty body)
    | ERender _ => OOther (render [])
    end.

  Definition is_render (ev : event) : bool := match ev with ERender _ => true | _ => false end.
End Model.

(* ------------------------------------------------------------------------------------------------
   L5: Attribute.unpack's per-attribute cache *)
Section AttrCache.
  Variable A : Type.
  Variable dec_attr : params -> Z -> Z -> bytes -> A.     (* klass(code, flag).unpack_attribute(data, negotiated) *)

  Definition akey := (Z * bytes)%type.                     (* (cls.ID, bytes(data)) *)
  Definition akey_eqb (x y : akey) : bool := (fst x =? fst y) && bytes_eqb (snd x) (snd y).
  Definition acache := list (akey * A).

  Definition alookup (k : akey) (c : acache) : option A :=
    match find (fun kv => akey_eqb (fst kv) k) c with Some kv => Some (snd kv) | None => None end.

  (* caching = Attribute.caching (configuration), cls_caching = cls.CACHING, cls_id = cls.ID of the class the
     classmethod is CALLED ON; drop = keys expired by util/cache.py before the insertion (any set) *)
  Definition attr_unpack (caching cls_caching : bool) (cls_id : Z) (drop : akey -> bool)
             (c : acache) (p : params) (code flag : Z) (data : bytes) : acache * A :=
    if caching && cls_caching then
      match alookup (cls_id, data) c with
      | Some v => (c, v)
      | None =>
          let v := dec_attr p code flag data in
          (((cls_id, data), v) :: filter (fun kv => negb (drop (fst kv))) c, v)
      end
    else (c, dec_attr p code flag data).
End AttrCache.

(* ------------------------------------------------------------------------------------------------
   Executable instance used by the correspondence (harness/c19.py): the history-free decoders are
   TABLES measured on the real implementation in fresh interpreters; the model then predicts what the
   long-running process returns for every message of a sequence.
     attribute block a under session s  |->  table entry ((s, a), result)
   sessions are numbered; p_other = [s]; values are numbered renderings. *)
Definition tkey := (Z * bytes)%type.
Definition tkey_eqb (x y : tkey) : bool := (fst x =? fst y) && bytes_eqb (snd x) (snd y).
Definition table := list (tkey * (Z + list (Z * Z))).

Definition sess_of (p : params) : Z := match p_other p with s :: _ => s | [] => 0 end.

Definition tdec (t : table) (p : params) (a : bytes) : Z + list (Z * Z) :=
  match find (fun kv => tkey_eqb (fst kv) (sess_of p, a)) t with
  | Some kv => snd kv
  | None => inl (-1)
  end.

(* pinned key: nothing but the bytes *)
Definition proj_pinned (p : params) : unit := tt.
Definition keqb_unit (x y : unit) : bool := true.
(* repaired key: (asn4, aigp) *)
Definition proj_fix (p : params) : bool * bool := (p_asn4 p, p_aigp p).
Definition keqb_bb (x y : bool * bool) : bool := Bool.eqb (fst x) (fst y) && Bool.eqb (snd x) (snd y).

Section Exec.
  Variable K : Type.
  Variable proj : params -> K.
  Variable keqb : K -> K -> bool.
  Variable t : table.

  (* an UPDATE event of the correspondence is (session parameters, flag :: attribute block); flag = 1 when the
     (stateless) NLRI part of that message holds no announce and no withdraw, as measured on a fresh decode.
     The NLRI part also carries the collection exactly as AttributeCollection.unpack handed it out (before
     _parse_payload pops the MP attributes): a shared object that lost an attribute earlier shows here *)
  Definition xstep := step Z Z (list (Z * Z)) (bool * list (Z * Z)) unit K proj keqb (tdec t) (fun c => c) (fun b => Some (tl b))
                           (fun _ b full => (match b with 1 :: _ => true | _ => false end, full)) (fun n => fst n) (fun _ _ => [])
                           (fun _ => Some tt) (fun _ => []) (fun _ => None) (fun k => k) (fun _ _ _ => []).

  Definition xflat (a : list (Z * Z)) : list Z := flat_map (fun kv => [fst kv; snd kv]) a.

  (* per message: -1 - e for an exception e out of the attribute parser; else the (code, value id) pairs of the
     collection as handed out, then -7 and the pairs left in the message's collection, or (UPDATE that decoded to
     nothing) -3 and the content of the second unpack *)
  Definition xobs (o : output Z Z (list (Z * Z)) (bool * list (Z * Z)) unit) : list Z :=
    match o with
    | OErr _ _ _ _ _ e => [-1 - e]
    | OUpd _ _ _ _ _ n a _ _ => xflat (snd n) ++ -7 :: xflat a
    | OEor _ _ _ _ _ n a => xflat (snd n) ++ -3 :: xflat a
    | _ => [-2]
    end.

  Fixpoint xrun (st : cstate Z (list (Z * Z)) K) (evs : list (params * bytes)) : list (list Z) :=
    match evs with
    | [] => []
    | (p, a) :: rest =>
        let (st', o) := xstep st (EUpdate p a) in
        xobs o :: xrun st' rest
    end.

  Definition xtrace (evs : list (params * bytes)) : list (list Z) :=
    xrun (init Z (list (Z * Z)) K) evs.
End Exec.

Definition trace_pinned := xtrace unit proj_pinned keqb_unit.
Definition trace_fixed := xtrace (bool * bool) proj_fix keqb_bb.
