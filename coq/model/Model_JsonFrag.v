(* C13 - exact models of the json() bodies of the simplest and most common classes, as functions of their decoded
   values: the INET NLRI (nlri/inet.py:362, qualifier/path.py:69) and, through AttributeCollection._generate_json
   (collection.py:164), ORIGIN, NEXT_HOP, MED, LOCAL_PREF, ATOMIC_AGGREGATE, AGGREGATOR, COMMUNITY
   (community/initial/communities.py:124, community.py:147), ORIGINATOR_ID and CLUSTER_LIST (clusterlist.py:114).
   Texts printed by the classes (origin word, "asn:speaker", addresses) go through json.dumps = json_string; the
   prefix, the path-information and the cluster ids are interpolated verbatim by the code. *)

From Coq Require Import ZArith List Bool.
From ExaV Require Import model.Model_Json model.Model_JsonEvent.
Import ListNotations.
Open Scope Z_scope.

Definition k_nlri : list Z := [110; 108; 114; 105].
Definition k_path_information : list Z := [112; 97; 116; 104; 45; 105; 110; 102; 111; 114; 109; 97; 116; 105; 111; 110].

(* INET.json(compact): prefix = cidr.prefix(); pathinfo = None when ADD-PATH is off, else the dotted identifier *)
Definition inet_json (prefix : list Z) (pathinfo : option (list Z)) (compact : bool) : list Z :=
  match pathinfo with
  | Some pi => obj_of_members [kv_pair k_nlri (quoted prefix); kv_pair k_path_information (quoted pi)]
  | None => if compact then quoted prefix else obj_of_members [kv_pair k_nlri (quoted prefix)]
  end.

Inductive attrv :=
| AOrigin (word : list Z)                 (* str(Origin): igp / egp / incomplete *)
| ANextHop (ip : list Z)                  (* only with include_nexthop *)
| AMed (n : Z)
| ALocalPref (n : Z)
| AAtomic
| AAggregator (text : list Z)             (* str(Aggregator) = "asn:speaker" *)
| ACommunity (cs : list (Z * Z))
| AOriginator (ip : list Z)
| AClusterList (ids : list (list Z)).

Definition attr_code (a : attrv) : Z :=
  match a with
  | AOrigin _ => 1 | ANextHop _ => 3 | AMed _ => 4 | ALocalPref _ => 5 | AAtomic => 6
  | AAggregator _ => 7 | ACommunity _ => 8 | AOriginator _ => 9 | AClusterList _ => 10
  end.

Definition attr_name (a : attrv) : list Z :=
  match a with
  | AOrigin _ => [111;114;105;103;105;110]
  | ANextHop _ => [110;101;120;116;45;104;111;112]
  | AMed _ => [109;101;100]
  | ALocalPref _ => [108;111;99;97;108;45;112;114;101;102;101;114;101;110;99;101]
  | AAtomic => [97;116;111;109;105;99;45;97;103;103;114;101;103;97;116;101]
  | AAggregator _ => [97;103;103;114;101;103;97;116;111;114]
  | ACommunity _ => [99;111;109;109;117;110;105;116;121]
  | AOriginator _ => [111;114;105;103;105;110;97;116;111;114;45;105;100]
  | AClusterList _ => [99;108;117;115;116;101;114;45;108;105;115;116]
  end.

Definition attr_value (a : attrv) : list Z :=
  match a with
  | AOrigin w => json_string w
  | ANextHop ip => json_string ip
  | AMed n => json_int n
  | ALocalPref n => json_int n
  | AAtomic => json_bool true
  | AAggregator t => json_string t
  | ACommunity cs => arr_of (map (fun c => arr_of [json_int (fst c); json_int (snd c)]) cs)
  | AOriginator ip => json_string ip
  | AClusterList ids => arr_of (map quoted ids)
  end.

Definition attr_member (a : attrv) : list Z := kv_pair (attr_name a) (attr_value a).

(* ', '.join(_generate_json()) over sorted(keys()) *)
Definition attr_content (l : list attrv) : list Z := members_join (map attr_member l).

Definition attr_representatives : list attrv :=
  [AOrigin []; ANextHop []; AMed 0; ALocalPref 0; AAtomic; AAggregator []; ACommunity []; AOriginator []; AClusterList []].
