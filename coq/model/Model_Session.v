(* Model_Session - finite control model of one ExaBGP peer session (reactor/peer/peer.py run/_run/
   _establish/_connect/_main/_read_message_or_nop/_cancel_read/_reset/_close/_stop/stop/remove/teardown/
   reestablish/reconfigure/handle_connection/_abandon_run, reactor/protocol.py connect/accept/read_open/
   read_keepalive/read_message and the new_.. senders), as the code is now.

   One step = everything the implementation does because of ONE stimulus; the harness logs the stimulus
   at the moment it takes effect (octets of a message taken by the reader, connect resolved, a timer
   firing, handle_connection/teardown/reload called, _run entered, and the places of the main loop where
   it looks at what was requested: send phase with something to send (Tick), adoption of a reloaded
   neighbor at the top of an iteration (Handover), the pause that ends an iteration while a teardown is
   requested (LoopPause), the loop left for a teardown (LoopExit)).

   Control points (where the peer task is suspended):
     W   between two attempts (run(): back-off / 100 ms pause)          CN  in _connect, awaiting the TCP connect
     RO  in _read_open (OPEN sent)   RK  in _read_ka (hold timer running) M0  _main entered, first loop iteration pending
     MN  main loop, nothing queued   MR  main loop, routes queued (ROUTE-REFRESH received / reloaded neighbor adopted)
     MP  main loop, in the 1 ms pause that ends an iteration, teardown requested: the loop will leave without
         looking at the read again                                       ST  run() returned
   own: what peer.proto is, relative to the transport the suspended coroutine uses:
     ONone  peer.proto is None;  OSame  the coroutine's transport;  ONew  an accepted transport that no
     attempt uses yet (handle_connection accepted it; it also cancels the attempt in progress, so ONew only
     occurs at W and ST; in RO/RK own = ONone happens after remove/shutdown: the coroutine then waits on a
     transport that was closed locally, whose read never completes, until its timer fires).
   pend: the read in progress (in _main the task kept by _read_message_or_nop across its 100 ms timeouts):
     PNone nothing taken from the transport; PPartial part of a message taken; PDone a complete result the loop
     has not looked at (only in MP); PLost the reader found the connection gone and closed it, unseen (MP).
   tdc: the pending teardown code (Peer._teardown, 0 = none); rs: Peer._restart; rq: a ROUTE-REFRESH is
   queued for sending; pb: Processes.up raises ProcessError; ho: a reloaded neighbor waits to be adopted
   (Peer._neighbor set by reconfigure() on an established session).

   Not modelled (stated in the evidence): graceful-restart teardown (closes without NOTIFICATION by
   design), tcp.attempts > 0, bgp.passive, neighbors without local-as (OPEN mirrored after reading),
   ephemeral peers, write errors. *)
From Coq Require Import ZArith List Bool.
From ExaV Require Import gen.Gen_Fsm spec.Spec_Fsm.
Import ListNotations.
Open Scope Z_scope.

Inductive cpoint := W | CN | RO | RK | M0 | MN | MR | MP | ST.
Inductive owner := ONone | OSame | ONew.
Inductive pread := PNone | PPartial | PDone | PLost.

Record sstate := {
  cp : cpoint; fsm : fstate; own : owner; pend : pread; tdc : Z; rs : bool; rq : bool; pb : bool; ho : bool
}.

Definition init : sstate :=
  {| cp := W; fsm := Idle; own := ONone; pend := PNone; tdc := 0; rs := true; rq := false; pb := false; ho := false |}.

Definition with_cp (s : sstate) (c : cpoint) : sstate :=
  {| cp := c; fsm := fsm s; own := own s; pend := pend s; tdc := tdc s; rs := rs s; rq := rq s; pb := pb s; ho := ho s |}.
Definition with_fsm (s : sstate) (f : fstate) : sstate :=
  {| cp := cp s; fsm := f; own := own s; pend := pend s; tdc := tdc s; rs := rs s; rq := rq s; pb := pb s; ho := ho s |}.
Definition with_own (s : sstate) (o : owner) : sstate :=
  {| cp := cp s; fsm := fsm s; own := o; pend := pend s; tdc := tdc s; rs := rs s; rq := rq s; pb := pb s; ho := ho s |}.
Definition with_pend (s : sstate) (p : pread) : sstate :=
  {| cp := cp s; fsm := fsm s; own := own s; pend := p; tdc := tdc s; rs := rs s; rq := rq s; pb := pb s; ho := ho s |}.
Definition with_tdc (s : sstate) (t : Z) : sstate :=
  {| cp := cp s; fsm := fsm s; own := own s; pend := pend s; tdc := t; rs := rs s; rq := rq s; pb := pb s; ho := ho s |}.
Definition with_rs (s : sstate) (b : bool) : sstate :=
  {| cp := cp s; fsm := fsm s; own := own s; pend := pend s; tdc := tdc s; rs := b; rq := rq s; pb := pb s; ho := ho s |}.
Definition with_rq (s : sstate) (b : bool) : sstate :=
  {| cp := cp s; fsm := fsm s; own := own s; pend := pend s; tdc := tdc s; rs := rs s; rq := b; pb := pb s; ho := ho s |}.
Definition with_pb (s : sstate) (b : bool) : sstate :=
  {| cp := cp s; fsm := fsm s; own := own s; pend := pend s; tdc := tdc s; rs := rs s; rq := rq s; pb := b; ho := ho s |}.
Definition with_ho (s : sstate) (b : bool) : sstate :=
  {| cp := cp s; fsm := fsm s; own := own s; pend := pend s; tdc := tdc s; rs := rs s; rq := rq s; pb := pb s; ho := b |}.

Definition has_proto (s : sstate) : bool := match own s with ONone => false | _ => true end.
Definition is_same (s : sstate) : bool := match own s with OSame => true | _ => false end.
Definition in_main (s : sstate) : bool := match cp s with M0 | MN | MR | MP => true | _ => false end.
Definition is_lost (s : sstate) : bool := match pend s with PLost => true | _ => false end.

(* Peer._close: down (unless IDLE/ACTIVE), fsm.change(IDLE), proto.close() when there is a proto;
   `closed`: the reader already closed the connection (EOF, socket error), proto.close() finds nothing *)
Definition close_acts (s : sstate) (closed : bool) : list action :=
  (if connected (fsm s) then [ApiDown] else []) ++ [Fsm (fsm s) Idle]
  ++ (if has_proto s && negb closed then [CloseTransport] else []).
(* ... whatever the read had taken from that transport goes with it *)
Definition after_close (s : sstate) : sstate := with_pend (with_own (with_fsm s Idle) ONone) PNone.

(* Peer._reset, then what run() does next: another attempt (W) or return (ST); restarting: _teardown := None,
   neighbor.reset_rib() (which also empties the queue of ROUTE-REFRESH to send), a reloaded neighbor is adopted *)
Definition reset (s : sstate) (closed : bool) : sstate * list action :=
  let s1 := after_close s in
  (if rs s then with_ho (with_rq (with_tdc (with_cp s1 W) 0) false) false else with_cp s1 ST, close_acts s closed).

(* Peer._run, `except Notify`: written on whatever peer.proto is NOW, then _reset *)
Definition notify (s : sstate) (c n : Z) : sstate * list action :=
  let r := reset s false in
  if has_proto s then (fst r, Write (WNotification c n) :: snd r) else r.
Definition notify_p (s : sstate) (p : Z * Z) := notify s (fst p) (snd p).

(* Peer._run, `except NetworkError` after the reader closed the connection itself *)
Definition lost (s : sstate) : sstate * list action :=
  let r := reset s true in (fst r, CloseTransport :: snd r).

(* the beginning of Peer._main, after fsm.change(ESTABLISHED) *)
Definition enter_main (s : sstate) : sstate * list action :=
  let s1 := with_fsm s Established in
  let pre := [Fsm (fsm s) Established] in
  if negb (tdc s =? 0) then let r := notify_p s1 main_teardown_notify in (fst r, pre ++ snd r)
  else if pb s then let r := notify_p s1 process_up_notify in (fst r, pre ++ snd r)
  else (with_cp s1 M0, pre ++ [ApiUp]).

(* the connection is there: CONNECT, OPEN, OPENSENT, then _read_open *)
Definition send_open (s : sstate) : sstate * list action :=
  (with_cp (with_own (with_fsm s OpenSent) OSame) RO, [Fsm (fsm s) Connect; Write WOpen; Fsm Connect OpenSent]).

Definition wrong_type (s : sstate) : sstate * list action :=
  match cp s with
  | RO => notify_p s read_open_other_notify
  | _ => notify_p s read_keepalive_other_notify
  end.

(* a complete message was taken from the transport *)
Definition recv (s0 : sstate) (k : rkind) : sstate * list action :=
  if negb (is_same s0) || is_lost s0 then (s0, []) else
  let s := with_pend s0 PNone in
  match cp s with
  | RO | RK =>
    match k with
    | HeaderErr x => notify s 1 x
    | UnknownType => notify s 1 3
    | OpenBad x => notify s 2 x
    | UpdateBad x => notify s 3 x
    | RefreshBad x => notify s 7 x
    | Notification => reset s false
    | OpenOk =>
        match cp s with
        | RO => (with_cp (with_fsm s OpenConfirm) RK, [Fsm (fsm s) OpenConfirm; Write WKeepalive])
        | _ => wrong_type s
        end
    | Keepalive =>
        match cp s with
        | RK => enter_main s
        | _ => wrong_type s
        end
    | UpdateOk | Refresh | Operational => wrong_type s
    end
  | M0 | MN | MR =>
    match k with
    | HeaderErr x => notify s 1 x
    | UnknownType => notify s 1 3
    | OpenBad x => notify s 2 x
    | UpdateBad x => notify s 3 x
    | RefreshBad x => notify s 7 x
    | Notification => reset s false
    | Refresh => (match cp s with MN => with_cp s MR | _ => s end, [])
    | OpenOk | Keepalive | UpdateOk | Operational => (s, [])
    end
  | MP => (with_pend s0 PDone, [])   (* the read task completes, nobody looks at its result *)
  | _ => (s0, [])
  end.

(* Peer.handle_connection: refused in ESTABLISHED and (lower remote id) in OPENCONFIRM; otherwise the
   session transport, if any, is closed, the connection is accepted, and the attempt in progress
   (Peer._run_task) is cancelled: run() starts over (or returns when it must not restart) *)
Definition incoming (s : sstate) (rid_ge : bool) : sstate * list action :=
  match fsm s with
  | Established => (s, [])
  | _ =>
    if fstate_eqb (fsm s) OpenConfirm && negb rid_ge then (s, [])
    else
      let c := match cp s with CN | RO | RK | MP => if rs s then W else ST | c => c end in
      if has_proto s then (with_cp (with_own (after_close s) ONew) c, close_acts s false ++ [ApiConnected])
      else (with_cp (with_own s ONew) c, [ApiConnected])
  end.

(* Peer.remove / Peer.shutdown: _stop (close without NOTIFICATION), stop() *)
Definition remove (s : sstate) : sstate * list action :=
  let a1 := if has_proto s then close_acts s false else [] in
  let s1 := with_rs (with_tdc (after_close s) 3) false in
  let a2 := [Fsm Idle Idle] in
  match cp s with
  | M0 | MN | MR => (with_cp s1 MP, a1 ++ a2)   (* the loop leaves at its next step (LoopExit): it finds no proto, _reset() *)
  | W | ST => (s1, a1 ++ a2)                     (* W: run() returns at its next look at _restart - unless a teardown sets it again first *)
  | _ => (s1, a1 ++ a2)                          (* CN RO RK MP: the coroutine goes on until it notices *)
  end.

Definition session_step (s : sstate) (e : event) : sstate * list action :=
  match e with
  | Tick =>
    match cp s with
    | W =>
      if negb (rs s) then (with_cp s ST, []) else
      let pre := [Fsm (fsm s) Active; Fsm Active Idle] in
      let s1 := with_fsm s Idle in
      if has_proto s then let r := send_open s1 in (fst r, pre ++ snd r)
      else (with_cp s1 CN, pre)
    | M0 | MN | MR =>
      (* the send phase of an iteration: queued ROUTE-REFRESH, queued routes, End-of-RIB after the first batch *)
      let w := (if rq s then [Write WRefresh] else [])
               ++ match cp s with M0 => [Write WUpdate; Write WEor] | MR => [Write WUpdate] | _ => [] end in
      (with_rq (with_cp s MN) false, w)
    | _ => (s, [])
    end
  | ConnectOk =>
    match cp s with
    | CN =>
      let pre := ApiConnected :: (match own s with ONew => [CloseOrphan] | _ => [] end) in
      let r := send_open s in (fst r, pre ++ snd r)
    | _ => (s, [])
    end
  | ConnectFail =>
    match cp s with
    | CN =>
      let a1 := if has_proto s then close_acts s false else [] in
      let r := reset (after_close s) false in (fst r, a1 ++ snd r)
    | _ => (s, [])
    end
  | Incoming b => incoming s b
  | Recv k => recv s k
  | RecvPart =>
    if is_same s && match cp s with RO | RK | M0 | MN | MR | MP => true | _ => false end && negb (is_lost s)
    then (with_pend s PPartial, []) else (s, [])
  | Eof | SockErr =>
    if is_same s && negb (is_lost s) then
      match cp s with
      | RO | RK | M0 | MN | MR => lost s
      | MP => (with_pend s PLost, [CloseTransport])   (* the reader closes; the loop does not look *)
      | _ => (s, [])
      end
    else (s, [])
  | HoldExpire =>
    match cp s with
    | M0 | MN | MR => if is_same s then notify_p s establish_timer_notify else (s, [])
    | RK => notify_p s read_ka_timeout_notify
    | _ => (s, [])
    end
  | OpenWaitExpire => match cp s with RO => notify_p s openwait_notify | _ => (s, []) end
  | Teardown c => (with_tdc (with_rs s true) c, [])            (* Peer.teardown: noticed by the loop later *)
  | Reload Changed => (with_tdc (with_rs s true) 3, [])        (* Peer.reestablish *)
  | Reload Same =>
    (* Peer.reconfigure on an established session: the session is kept, the new routes of the accepted file are
       queued at once, the old ones are withdrawn when the loop adopts the neighbor (Handover);
       the Neighbor object is replaced in every state: a ROUTE-REFRESH queued on the old one is forgotten) *)
    let s := with_rq s false in
    if in_main s && is_same s then (with_ho (match cp s with MN => with_cp s MR | _ => s end) true, []) else (s, [])
  | Reload Removed => remove s
  | Handover =>
    if ho s && match cp s with M0 | MN | MR => true | _ => false end
    then (with_ho (match cp s with MN => with_cp s MR | _ => s end) false, []) else (s, [])
  | LoopPause =>
    match cp s with
    | MN => if negb (tdc s =? 0) && is_same s then (with_cp s MP, []) else (s, [])
    | _ => (s, [])
    end
  | LoopExit =>
    if in_main s && negb (tdc s =? 0) then
      if is_lost s then reset s true          (* the NOTIFICATION finds the connection closed: nothing is written *)
      else notify s 6 (tdc s)
    else (s, [])
  | ApiRefresh => (with_rq s true, [])
  | ProcessBroken => (with_pb s true, [])
  end.

Fixpoint run (s : sstate) (es : list event) : trace :=
  match es with
  | [] => []
  | e :: r => let x := session_step s e in (e, snd x) :: run (fst x) r
  end.

Fixpoint final (s : sstate) (es : list event) : sstate :=
  match es with [] => s | e :: r => final (fst (session_step s e)) r end.

(* the bounded alphabet of the theorems: subcodes of RFC 4271 s6 / RFC 4486 / RFC 7313 *)
Definition subcodes (n : nat) : list Z := map Z.of_nat (seq 0 (S n)).
Definition rkinds : list rkind :=
  [OpenOk; Keepalive; UpdateOk; Notification; Refresh; Operational; UnknownType]
  ++ map OpenBad (subcodes 11) ++ map UpdateBad (subcodes 11) ++ map RefreshBad (subcodes 2) ++ map HeaderErr (subcodes 3).
Definition alphabet : list event :=
  [Tick; ConnectOk; ConnectFail; Incoming true; Incoming false; Eof; SockErr; HoldExpire; OpenWaitExpire;
   Reload Same; Reload Changed; Reload Removed; ApiRefresh; ProcessBroken; RecvPart; Handover; LoopPause; LoopExit]
  ++ map Recv rkinds ++ map Teardown (map Z.of_nat (seq 1 10)).
