(* C02 / C08 - executable model of ExaBGP's UPDATE decoder:
     Update.unpack_message                      bgp/message/update/__init__.py
     UpdateCollection.split / _parse_payload    bgp/message/update/collection.py
     AttributeCollection.unpack / parse / add / merge_attributes
                                                bgp/message/update/attribute/collection.py
     Attribute.registered / klass_by_id         bgp/message/update/attribute/attribute.py  (table: Gen_AttrTable, T5)
     the value decoders of ORIGIN, AS_PATH, NEXT_HOP, MED, LOCAL_PREF, ATOMIC_AGGREGATE, AGGREGATOR,
     COMMUNITY, ORIGINATOR_ID, CLUSTER_LIST, MP_REACH_NLRI, MP_UNREACH_NLRI, EXTENDED_COMMUNITY (v4, v6),
     AS4_PATH, AS4_AGGREGATOR, LARGE_COMMUNITY; MPRNLRI.iter_routed / MPURNLRI.__iter__
     the prefix NLRI decoders come from Model_Nlri (C15)
     Protocol.read_message's treatment of the decoded message (INTERNAL_DISCARD) and
     UpdateHandler + Cache.update_cache / update_cache_withdraw (Adj-RIB-In)
   Bytes are Z in 0..255, byte strings `list Z`.  No proofs in this file.

   `fixed : bool` selects the generation of the code:
     false  the pinned tree (defects D4, D5 and their siblings), kept so that the refutations stay
            machine checked:   dec_update_pinned
     true   the tree with the proposed repairs applied:   dec_update
            R1 an attribute running past the end of the attribute block -> treat-as-withdraw
            R2 treat-as-withdraw moves every announced route of the UPDATE to the withdrawn routes
            R3 AS_PATH / AS4_PATH merged per RFC 6793 4.2.3, packed with 4-byte AS numbers
            R4 wrong Optional/Transitive bits on a known attribute whose class carries no decision
               (COMMUNITY, EXTENDED_COMMUNITY, ...) -> treat-as-withdraw instead of a silent drop
            R5 NEXT_HOP attribute length must be 4
               (an AS path segment of length zero is still accepted by both generations: the pinned test
                tests/fuzz/test_update_integration.py::test_update_empty_as_path_allowed writes an empty AS_PATH
                as `02 00`; RFC 7606 7.2 calls it malformed - known finding, C08_rfc7606_refuted)
            R6 read_message no longer drops a whole UPDATE that carries INTERNAL_DISCARD
   The value decoders of PMSI, TUNNEL_ENCAP, AIGP, BGP-LS and PREFIX_SID are abstracted: `opq code value`
   is their outcome (supplied by the harness from the real decoder, universally quantified in theorems). *)
From Coq Require Import ZArith List Bool.
From ExaV Require Import gen.Gen_AttrTable gen.Gen_NlriRegistry model.Model_Nlri.
Import ListNotations.
Open Scope Z_scope.

(* ------------------------------------------------------------------ session *)

(* s_asn4: negotiated.asn4; s_fams: negotiated.families; s_addpath: families with addpath.receive
   (direction IN); s_extnh: the <AFI, SAFI> of negotiated.nexthop (RFC 8950, next hop AFI ipv6).  Gen_AttrTable.EXTNH_PER_FAMILY (probed by T5) tells
   which of the two next hop length rules the tree under check applies. *)
Record sess := mkS { s_asn4 : bool; s_fams : list (Z * Z); s_addpath : list (Z * Z); s_extnh : list (Z * Z) }.

Definition fam_in (l : list (Z * Z)) (afi safi : Z) : bool :=
  existsb (fun p => (fst p =? afi) && (snd p =? safi)) l.

(* ------------------------------------------------------------------ flag bits (bytes 0..255) *)

Definition hasbit (f m : Z) : bool := (f / m) mod 2 =? 1.          (* f & m, m a power of two *)
Definition setbit (f m : Z) : Z := if hasbit f m then f else f + m.   (* f | m *)
Definition clrbit (f m : Z) : Z := if hasbit f m then f - m else f.   (* f & ~m & 0xFF *)

(* ------------------------------------------------------------------ attribute values and the collection *)

(* VBytes: the stored _packed; VPath: an ASPath object (its _asn4 and the segments its .aspath gives) *)
Inductive aval := VBytes (b : list Z) | VPath (asn4 : bool) (segs : list (Z * list Z)).
Record attr := mkA { a_code : Z; a_flag : Z; a_val : aval }.

(* AttributeCollection._data: insertion ordered, one entry per code *)
Definition amap := list attr.
Definition ahas (m : amap) (c : Z) : bool := existsb (fun a => a_code a =? c) m.
Definition aget (m : amap) (c : Z) : option attr := find (fun a => a_code a =? c) m.
Definition aremove (m : amap) (c : Z) : amap := filter (fun a => negb (a_code a =? c)) m.
(* AttributeCollection.add: a code already present is kept (the EXTENDED_COMMUNITY merge branch is
   never reached from parse, which skips duplicates before decoding) *)
Definition aadd (m : amap) (a : attr) : amap := if ahas m (a_code a) then m else m ++ [a].

(* TreatAsWithdraw(aid) / Discard(aid): the value records `aid` ([] = None) *)
Definition pseudo (code : Z) (aid : option Z) : attr :=
  mkA code 0 (VBytes (match aid with Some a => [a] | None => [] end)).
Definition taw (aid : option Z) : attr := pseudo CODE_TREAT_AS_WITHDRAW aid.
Definition discard (aid : option Z) : attr := pseudo CODE_DISCARD aid.

(* ------------------------------------------------------------------ value decoders *)

Inductive vres :=
| VOk (v : aval)
| VPseudoDiscard          (* the decoder returned a Discard(ID) object (AIGP on a session without aigp) *)
| VValueError             (* ValueError / IndexError *)
| VNotify (c sc : Z)
| VOther.                 (* any other exception: leaves Update.unpack_message untyped *)

Fixpoint be_val (d : list Z) (acc : Z) : Z :=
  match d with [] => acc | x :: r => be_val r (acc * 256 + x) end.

(* slen ASNs of `w` bytes: unpack(unpacker, sdata[:w]) in a loop; None = struct.error *)
Fixpoint read_asns (n : nat) (w : nat) (d : list Z) : option (list Z) :=
  match n with
  | O => Some []
  | S k => if (length d <? w)%nat then None else
           match read_asns k w (skipn w d) with
           | None => None
           | Some t => Some (be_val (firstn w d) 0 :: t)
           end
  end.

Definition seg_type_ok (t : Z) : bool :=
  (t =? SEG_SET) || (t =? SEG_SEQUENCE) || (t =? SEG_CONFED_SEQUENCE) || (t =? SEG_CONFED_SET).

(* ASPath._unpack_segments_static; None = Notify(3,11).  `fixed` is not consulted: a segment of length
   zero is accepted by both generations *)
Fixpoint parse_segs (fuel : nat) (fixed asn4 : bool) (d : list Z) : option (list (Z * list Z)) :=
  match d with
  | [] => Some []
  | _ =>
    match fuel with
    | O => None
    | S f =>
      match d with
      | st :: sl :: rest =>
        if negb (seg_type_ok st) then None else
        let w := if asn4 then 4%nat else 2%nat in
        let n := (Z.to_nat sl * w)%nat in
        match read_asns (Z.to_nat sl) w (firstn n rest) with
        | None => None
        | Some asns =>
          match parse_segs f fixed asn4 (skipn n rest) with
          | None => None
          | Some t => Some ((st, asns) :: t)
          end
        end
      | _ => None
      end
    end
  end.

Definition dec_path (fixed asn4 empty4 : bool) (v : list Z) : vres :=
  match v with
  | [] => VOk (VPath empty4 [])        (* ASPath.Empty (asn4=False) / AS4Path.Empty (asn4=True) *)
  | _ => match parse_segs (length v) fixed asn4 v with
         | Some segs => VOk (VPath asn4 segs)
         | None => VNotify 3 11
         end
  end.

Definition len_is (v : list Z) (n : Z) : vres := if zlen v =? n then VOk (VBytes v) else VValueError.
Definition len_mult (v : list Z) (n : Z) (bad : vres) : vres :=
  if zlen v mod n =? 0 then VOk (VBytes v) else bad.

(* LargeCommunities.from_packet: duplicates removed, first occurrence kept *)
Fixpoint chunks (fuel : nat) (n : nat) (d : list Z) : list (list Z) :=
  match fuel with
  | O => []
  | S f => match d with [] => [] | _ => firstn n d :: chunks f n (skipn n d) end
  end.
Fixpoint dedup (seen : list (list Z)) (l : list (list Z)) : list (list Z) :=
  match l with
  | [] => []
  | c :: r => if existsb (list_eqb c) seen then dedup seen r else c :: dedup (c :: seen) r
  end.
Definition dedup12 (v : list Z) : list Z := concat (dedup [] (chunks (length v) 12 v)).

Definition sumz (l : list Z) : Z := fold_right Z.add 0 l.
Definition zin (x : Z) (l : list Z) : bool := existsb (Z.eqb x) l.

(* MPRNLRI.unpack_attribute *)
Definition dec_mp_reach (s : sess) (v : list Z) : vres :=
  if zlen v <? 5 then VNotify 3 9 else
  let afi := nth 0 v 0 * 256 + nth 1 v 0 in
  let safi := nth 2 v 0 in
  if negb (fam_in (s_fams s) afi safi) then VNotify 3 0 else
  let len_nh := nth 3 v 0 in
  if zlen v <? 4 + len_nh + 1 then VNotify 3 9 else
  match family_size afi safi with
  | None => VNotify 3 0
  | Some (lens0, rd) =>
    (* `if negotiated.nexthop:` the legal lengths are looked up again under the AFI the length suggests,
       whatever the family of the NLRI; Family.size[(nh_afi, safi)] missing = KeyError *)
    match (if EXTNH_PER_FAMILY then
             (* the tree adds the IPv6 lengths of the SAFI for the <AFI, SAFI> of negotiated.nexthop only *)
             Some (Some (lens0 ++ (if fam_in (s_extnh s) afi safi
                                   then match family_size 2 safi with Some (l, _) => l | None => [] end else [])))
           else if is_nil (s_extnh s) then Some (Some lens0) else
           if zin len_nh [16; 32; 24] then Some (option_map fst (family_size 2 safi)) else
           if zin len_nh [4; 12] then Some (option_map fst (family_size 1 safi)) else None) with
    | None => VNotify 3 0
    | Some None => VOther
    | Some (Some lens) =>
    if negb (zin len_nh lens) then VNotify 3 0 else
    if negb (rd =? 0) && negb (sumz (firstn 8 (skipn 4 v)) =? 0) then VNotify 3 0 else
    if negb (nth (Z.to_nat (4 + len_nh)) v 0 =? 0) then VNotify 3 0 else
    if zlen v <=? 4 + len_nh + 1 then VNotify 3 0 else
    VOk (VBytes v)
    end
  end.

(* MPURNLRI.unpack_attribute *)
Definition dec_mp_unreach (s : sess) (v : list Z) : vres :=
  if zlen v <? 3 then VNotify 3 9 else
  if negb (fam_in (s_fams s) (nth 0 v 0 * 256 + nth 1 v 0) (nth 2 v 0)) then VNotify 3 0 else
  VOk (VBytes v).

(* Attribute.unpack(aid, flag, attribute, negotiated) for a registered (aid, flag); `dlen` is the
   declared length (R5 tests it for NEXT_HOP in the collection parser) *)
Definition unpack_value (fixed : bool) (opq : Z -> list Z -> vres) (s : sess) (code dlen : Z) (v : list Z) : vres :=
  if code =? A_ORIGIN then
    (if zlen v =? 1 then (if 2 <? nth 0 v 0 then VValueError else VOk (VBytes v)) else VValueError) else
  if code =? A_AS_PATH then dec_path fixed (s_asn4 s) false v else
  if code =? A_NEXT_HOP then
    (if fixed && negb (dlen =? 4) then VValueError else
     match v with [] => VOk (VBytes []) | _ => if (zlen v =? 4) || (zlen v =? 16) then VOk (VBytes v) else VValueError end) else
  if code =? A_MED then len_is v 4 else
  if code =? A_LOCAL_PREF then len_is v 4 else
  if code =? A_ATOMIC_AGGREGATE then len_is v 0 else
  if code =? A_AGGREGATOR then len_is v (if s_asn4 s then 8 else 6) else
  if code =? A_COMMUNITY then len_mult v 4 (VNotify 3 1) else
  if code =? A_ORIGINATOR_ID then len_is v 4 else
  if code =? A_CLUSTER_LIST then len_mult v 4 VValueError else
  if code =? A_MP_REACH_NLRI then dec_mp_reach s v else
  if code =? A_MP_UNREACH_NLRI then dec_mp_unreach s v else
  if code =? A_EXTENDED_COMMUNITY then len_mult v 8 (VNotify 3 1) else
  if code =? A_AS4_PATH then dec_path fixed true true v else
  if code =? A_AS4_AGGREGATOR then len_is v 8 else
  if code =? A_IPV6_EXTENDED_COMMUNITY then len_mult v 20 (VNotify 3 1) else
  if code =? A_LARGE_COMMUNITY then
    (if zlen v mod 12 =? 0 then VOk (VBytes (dedup12 v)) else VNotify 3 1) else
  opq code v.

(* ------------------------------------------------------------------ AttributeCollection.parse *)

Inductive pres := POk (m : amap) | PNotify (c sc : Z) | PExc.

(* the header of the next attribute, as parse reads it *)
Inductive tlv :=
| TEnd                                  (* not data *)
| TNoCode                               (* data[1]: IndexError            -> TreatAsWithdraw() *)
| TNoLength (aid : Z)                   (* data[2] / data[3]: IndexError  -> TreatAsWithdraw(aid) *)
| TOverrun (aid : Z)                    (* R1: the value runs past the block *)
| TItem (flag aid dlen : Z) (value rest : list Z).

Definition next_tlv (fixed : bool) (d : list Z) : tlv :=
  match d with
  | [] => TEnd
  | [_] => TNoCode
  | flag :: aid :: rest =>
    match (if hasbit flag F_EXTENDED_LENGTH
           then match rest with h :: l :: r => Some (h * 256 + l, r) | _ => None end
           else match rest with l :: r => Some (l, r) | _ => None end) with
    | None => TNoLength aid
    | Some (dlen, body) =>
      if fixed && (zlen body <? dlen) then TOverrun aid else
      TItem flag aid dlen (firstn (Z.to_nat dlen) body) (skipn (Z.to_nat dlen) body)
    end
  end.

(* Attribute.registered(aid, flag): (aid, flag | EXTENDED_LENGTH) is a registration key *)
Definition registered (aid flag : Z) : bool :=
  match klass_by_id aid with
  | Some k => setbit flag F_EXTENDED_LENGTH =? ac_flag k + F_EXTENDED_LENGTH
  | None => false
  end.

Definition is_optional (aid : Z) : bool :=
  match klass_by_id aid with Some k => hasbit (ac_flag k) F_OPTIONAL | None => false end.

Inductive sres := SCont (m : amap) | SNotify (c sc : Z) | SExc.

(* one turn of the recursion of parse, from "remove the PARTIAL bit" on *)
Definition step (fixed : bool) (opq : Z -> list Z -> vres) (s : sess)
                (flag0 aid dlen : Z) (value : list Z) (m : amap) : sres :=
  let flag := if is_optional aid then clrbit flag0 F_PARTIAL else flag0 in
  let kls := klass_by_id aid in
  let kb (f : attr_class -> bool) := match kls with Some k => f k | None => false end in
  if ahas m aid then
    (if kb ac_nodup then SNotify 3 1 else SCont m)
  else if registered aid flag then
    (if (dlen =? 0) && negb (kb ac_vzero) then SCont (aadd m (taw (Some aid))) else
     match unpack_value fixed opq s aid dlen value with
     | VOk v => SCont (aadd m (mkA aid (match kls with Some k => ac_flag k | None => 0 end) v))
     | VPseudoDiscard => SCont (aadd m (discard (Some aid)))
     | VValueError =>
         if kb ac_taw then SCont (aadd m (taw (Some aid))) else
         if kb ac_discard then SCont (aadd m (discard None)) else SExc
     | VNotify c sc =>
         if kb ac_taw then SCont (aadd m (taw None)) else
         if kb ac_discard then SCont (aadd m (discard None)) else SNotify c sc
     | VOther => SExc
     end)
  else match kls with
  | Some k =>        (* aid in Attribute.attributes_known: the flag is not what the class says *)
    let m1 := if ac_taw k then aadd m (taw None) else m in
    if ac_discard k then SCont m1 else
    if fixed && negb (ac_taw k) then SCont (aadd m1 (taw (Some aid))) else SCont m1
  | None =>
    if hasbit flag F_TRANSITIVE
    then SCont (aadd m (mkA aid (setbit flag F_PARTIAL) (VBytes value)))
    else SCont m
  end.

Fixpoint parse (fuel : nat) (fixed : bool) (opq : Z -> list Z -> vres) (s : sess) (d : list Z) (m : amap) : pres :=
  match next_tlv fixed d with
  | TEnd => POk m
  | TNoCode => POk (aadd m (taw None))
  | TNoLength aid => POk (aadd m (taw (Some aid)))
  | TOverrun aid => POk (aadd m (taw (Some aid)))
  | TItem flag aid dlen value lft =>
    match fuel with
    | O => PExc
    | S f =>
      match step fixed opq s flag aid dlen value m with
      | SCont m' => parse f fixed opq s lft m'
      | SNotify c sc => PNotify c sc
      | SExc => PExc
      end
    end
  end.

(* ------------------------------------------------------------------ merge_attributes *)

Definition is_seq (t : Z) : bool := (t =? SEG_SEQUENCE) || (t =? SEG_CONFED_SEQUENCE).
Definition is_set (t : Z) : bool := (t =? SEG_SET) || (t =? SEG_CONFED_SET).
Definition is_confed (t : Z) : bool := (t =? SEG_CONFED_SEQUENCE) || (t =? SEG_CONFED_SET).

Definition as_seq (p : list (Z * list Z)) : list Z := flat_map (fun sg => if is_seq (fst sg) then snd sg else []) p.
Definition as_set (p : list (Z * list Z)) : list Z := flat_map (fun sg => if is_set (fst sg) then snd sg else []) p.

(* l[:-n] as Python computes it: n = 0 gives the empty list *)
Definition py_drop_last (l : list Z) (n : nat) : list Z :=
  match n with O => [] | _ => firstn (length l - n) l end.

(* ASPath._segment: at most 255 AS numbers per segment, an empty segment is not written *)
Fixpoint seg_chunks (fuel : nat) (t : Z) (l : list Z) : list (Z * list Z) :=
  match fuel with
  | O => []
  | S f => match l with
           | [] => []
           | _ => if (length l <=? 255)%nat then [(t, l)] else (t, firstn 255 l) :: seg_chunks f t (skipn 255 l)
           end
  end.
Definition repack (p : list (Z * list Z)) : list (Z * list Z) :=
  flat_map (fun sg => seg_chunks (length (snd sg)) (fst sg) (snd sg)) p.

(* the pinned merge: sequences and sets flattened, `[:-len4]`, packed with 2-byte AS numbers.
   None = struct.error out of pack_asn *)
Definition merge_pinned (p2 p4 : list (Z * list Z)) : option aval :=
  let s2 := as_seq p2 in let s4 := as_seq p4 in
  let sq := if (length s2 <? length s4)%nat then s2 else py_drop_last s2 (length s4) ++ s4 in
  let t2 := as_set p2 in let t4 := as_set p4 in
  let st := if (length t2 <? length t4)%nat then t4 else py_drop_last t2 (length t4) ++ t4 in
  let segs := (match sq with [] => [] | _ => [(SEG_SEQUENCE, sq)] end)
              ++ (match st with [] => [] | _ => [(SEG_SET, st)] end) in
  if existsb (fun a => 65535 <? a) (sq ++ st) then None
  else Some (VPath false (repack segs)).

(* R3: RFC 6793 4.2.3 on segments *)
Definition seg_count (sg : Z * list Z) : Z :=
  if fst sg =? SEG_SEQUENCE then zlen (snd sg) else if fst sg =? SEG_SET then 1 else 0.
Definition path_count (p : list (Z * list Z)) : Z := sumz (map seg_count p).

Fixpoint take_lead (p : list (Z * list Z)) (missing : Z) : list (Z * list Z) :=
  match p with
  | [] => []
  | sg :: r =>
    if is_confed (fst sg) then sg :: take_lead r missing else
    if missing <=? 0 then [] else
    if fst sg =? SEG_SET then sg :: take_lead r (missing - 1) else
    let part := firstn (Z.to_nat missing) (snd sg) in
    (SEG_SEQUENCE, part) :: take_lead r (missing - zlen part)
  end.

Definition merge_fixed (p2 p4 : list (Z * list Z)) : aval :=
  let missing := path_count p2 - path_count p4 in
  VPath true (repack (if missing <? 0 then p2 else take_lead p2 missing ++ p4)).

Definition path_of (a : option attr) : list (Z * list Z) :=
  match a with Some (mkA _ _ (VPath _ p)) => p | _ => [] end.

(* AttributeCollection.unpack after parse *)
Definition post_parse (fixed : bool) (m : amap) : pres :=
  if ahas m CODE_TREAT_AS_WITHDRAW then POk m else
  if ahas m A_AS_PATH && ahas m A_AS4_PATH then
    let p2 := path_of (aget m A_AS_PATH) in
    let p4 := path_of (aget m A_AS4_PATH) in
    let rest := aremove (aremove m A_AS_PATH) A_AS4_PATH in
    if fixed then POk (aadd rest (mkA A_AS_PATH 64 (merge_fixed p2 p4)))
    else match merge_pinned p2 p4 with
         | Some v => POk (aadd rest (mkA A_AS_PATH 64 v))
         | None => PExc
         end
  else POk m.

Definition unpack_attrs (fixed : bool) (opq : Z -> list Z -> vres) (s : sess) (ab : list Z) : pres :=
  match parse (length ab) fixed opq s ab [] with
  | POk m => post_parse fixed m
  | r => r
  end.

(* ------------------------------------------------------------------ UpdateCollection.split *)

Inductive split_res := SplitOk (wd attrs nlri : list Z) | SplitNotify (c sc : Z).

Definition rd16 (d : list Z) : Z := nth 0 d 0 * 256 + nth 1 d 0.

Definition split (d : list Z) : split_res :=
  let len := zlen d in
  if len <? 4 then SplitNotify 1 2 else
  let lw := rd16 d in
  if len <? 4 + lw then SplitNotify 3 1 else
  let la := rd16 (skipn (Z.to_nat (2 + lw)) d) in
  if len <? 4 + lw + la then SplitNotify 3 1 else
  SplitOk (firstn (Z.to_nat lw) (skipn 2 d))
          (firstn (Z.to_nat la) (skipn (Z.to_nat (4 + lw)) d))
          (skipn (Z.to_nat (4 + lw + la)) d).

(* ------------------------------------------------------------------ NLRI sections *)

(* `while data: nlri, data = NLRI.unpack_nlri(...)`; None = Notify(3,10) *)
Fixpoint nlri_loop (fuel : nat) (withdraw addpath : bool) (afi safi : Z) (d : list Z) : option (list nlri) :=
  match d with
  | [] => Some []
  | _ =>
    match fuel with
    | O => None
    | S f =>
      match unpack_nlri withdraw addpath afi safi d with
      | None => None
      | Some (n, rest) =>
        if (length d <=? length rest)%nat then None else     (* 'sub-calls should consume data' *)
        match nlri_loop f withdraw addpath afi safi rest with
        | None => None
        | Some t => Some (n :: t)
        end
      end
    end
  end.

Record update := mkU { u_ann : list (nlri * list Z); u_wd : list nlri; u_attrs : amap }.

Inductive outcome :=
| Refused (c sc : Z)      (* Notify(c, sc) raised *)
| PyError                 (* any other exception: read_message answers Notify(1,0) *)
| EndOfRib (afi safi : Z)
| Decoded (u : update).

Definition bytes_of (a : option attr) : option (list Z) :=
  match a with Some (mkA _ _ (VBytes b)) => Some b | _ => None end.

(* MPRNLRI._parse_nexthop_and_nlris + iter_routed: next hop = first 16-byte chunk after the RD *)
Definition mp_reach_routes (s : sess) (v : list Z) : option (list (nlri * list Z)) :=
  let afi := rd16 v in let safi := nth 2 v 0 in
  let len_nh := nth 3 v 0 in
  let rd := match family_size afi safi with Some (_, r) => r | None => 0 end in
  let nhs := firstn (Z.to_nat (len_nh - rd)) (skipn (Z.to_nat (4 + rd)) v) in
  let nh := firstn 16 nhs in
  let data := skipn (Z.to_nat (4 + len_nh + 1)) v in
  match nlri_loop (length data) false (fam_in (s_addpath s) afi safi) afi safi data with
  | None => None
  | Some ns => Some (map (fun n => (n, nh)) ns)
  end.

Definition mp_unreach_routes (s : sess) (v : list Z) : option (list nlri) :=
  let afi := rd16 v in let safi := nth 2 v 0 in
  let data := skipn 3 v in
  nlri_loop (length data) true (fam_in (s_addpath s) afi safi) afi safi data.

(* UpdateCollection._parse_payload; also returns the attribute collection before the MP attributes
   are popped (unpack_message parses it a second time to look for them) *)
Definition parse_payload (fixed : bool) (opq : Z -> list Z -> vres) (s : sess) (d : list Z)
  : outcome * amap * list Z :=
  match split d with
  | SplitNotify c sc => (Refused c sc, [], [])
  | SplitOk wdb ab nb =>
    match unpack_attrs fixed opq s ab with
    | PNotify c sc => (Refused c sc, [], ab)
    | PExc => (PyError, [], ab)
    | POk m =>
      let ap := fam_in (s_addpath s) 1 1 in
      let nh := match bytes_of (aget m A_NEXT_HOP) with
                | Some b => if (zlen b =? 4) || (zlen b =? 16) then b else []
                | None => [] end in
      match nlri_loop (length wdb) true ap 1 1 wdb with
      | None => (Refused 3 10, [], ab)
      | Some wds =>
        match nlri_loop (length nb) false ap 1 1 nb with
        | None => (Refused 3 10, [], ab)
        | Some anns =>
          let m' := aremove (aremove m A_MP_UNREACH_NLRI) A_MP_REACH_NLRI in
          match (match bytes_of (aget m A_MP_UNREACH_NLRI) with
                 | Some v => mp_unreach_routes s v | None => Some [] end) with
          | None => (Refused 3 10, [], ab)
          | Some mwd =>
            match (match bytes_of (aget m A_MP_REACH_NLRI) with
                   | Some v => mp_reach_routes s v | None => Some [] end) with
            | None => (Refused 3 10, [], ab)
            | Some mann =>
              let ann := map (fun n => (n, nh)) anns ++ mann in
              let wd := wds ++ mwd in
              if fixed && ahas m CODE_TREAT_AS_WITHDRAW
              then (Decoded (mkU [] (wd ++ map fst ann) m'), m, ab)
              else (Decoded (mkU ann wd m'), m, ab)
            end
          end
        end
      end
    end
  end.

Definition is_prefix (p d : list Z) : bool := list_eqb p (firstn (length p) d).

(* Update.unpack_message *)
Definition dec_update_gen (fixed : bool) (opq : Z -> list Z -> vres) (s : sess) (d : list Z) : outcome :=
  if (zlen d =? EOR_V4_LENGTH) && list_eqb d [0;0;0;0] then EndOfRib 1 1 else
  if (zlen d =? EOR_PREFIX_LENGTH) && is_prefix EOR_PREFIX d
  then EndOfRib (rd16 (skipn 8 d)) (nth 10 d 0) else
  match parse_payload fixed opq s d with
  | (Decoded u, m, ab) =>
    if is_nil (u_attrs u) && is_nil (u_ann u) && is_nil (u_wd u) then
      match ab with
      | [] => EndOfRib 1 1
      | _ => match bytes_of (aget m A_MP_UNREACH_NLRI) with
             | Some v => EndOfRib (rd16 v) (nth 2 v 0)
             | None => match bytes_of (aget m A_MP_REACH_NLRI) with
                       | Some v => EndOfRib (rd16 v) (nth 2 v 0)
                       | None => EndOfRib 1 1
                       end
             end
      end
    else Decoded u
  | (o, _, _) => o
  end.

Definition dec_update := dec_update_gen true.
Definition dec_update_pinned := dec_update_gen false.

(* ------------------------------------------------------------------ what reaches the API and Adj-RIB-In *)

(* Protocol.read_message: the JSON event is written for every decoded UPDATE; the message is handed
   to UpdateHandler unless (pinned) the collection carries INTERNAL_DISCARD *)
Definition reaches_rib (fixed : bool) (u : update) : bool :=
  fixed || negb (ahas (u_attrs u) CODE_DISCARD).

(* Adj-RIB-In keyed by the NLRI index: (key, (nlri, next hop, attributes)).
   UpdateHandler: one loop stores the announces, one removes the withdraws; their order is probed from the source. *)
Definition rib := list (list Z * (nlri * list Z * amap)).

Definition rib_key (n : nlri) : list Z :=
  match nlri_class (n_afi n) (n_safi n) with
  | Some k => route_index k n
  | None => []
  end.

Fixpoint rib_set (r : rib) (k : list Z) (v : nlri * list Z * amap) : rib :=
  match r with
  | [] => [(k, v)]
  | (k', v') :: t => if list_eqb k k' then (k', v) :: t else (k', v') :: rib_set t k v
  end.
Definition rib_del (r : rib) (k : list Z) : rib := filter (fun e => negb (list_eqb k (fst e))) r.

(* wfirst: the withdraws of the UPDATE are applied before its announces (the order of the two loops of
   UpdateHandler.handle / handle_async, read from the source by T5: Gen_AttrTable.RIBIN_WITHDRAW_FIRST) *)
Definition ribin_apply_gen (wfirst fixed : bool) (r : rib) (u : update) : rib :=
  if reaches_rib fixed u then
    let store (x : rib) := fold_left (fun acc a => rib_set acc (rib_key (fst a)) (fst a, snd a, u_attrs u)) (u_ann u) x in
    let remove (x : rib) := fold_left (fun acc n => rib_del acc (rib_key n)) (u_wd u) x in
    if wfirst then store (remove r) else remove (store r)
  else r.

Definition ribin_apply (fixed : bool) (r : rib) (u : update) : rib := ribin_apply_gen RIBIN_WITHDRAW_FIRST fixed r u.

(* ------------------------------------------------------------------ flat observation for the harness *)

Definition obs_list (l : list Z) : list Z := zlen l :: l.

Definition obs_nlri (n : nlri) : list Z :=
  [n_afi n; n_safi n] ++ (match n_pid n with Some b => 1 :: b | None => [0] end)
  ++ obs_list (n_labels n) ++ obs_list (n_rd n) ++ [n_mask n] ++ obs_list (n_pfx n).

Definition obs_segs (p : list (Z * list Z)) : list Z :=
  Z.of_nat (length p) :: flat_map (fun sg => fst sg :: obs_list (snd sg)) p.

Definition obs_attr (a : attr) : list Z :=
  [-7; a_code a; a_flag a] ++
  match a_val a with
  | VBytes b => 0 :: obs_list b
  | VPath a4 p => (if a4 then 2 else 1) :: obs_segs p
  end.

Definition observe (o : outcome) : list Z :=
  match o with
  | Refused c sc => [-1; c; sc]
  | PyError => [-2]
  | EndOfRib a s => [-3; a; s]
  | Decoded u =>
    [-4] ++ flat_map (fun a => -5 :: obs_nlri (fst a) ++ obs_list (snd a)) (u_ann u)
    ++ flat_map (fun n => -6 :: obs_nlri n) (u_wd u)
    ++ flat_map obs_attr (u_attrs u)
  end.
