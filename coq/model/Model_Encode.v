(* C01 - executable model of "one route -> one UPDATE" :
     bgp/neighbor/neighbor.py                       Neighbor.resolve_self
     bgp/message/update/collection.py               UpdateCollection.messages() for ONE announce or ONE
                                                    withdraw (classification IPv4 field / MP, size tests)
     bgp/message/update/nlri/collection.py          MPNLRICollection._encode_nexthop (RD padding; no
                                                    link-local next hop capability),
                                                    packed_reach_attributes / packed_unreach_attributes
   The NLRI bytes are Model_Nlri.pack_nlri; the attribute bytes Model_Attr.pack_attrs.
   Result = the UPDATE body (after the 19-byte header), or None when nothing is sent
   (log.critical + return, or RuntimeError 'NLRI too large').  Splitting of several routes over
   several messages is C09 (Model_Split).  No proofs in this file. *)
From Coq Require Import ZArith List Bool.
From ExaV Require Import gen.Gen_NlriRegistry model.Model_Nlri model.Model_Attr.
Import ListNotations.
Open Scope Z_scope.

Inductive nexthop := NhSelf | NhIp (ip : list Z).

(* r_items: the attributes written in the text, WITHOUT next-hop (it is r_nh) *)
Record route := mkRt { r_nlri : nlri; r_nh : nexthop; r_items : list item }.

(* Neighbor.resolve_self: ip_self(route.nlri.afi) replaces both route.nexthop and the NEXT_HOP attribute *)
Definition resolve (s : sess) (afi : Z) (nh : nexthop) : list Z :=
  match nh with NhIp ip => ip | NhSelf => if afi =? 1 then s_self4 s else s_self6 s end.

(* the parser adds a NextHop attribute for every next-hop keyword *)
Definition items_of (s : sess) (r : route) : list item :=
  INextHop (resolve s (n_afi (r_nlri r)) (r_nh r)) :: r_items r.

(* is_v4 in messages().  mc = true : the tree where `nlri.safi in [SAFI.unicast, SAFI.multicast]` - IPv4
   multicast goes to the plain IPv4 fields like unicast;  mc = false : `nlri.safi == SAFI.unicast`.
   harness/c01.py reads which of the two forms the source has (fail closed). *)
Definition plain_family (mc : bool) (n : nlri) : bool :=
  (n_afi n =? 1) && ((n_safi n =? 1) || (mc && (n_safi n =? 2))).

(* MPNLRICollection._encode_nexthop, the address part.  v4m = false : the bytes of the next hop as they are (the
   IPv4 next hop of an IPv6-family route goes out as 4 octets);  v4m = true : the tree that sends it
   IPv4-mapped (::ffff:a.b.c.d).  harness/c01.py probes which of the two the code does (fail closed). *)
Definition nh_wire (v4m : bool) (afi : Z) (nh : list Z) : list Z :=
  if v4m && (afi =? 2) && (length nh =? 4)%nat then [0;0;0;0;0;0;0;0;0;0;255;255] ++ nh else nh.

Definition prefix16 (b : list Z) : list Z := be16 (zlen b) ++ b.

(* MPNLRICollection._attribute_header: flag OPTIONAL, extended above 255 *)
Definition mp_header (code len : Z) : list Z :=
  if 255 <? len then [144; code] ++ be16 len else [128; code; len].
Definition mp_attr_len (len : Z) : Z := len + (if 255 <? len then 4 else 3).

Definition send_pid (s : sess) (n : nlri) : bool := s_ap s (n_afi n) (n_safi n).

(* messages() with announces = [RoutedNLRI(nlri, nexthop)], withdraws = [] *)
Definition encode_announce (mc v4m : bool) (s : sess) (r : route) : option (list Z) :=
  let n := r_nlri r in
  let nh := resolve s (n_afi n) (r_nh r) in
  let attr := pack_attrs s true (items_of s r) in
  let room := s_msg s - 19 - 2 - 2 - zlen attr in
  if room <=? 0 then None else
  let packed := pack_nlri (send_pid s n) n in
  if plain_family mc n && (length nh =? 4)%nat then
    if zlen packed <=? room then Some (prefix16 [] ++ prefix16 attr ++ packed) else None
  else
    let nhw := nh_wire v4m (n_afi n) nh in
    let payload := be16 (n_afi n) ++ [n_safi n; rd_size (n_afi n) (n_safi n) + zlen nhw]
                   ++ repeat 0 (Z.to_nat (rd_size (n_afi n) (n_safi n))) ++ nhw ++ [0] ++ packed in
    if room <? mp_attr_len (zlen payload) then None
    else Some (prefix16 [] ++ prefix16 (attr ++ mp_header 14 (zlen payload) ++ payload)).

(* messages() with announces = [], withdraws = [nlri]; `items` = the attributes of the withdrawn route.
   Plain IPv4: the attributes are packed (with defaults) only to compute the room; not sent.
   MP unicast/multicast: include_defaults = False -> no attribute.  Other SAFIs: attributes + defaults
   are sent next to MP_UNREACH_NLRI. *)
Definition encode_withdraw (mc : bool) (s : sess) (n : nlri) (items : list item) : option (list Z) :=
  let packed := pack_nlri (send_pid s n) n in
  if plain_family mc n then
    let attr := pack_attrs s true items in
    let room := s_msg s - 19 - 2 - 2 - zlen attr in
    if room <=? 0 then None else
    if zlen packed <=? room then Some (prefix16 packed ++ prefix16 []) else None
  else
    let with_default := negb ((n_safi n =? 1) || (n_safi n =? 2)) in
    let attr := pack_attrs s with_default items in
    let room := s_msg s - 19 - 2 - 2 - zlen attr in
    if room <=? 0 then None else
    let payload := be16 (n_afi n) ++ [n_safi n] ++ packed in
    if room <? mp_attr_len (zlen payload) then None
    else Some (prefix16 [] ++ prefix16 (mp_header 15 (zlen payload) ++ payload ++ attr)).
