(* C07 - executable model of the OPEN exchange of ExaBGP.
   Mirrors, line by line:
     bgp/message/open/__init__.py            Open.make_open / pack_message / unpack_message
     bgp/message/open/capability/capabilities.py  Capabilities.new / pack_capabilities / unpack
     bgp/message/open/capability/{mp,asn4,addpath,nexthop,extended,refresh,graceful,hostname,
                                  software,pathslimit,...}.py   unpack_capability / extract_capability_bytes
     bgp/message/open/capability/negotiated.py    Negotiated._negotiate / validate, RequirePath.setup
   Constants and the two behaviour switches come from gen/Gen_Registry.v (translator T6).
   No proofs in this file. *)
From Coq Require Import ZArith Bool List.
From ExaV Require Import gen.Gen_Registry.
Import ListNotations.
Open Scope Z_scope.

(* ------------------------------------------------------------------ values *)

Definition fam := (Z * Z)%type.            (* (afi, safi) *)
Definition nhop := (Z * Z * Z)%type.       (* (afi, safi, next hop afi) *)

Definition fam_eqb (a b : fam) : bool := (fst a =? fst b) && (snd a =? snd b).
Definition nh_eqb (a b : nhop) : bool :=
  match a, b with (a1, a2, a3), (b1, b2, b3) => (a1 =? b1) && (a2 =? b2) && (a3 =? b3) end.
Definition memf (f : fam) (l : list fam) : bool := existsb (fam_eqb f) l.
Definition memn (n : nhop) (l : list nhop) : bool := existsb (nh_eqb n) l.

(* one capability as it travels (one TLV), already decoded.  MULTIPROTOCOL is one TLV per family. *)
Inductive cap :=
| CapMP (f : fam)
| CapASN4 (a : Z)
| CapAddPath (l : list (fam * Z))           (* ((afi, safi), send/receive octet) *)
| CapNextHop (l : list nhop)
| CapExtMsg
| CapRefresh
| CapEnhRefresh
| CapGraceful (flag time : Z) (l : list (fam * Z))   (* restart flags, restart time, ((afi, safi), family flags) *)
| CapHostName (host domain : list Z)        (* utf-8 octets *)
| CapSoftware (version : list Z)
| CapPathsLimit (l : list (fam * Z))        (* ((afi, safi), limit) *)
| CapOther (code : Z) (data : list Z).      (* operational, multisession (value not read), link-local,
                                               cisco variants, unknown codes *)

Record open := { o_version : Z; o_asn : Z; o_hold : Z; o_rid : Z; o_caps : list cap }.

Inductive res (A : Type) := Ok (a : A) | Notify (code sub : Z).
Arguments Ok {A} a.
Arguments Notify {A} code sub.

(* ------------------------------------------------------------------ the capability dictionary *)

(* What `Capabilities` (a dict keyed by code) holds after the TLVs were applied in order, restricted
   to the keys _negotiate reads.  None = key absent. *)
Record capset := {
  cs_mp : option (list fam);
  cs_asn4 : option Z;
  cs_ap : option (list (fam * Z));
  cs_nh : option (list nhop);
  cs_pl : option (list (fam * Z));
  cs_ext : bool; cs_rr : bool; cs_err : bool; cs_ms : bool }.

Definition cs_empty : capset :=
  {| cs_mp := None; cs_asn4 := None; cs_ap := None; cs_nh := None; cs_pl := None;
     cs_ext := false; cs_rr := false; cs_err := false; cs_ms := false |}.

Definition odflt {A} (o : option (list A)) : list A := match o with Some l => l | None => [] end.
Definition is_some {A} (o : option A) : bool := match o with Some _ => true | None => false end.

(* MultiProtocol.unpack_capability: append unless already present *)
Definition mp_add (l : list fam) (f : fam) : list fam := if memf f l then l else l ++ [f].
(* NextHop.add_nexthop *)
Definition nh_add (l : list nhop) (n : nhop) : list nhop := if memn n l then l else l ++ [n].
(* AddPath.add_path: dict assignment (an existing key keeps its position) *)
Fixpoint ap_set (d : list (fam * Z)) (e : fam * Z) : list (fam * Z) :=
  match d with
  | [] => [e]
  | x :: d' => if fam_eqb (fst e) (fst x) then (fst x, snd e) :: d' else x :: ap_set d' e
  end.
(* PathsLimit.unpack_capability: a zero limit is skipped, the first tuple of a family is kept *)
Definition pl_add (d : list (fam * Z)) (e : fam * Z) : list (fam * Z) :=
  if snd e =? 0 then d else if memf (fst e) (map fst d) then d else d ++ [e].

Definition set_mp (cs : capset) v := {| cs_mp := v; cs_asn4 := cs_asn4 cs; cs_ap := cs_ap cs; cs_nh := cs_nh cs; cs_pl := cs_pl cs;
  cs_ext := cs_ext cs; cs_rr := cs_rr cs; cs_err := cs_err cs; cs_ms := cs_ms cs |}.
Definition set_asn4 (cs : capset) v := {| cs_mp := cs_mp cs; cs_asn4 := v; cs_ap := cs_ap cs; cs_nh := cs_nh cs; cs_pl := cs_pl cs;
  cs_ext := cs_ext cs; cs_rr := cs_rr cs; cs_err := cs_err cs; cs_ms := cs_ms cs |}.
Definition set_ap (cs : capset) v := {| cs_mp := cs_mp cs; cs_asn4 := cs_asn4 cs; cs_ap := v; cs_nh := cs_nh cs; cs_pl := cs_pl cs;
  cs_ext := cs_ext cs; cs_rr := cs_rr cs; cs_err := cs_err cs; cs_ms := cs_ms cs |}.
Definition set_nh (cs : capset) v := {| cs_mp := cs_mp cs; cs_asn4 := cs_asn4 cs; cs_ap := cs_ap cs; cs_nh := v; cs_pl := cs_pl cs;
  cs_ext := cs_ext cs; cs_rr := cs_rr cs; cs_err := cs_err cs; cs_ms := cs_ms cs |}.
Definition set_pl (cs : capset) v := {| cs_mp := cs_mp cs; cs_asn4 := cs_asn4 cs; cs_ap := cs_ap cs; cs_nh := cs_nh cs; cs_pl := v;
  cs_ext := cs_ext cs; cs_rr := cs_rr cs; cs_err := cs_err cs; cs_ms := cs_ms cs |}.
Definition set_ext (cs : capset) := {| cs_mp := cs_mp cs; cs_asn4 := cs_asn4 cs; cs_ap := cs_ap cs; cs_nh := cs_nh cs; cs_pl := cs_pl cs;
  cs_ext := true; cs_rr := cs_rr cs; cs_err := cs_err cs; cs_ms := cs_ms cs |}.
Definition set_rr (cs : capset) := {| cs_mp := cs_mp cs; cs_asn4 := cs_asn4 cs; cs_ap := cs_ap cs; cs_nh := cs_nh cs; cs_pl := cs_pl cs;
  cs_ext := cs_ext cs; cs_rr := true; cs_err := cs_err cs; cs_ms := cs_ms cs |}.
Definition set_err (cs : capset) := {| cs_mp := cs_mp cs; cs_asn4 := cs_asn4 cs; cs_ap := cs_ap cs; cs_nh := cs_nh cs; cs_pl := cs_pl cs;
  cs_ext := cs_ext cs; cs_rr := cs_rr cs; cs_err := true; cs_ms := cs_ms cs |}.
Definition set_ms (cs : capset) := {| cs_mp := cs_mp cs; cs_asn4 := cs_asn4 cs; cs_ap := cs_ap cs; cs_nh := cs_nh cs; cs_pl := cs_pl cs;
  cs_ext := cs_ext cs; cs_rr := cs_rr cs; cs_err := cs_err cs; cs_ms := true |}.

(* Capabilities.unpack: capabilities[code] = Capability.unpack(code, capabilities, value); the
   instance handed to unpack_capability is the one already stored under that code, if any *)
Definition add_cap (cs : capset) (c : cap) : capset :=
  match c with
  | CapMP f => set_mp cs (Some (mp_add (odflt (cs_mp cs)) f))
  | CapASN4 a => set_asn4 cs (Some a)
  | CapAddPath l => set_ap cs (Some (fold_left ap_set l (odflt (cs_ap cs))))
  | CapNextHop l => set_nh cs (Some (fold_left nh_add l (odflt (cs_nh cs))))
  | CapPathsLimit l => set_pl cs (Some (fold_left pl_add l (odflt (cs_pl cs))))
  | CapExtMsg => set_ext cs
  | CapRefresh => set_rr cs
  | CapEnhRefresh => set_err cs
  | CapOther code _ => if code =? CAP_MULTISESSION then set_ms cs else cs
  | CapGraceful _ _ _ => cs
  | CapHostName _ _ => cs
  | CapSoftware _ => cs
  end.

Definition fold_caps (l : list cap) : capset := fold_left add_cap l cs_empty.

(* ------------------------------------------------------------------ Negotiated._negotiate *)

Inductive ms_state := MsNo | MsYes | MsRefuse (code sub : Z).

Record negotiated := {
  n_families : list fam;
  n_asn4 : bool;
  n_local_as : Z;
  n_peer_as : Z;
  n_ap_send : list (fam * bool);       (* RequirePath._send, insertion order *)
  n_ap_recv : list (fam * bool);       (* RequirePath._receive *)
  n_nexthop : list nhop;
  n_refresh : Z;
  n_msg_size : Z;
  n_holdtime : Z;
  n_paths_limit : list (fam * Z);      (* Negotiated.paths_limit: what the peer asks us not to exceed *)
  n_adv_paths_limit : list (fam * Z);  (* Negotiated.advertised_paths_limit *)
  n_ms : ms_state }.                    (* Negotiated.multisession: False / True / (code, subcode, text) *)

(* dict.get(k, CANT) *)
Definition ap_get (d : list (fam * Z)) (k : fam) : Z :=
  match find (fun e => fam_eqb k (fst e)) d with Some e => snd e | None => 0 end.
(* `x & SEND`, `x & RECEIVE` as booleans (SEND = 2, RECEIVE = 1, checked by T6) *)
Definition bit_send (x : Z) : bool := Z.odd (x / 2).
Definition bit_recv (x : Z) : bool := Z.odd x.

(* RequirePath.setup(received_open, sent_open) *)
Definition ap_union (send receive : list (fam * Z)) : list fam :=
  map fst send ++ filter (fun k => negb (memf k (map fst send))) (map fst receive).
Definition ap_setup_send (send receive : list (fam * Z)) : list (fam * bool) :=
  map (fun k => (k, bit_send (ap_get send k) && bit_recv (ap_get receive k))) (ap_union send receive).
Definition ap_setup_recv (send receive : list (fam * Z)) : list (fam * bool) :=
  map (fun k => (k, bit_recv (ap_get send k) && bit_send (ap_get receive k))) (ap_union send receive).
(* RequirePath.send / receive: dict.get((afi, safi), False) *)
Definition ap_lookup (d : list (fam * bool)) (k : fam) : bool :=
  match find (fun e => fam_eqb k (fst e)) d with Some e => snd e | None => false end.

Fixpoint fams_eqb (a b : list fam) : bool :=
  match a, b with
  | [], [] => true
  | x :: a', y :: b' => fam_eqb x y && fams_eqb a' b'
  | _, _ => false end.
(* dict.get for the paths-limit tables *)
Definition pl_lookup (d : list (fam * Z)) (k : fam) : option Z :=
  match find (fun e => fam_eqb k (fst e)) d with Some e => Some (snd e) | None => None end.

(* MultiSession.unpack_capability: the session identifiers listed after the flags octet.  T6 probes the tree:
   MS_VALUE_PARSED = false is the unrepaired decoder, which drops the value *)
Definition ms_ids (d : list Z) : list Z := if MS_VALUE_PARSED then skipn 1 d else [].
Definition ms_ids_of_caps (l : list cap) : list Z :=
  flat_map (fun c => match c with
                     | CapOther code d => if code =? CAP_MULTISESSION then ms_ids d else []
                     | _ => [] end) l.
(* `if ms_capa == set(): ms_capa = set([MULTIPROTOCOL])` and the comparison of the two sets *)
Definition ids_default (l : list Z) : list Z := match l with [] => [CAP_MULTIPROTOCOL] | x :: t => x :: t end.
Definition set_eqb (a b : list Z) : bool :=
  forallb (fun x => existsb (Z.eqb x) b) a && forallb (fun x => existsb (Z.eqb x) a) b.

(* fx = Gen_Registry.LOCAL_AS_FROM_CAP: false is `self.local_as = self.sent_open.asn` alone; true is
   that line followed by "when the field is AS_TRANS and we sent an ASN4 capability, take its value" *)
Definition negotiate_g (fx : bool) (s r : open) : negotiated :=
  let sc := fold_caps (o_caps s) in
  let rc := fold_caps (o_caps r) in
  let asn4 := is_some (cs_asn4 sc) && is_some (cs_asn4 rc) in
  {| n_holdtime := Z.min (o_hold s) (o_hold r);
     n_ap_send := ap_setup_send (odflt (cs_ap sc)) (odflt (cs_ap rc));
     n_ap_recv := ap_setup_recv (odflt (cs_ap sc)) (odflt (cs_ap rc));
     n_asn4 := asn4;
     n_local_as :=
       (match cs_asn4 sc with
        | Some a => if fx && (o_asn s =? AS_TRANS) then a else o_asn s
        | None => o_asn s end);
     n_peer_as :=
       (match cs_asn4 rc with
        | Some a => if (o_asn r =? AS_TRANS) && asn4 then a else o_asn r
        | None => o_asn r end);
     n_families :=
       (match cs_mp rc, cs_mp sc with
        | Some rl, Some sl => filter (fun f => memf f sl) rl
        | _, _ => [] end);
     n_nexthop :=
       (match cs_nh rc, cs_nh sc with
        | Some rl, Some sl => filter (fun n => memn n sl) rl
        | _, _ => [] end);
     n_refresh :=
       (if cs_err rc && cs_err sc then REFRESH_ENHANCED
        else if cs_rr rc && cs_rr sc then REFRESH_NORMAL else REFRESH_ABSENT);
     n_msg_size := (if cs_ext rc && cs_ext sc then MSG_EXTENDED_SIZE else MSG_INITIAL_SIZE);
     n_paths_limit :=
       (match cs_ap rc, cs_ap sc, cs_pl rc with
        | Some rap, Some sap, Some rpl =>
            filter (fun e => memf (fst e) (map fst rap) && ap_lookup (ap_setup_send sap rap) (fst e)) rpl
        | _, _, _ => [] end);
     n_adv_paths_limit :=
       (match cs_ap rc, cs_ap sc, cs_pl sc with
        | Some rap, Some sap, Some spl =>
            filter (fun e => memf (fst e) (map fst sap) && ap_lookup (ap_setup_recv sap rap) (fst e)) spl
        | _, _, _ => [] end);
     (* we never send the cisco variant, so only the draft code can be common.  A first (2, 8) for
        different identifier sets, then the loop over what we sent - always {MULTIPROTOCOL} - which
        can only produce (2, 8) again *)
     n_ms :=
       (if cs_ms sc && cs_ms rc then
          if negb (set_eqb (ids_default (ms_ids_of_caps (o_caps s))) (ids_default (ms_ids_of_caps (o_caps r))))
          then MsRefuse 2 8 else
          match cs_mp rc with
          | Some rl => if fams_eqb (odflt (cs_mp sc)) rl then MsYes else MsRefuse 2 8
          | None => MsRefuse 2 8 end
        else if cs_ms sc then MsRefuse 2 9 else MsNo) |}.

(* ------------------------------------------------------------------ neighbor configuration -> our OPEN *)

Record cfg := {
  c_local_as : Z; c_peer_as : Z (* 0 = any *); c_rid : Z; c_hold : Z;
  c_families : list fam;                                   (* neighbor.families() *)
  c_asn4 : bool;
  c_nexthop : bool; c_nexthops : list nhop;                (* capability.nexthop, neighbor.nexthops() *)
  c_addpath : Z; c_addpaths : list fam;                    (* capability.add_path (0..3), neighbor.addpaths() *)
  c_gr : bool; c_gr_time : Z; c_restarted : bool;
  c_refresh : bool; c_operational : bool; c_extmsg : bool;
  c_host : list Z; c_domain : list Z;                      (* utf-8 bytes *)
  c_software : list Z;                                     (* bytes of the version string, [] = not sent *)
  c_linklocal : bool;
  c_paths_limit : list (fam * Z);                          (* capability.paths_limit_per_family.items() *)
  c_multisession : bool }.

(* ASN.trans *)
Definition trans (a : Z) : Z := if a >? ASN_MAX_2BYTE then AS_TRANS else a.

(* HostName.extract_capability_bytes truncates both names *)
Definition trunc_name (h : list Z) : list Z := firstn (Z.to_nat HOSTNAME_MAX_LEN) h.

(* Capabilities._pathslimit *)
Definition our_paths_limit (c : cfg) : list (fam * Z) :=
  filter (fun e => memf (fst e) (filter (fun f => memf f (c_addpaths c)) ADD_PATH_TABLE)
                   && bit_recv (c_addpath c) && (0 <? snd e)) (c_paths_limit c).

Definition opt (b : bool) (l : list cap) : list cap := if b then l else [].

(* MultiSession().set([MULTIPROTOCOL]).extract_capability_bytes(): the unrepaired encoder yields two values, hence
   two TLVs [0] and [MULTIPROTOCOL]; the repaired one a single TLV [flags, MULTIPROTOCOL] *)
Definition ms_tlvs : list cap :=
  if MS_VALUE_PARSED then [CapOther CAP_MULTISESSION [0; CAP_MULTIPROTOCOL]]
  else [CapOther CAP_MULTISESSION [0]; CapOther CAP_MULTISESSION [CAP_MULTIPROTOCOL]].
Definition our_ms_ids : list Z := if MS_VALUE_PARSED then [CAP_MULTIPROTOCOL] else [].

(* Capabilities.new, in its insertion order; what reaches the wire (a capability whose
   extract_capability_bytes is the empty list, i.e. a host name capability without host name, sends nothing) *)
Definition caps_of_config (c : cfg) : list cap :=
  map CapMP (c_families c)
  ++ opt (c_asn4 c) [CapASN4 (c_local_as c)]
  ++ opt (c_nexthop c) [CapNextHop (filter (fun n => memn n (c_nexthops c)) NEXTHOP_TABLE)]
  ++ opt (negb (c_addpath c =? 0))
       [CapAddPath (map (fun f => (f, c_addpath c)) (filter (fun f => memf f (c_addpaths c)) ADD_PATH_TABLE))]
  ++ opt (negb (c_addpath c =? 0) && negb (Nat.eqb (length (our_paths_limit c)) 0)) [CapPathsLimit (our_paths_limit c)]
  ++ opt (c_gr c) [CapGraceful (if c_restarted c then GR_RESTART_STATE else 0) (c_gr_time c mod (GR_TIME_MASK + 1))
                     (map (fun f => (f, GR_FORWARDING_STATE)) (c_families c))]
  ++ opt (c_refresh c) [CapRefresh; CapEnhRefresh]
  ++ opt (c_operational c) [CapOther CAP_OPERATIONAL []]
  ++ opt (c_extmsg c) [CapExtMsg]
  ++ opt (negb (Nat.eqb (length (c_host c)) 0)) [CapHostName (trunc_name (c_host c)) (trunc_name (c_domain c))]
  ++ opt (negb (Nat.eqb (length (c_software c)) 0)) [CapSoftware (c_software c)]
  ++ opt (c_linklocal c) [CapOther CAP_LINK_LOCAL_NEXTHOP []]
  ++ opt (c_multisession c) ms_tlvs.

(* Protocol.new_open + Open.make_open *)
Definition open_of (c : cfg) : open :=
  {| o_version := BGP_VERSION; o_asn := trans (c_local_as c); o_hold := c_hold c; o_rid := c_rid c;
     o_caps := caps_of_config c |}.

(* local-as auto (session.local_as = 0): Peer._establish reads the peer's OPEN first and Protocol.new_open takes
   the AS from it.  T6 probes the tree: AUTO_AS_FROM_PEER_CAP = false is the unrepaired behaviour (the peer's
   2-octet field as My AS, and the ASN4 capability still built from the unset local AS, hence 0); true takes the
   peer's AS from its ASN4 capability when it has one and puts that AS in our capability too. *)
Definition peer_true_as (r : open) : Z :=
  match cs_asn4 (fold_caps (o_caps r)) with Some a => a | None => o_asn r end.
Definition with_local_as (c : cfg) (a : Z) : cfg :=
  {| c_local_as := a; c_peer_as := c_peer_as c; c_rid := c_rid c; c_hold := c_hold c; c_families := c_families c;
     c_asn4 := c_asn4 c; c_nexthop := c_nexthop c; c_nexthops := c_nexthops c; c_addpath := c_addpath c;
     c_addpaths := c_addpaths c; c_gr := c_gr c; c_gr_time := c_gr_time c; c_restarted := c_restarted c;
     c_refresh := c_refresh c; c_operational := c_operational c; c_extmsg := c_extmsg c; c_host := c_host c;
     c_domain := c_domain c; c_software := c_software c; c_linklocal := c_linklocal c;
     c_paths_limit := c_paths_limit c; c_multisession := c_multisession c |}.
Definition zero_asn4 (c : cap) : cap := match c with CapASN4 _ => CapASN4 0 | x => x end.
Definition our_open (c : cfg) (r : open) : open :=
  if c_local_as c =? 0 then
    if AUTO_AS_FROM_PEER_CAP then open_of (with_local_as c (peer_true_as r))
    else let o := open_of (with_local_as c (o_asn r)) in
         {| o_version := o_version o; o_asn := o_asn o; o_hold := o_hold o; o_rid := o_rid o;
            o_caps := map zero_asn4 (o_caps o) |}
  else open_of c.

Definition negotiate (c : cfg) (r : open) : negotiated := negotiate_g LOCAL_AS_FROM_CAP (our_open c r) r.

(* Negotiated.validate.  fy = Gen_Registry.COLLISION_ON_TRUE_AS: false is
   `self.received_open.asn == neighbor.session.local_as`, true is `self.peer_as == ...` *)
Definition validate_g (fy : bool) (c : cfg) (r : open) (n : negotiated) : option (Z * Z) :=
  if negb (c_peer_as c =? 0) && negb (n_peer_as n =? c_peer_as c) then Some (2, 2)
  else if o_rid r =? 0 then Some (2, 3)
  else if ((if fy then n_peer_as n else o_asn r)
           =? (if c_local_as c =? 0 then (if AUTO_COLLISION_CHECK then n_local_as n else 0) else c_local_as c))
          && (o_rid r =? c_rid c) then Some (2, 3)
  else if negb (o_hold r =? 0) && (o_hold r <? HOLD_MIN) then Some (2, 6)
  else match n_ms n with MsRefuse a b => Some (a, b) | _ => None end.

Definition validate (c : cfg) (r : open) : option (Z * Z) :=
  validate_g COLLISION_ON_TRUE_AS c r (negotiate c r).

(* ------------------------------------------------------------------ wire format: encoding *)

Definition len (l : list Z) : Z := Z.of_nat (length l).
Definition be16 (x : Z) : list Z := [x / 256; x mod 256].
Definition be32 (x : Z) : list Z := [x / 16777216; (x / 65536) mod 256; (x / 256) mod 256; x mod 256].
Definition rd16 (l : list Z) : Z := nth 0 l 0 * 256 + nth 1 l 0.
Definition rd32 (l : list Z) : Z := ((nth 0 l 0 * 256 + nth 1 l 0) * 256 + nth 2 l 0) * 256 + nth 3 l 0.

Definition enc_ap_entry (e : fam * Z) : list Z := be16 (fst (fst e)) ++ [snd (fst e); snd e].
Definition enc_pl_entry (e : fam * Z) : list Z := be16 (fst (fst e)) ++ [snd (fst e)] ++ be16 (snd e).
Definition enc_nh_entry (n : nhop) : list Z :=
  match n with (a, s, h) => be16 a ++ [0; s] ++ be16 h end.

(* extract_capability_bytes: (code, value) TLVs of one capability *)
Definition enc_cap (c : cap) : Z * list Z :=
  match c with
  | CapMP f => (CAP_MULTIPROTOCOL, be16 (fst f) ++ be16 (snd f))
  | CapASN4 a => (CAP_FOUR_BYTES_ASN, be32 a)
  | CapAddPath l => (CAP_ADD_PATH, flat_map enc_ap_entry (filter (fun e => negb (snd e =? 0)) l))
  | CapNextHop l => (CAP_NEXTHOP, flat_map enc_nh_entry l)
  | CapExtMsg => (CAP_EXTENDED_MESSAGE, [])
  | CapRefresh => (CAP_ROUTE_REFRESH, [])
  | CapEnhRefresh => (CAP_ENHANCED_ROUTE_REFRESH, [])
  | CapGraceful flag time l => (CAP_GRACEFUL_RESTART, be16 (flag * 4096 + time mod (GR_TIME_MASK + 1)) ++ flat_map enc_ap_entry l)
  | CapHostName h d => (CAP_HOSTNAME, len h :: h ++ len d :: d)
  | CapSoftware v => (CAP_SOFTWARE_VERSION, len v :: v)
  | CapPathsLimit l => (CAP_PATHS_LIMIT, flat_map enc_pl_entry (filter (fun e => 0 <? snd e) l))
  | CapOther code data => (code, data)
  end.

(* pack_capabilities: one optional parameter per capability TLV *)
Definition enc_param1 (r : Z * list Z) : list Z := [PARAM_CAPABILITIES; len (snd r) + 2; fst r; len (snd r)] ++ snd r.
Definition enc_param2 (r : Z * list Z) : list Z :=
  [PARAM_CAPABILITIES] ++ be16 (len (snd r) + 2) ++ [fst r; len (snd r)] ++ snd r.
Definition enc_optparams (raws : list (Z * list Z)) : list Z :=
  let p := flat_map enc_param1 raws in
  if len p <? OPEN_PARAM_LEN_MAX then len p :: p
  else let q := flat_map enc_param2 raws in [OPEN_EXTENDED_MARKER; OPEN_EXTENDED_MARKER] ++ be16 (len q) ++ q.

(* Open.pack_message without the 19 byte header *)
Definition enc_open (o : open) : list Z :=
  [o_version o] ++ be16 (o_asn o) ++ be16 (o_hold o) ++ be32 (o_rid o) ++ enc_optparams (map enc_cap (o_caps o)).

(* ------------------------------------------------------------------ wire format: decoding *)

Definition n20 {A} : res A := Notify 2 0.

Fixpoint parse_ap (d : list Z) : res (list (fam * Z)) :=
  match d with
  | [] => Ok []
  | a1 :: a2 :: s :: sr :: rest =>
      match parse_ap rest with Ok l => Ok (((a1 * 256 + a2, s), sr) :: l) | Notify a b => Notify a b end
  | _ => n20
  end.

Fixpoint parse_nh (d : list Z) : res (list nhop) :=
  match d with
  | [] => Ok []
  | a1 :: a2 :: _ :: s :: h1 :: h2 :: rest =>
      match parse_nh rest with Ok l => Ok ((a1 * 256 + a2, s, h1 * 256 + h2) :: l) | Notify a b => Notify a b end
  | _ => n20
  end.

Fixpoint parse_pl (d : list Z) : res (list (fam * Z)) :=
  match d with
  | [] => Ok []
  | a1 :: a2 :: s :: l1 :: l2 :: rest =>
      match parse_pl rest with Ok l => Ok (((a1 * 256 + a2, s), l1 * 256 + l2) :: l) | Notify a b => Notify a b end
  | _ => n20
  end.

(* <cls>.unpack_capability(instance, value, code) for every registered class; the fallback class
   (UnknownCapability) keeps the bytes.  Only the outcome class and what _negotiate reads are kept. *)
Definition parse_cap (code : Z) (d : list Z) : res cap :=
  if code =? CAP_MULTIPROTOCOL then
    match d with a1 :: a2 :: _ :: s :: _ => Ok (CapMP (a1 * 256 + a2, s)) | _ => n20 end
  else if code =? CAP_FOUR_BYTES_ASN then
    match d with
    | [a; b] => Ok (CapASN4 (a * 256 + b))
    | [a; b; c; e] => Ok (CapASN4 (rd32 d))
    | _ => n20 end
  else if code =? CAP_ADD_PATH then
    match parse_ap d with Ok l => Ok (CapAddPath l) | Notify a b => Notify a b end
  else if code =? CAP_NEXTHOP then
    match parse_nh d with Ok l => Ok (CapNextHop l) | Notify a b => Notify a b end
  else if code =? CAP_EXTENDED_MESSAGE then Ok CapExtMsg
  else if code =? CAP_ROUTE_REFRESH then Ok CapRefresh
  else if code =? CAP_ENHANCED_ROUTE_REFRESH then Ok CapEnhRefresh
  else if code =? CAP_GRACEFUL_RESTART then
    match d with
    | r1 :: r2 :: rest =>
        match parse_ap rest with
        | Ok l => Ok (CapGraceful ((r1 * 256 + r2) / 4096) ((r1 * 256 + r2) mod (GR_TIME_MASK + 1)) l)
        | Notify a b => Notify a b end
    | _ => n20 end
  else if code =? CAP_HOSTNAME then
    match d with
    | [] => n20
    | l1 :: rest =>
        if len d <? l1 + 2 then n20
        else let l2 := nth (Z.to_nat l1) rest 0 in
          if len d <? l1 + 2 + l2 then n20
          else Ok (CapHostName (firstn (Z.to_nat l1) rest) (firstn (Z.to_nat l2) (skipn (S (Z.to_nat l1)) rest)))
    end
  else if code =? CAP_SOFTWARE_VERSION then
    match d with
    | [] => n20
    | l1 :: rest => if len d <? l1 + 1 then n20 else Ok (CapSoftware (firstn (Z.to_nat l1) rest))
    end
  else if code =? CAP_PATHS_LIMIT then
    match parse_pl d with Ok l => Ok (CapPathsLimit l) | Notify a b => Notify a b end
  else Ok (CapOther code d).

(* _key_values / _extended_type_length: (key, value, rest) *)
Definition kv1 (d : list Z) : option (Z * list Z * list Z) :=
  match d with
  | k :: l :: rest =>
      if len rest <? l then None else Some (k, firstn (Z.to_nat l) rest, skipn (Z.to_nat l) rest)
  | _ => None
  end.
Definition kv2 (d : list Z) : option (Z * list Z * list Z) :=
  match d with
  | k :: h :: l :: rest =>
      let n := h * 256 + l in
      if len rest <? n then None else Some (k, firstn (Z.to_nat n) rest, skipn (Z.to_nat n) rest)
  | _ => None
  end.

(* the inner `while value:` loop of Capabilities.unpack; fuel = length of the value *)
Fixpoint dec_capvals (fuel : nat) (v : list Z) : res (list cap) :=
  match v with
  | [] => Ok []
  | _ =>
    match fuel with
    | O => Notify 0 0
    | S k =>
      match kv1 v with
      | None => n20
      | Some (code, cv, rest) =>
        match parse_cap code cv with
        | Notify a b => Notify a b
        | Ok c => match dec_capvals k rest with Ok l => Ok (c :: l) | Notify a b => Notify a b end
        end
      end
    end
  end.

(* the outer `while data:` loop *)
Fixpoint dec_params (ext : bool) (fuel : nat) (d : list Z) : res (list cap) :=
  match d with
  | [] => Ok []
  | _ =>
    match fuel with
    | O => Notify 0 0
    | S k =>
      match (if ext then kv2 d else kv1 d) with
      | None => n20
      | Some (key, v, rest) =>
        if key =? PARAM_AUTH then Notify 2 5
        else if key =? PARAM_CAPABILITIES then
          match dec_capvals (length v) v with
          | Notify a b => Notify a b
          | Ok l1 => match dec_params ext k rest with Ok l2 => Ok (l1 ++ l2) | Notify a b => Notify a b end
          end
        else Notify 2 UNKNOWN_PARAM_SUBCODE   (* probed by T6: 0 in the unrepaired tree, 4 (RFC 4271 6.2) once repaired *)
      end
    end
  end.

(* Which encoding Capabilities.unpack reads.  T6 probes the tree: EXT_BY_TYPE_OCTET = false is the unrepaired test
   (both octets must be 255), true is RFC 9072 s.2: the type octet alone, the length octet before it being any
   non-zero value.  Either way the four header octets must be there. *)
Definition ext_selected (d : list Z) : bool :=
  (if EXT_BY_TYPE_OCTET then negb (nth 0 d 0 =? 0) else nth 0 d 0 =? EXTENDED_LENGTH)
  && negb (len d <? 4) && (nth 1 d 0 =? EXTENDED_LENGTH).

(* Capabilities.unpack(data[9:]) *)
Definition dec_optparams (d : list Z) : res (list cap) :=
  match d with
  | [] => Ok []
  | ol :: t =>
    if ext_selected d then
      let n := rd16 (skipn 2 d) in
      if len d <? n + 4 then n20
      else let p := firstn (Z.to_nat n) (skipn 4 d) in dec_params true (length p) p
    else
      (* base encoding; a length octet of 255 with fewer than four octets is the truncation error below *)
      if len d <? ol + 1 then n20
      else let p := firstn (Z.to_nat ol) t in dec_params false (length p) p
  end.

(* Open.unpack_message *)
Definition dec_open (b : list Z) : res open :=
  if len b <? OPEN_MINIMUM_BODY_SIZE then Notify 1 2
  else if negb (nth 0 b 0 =? BGP_VERSION) then Notify 2 1
  else match dec_optparams (skipn (Z.to_nat OPEN_HEADER_SIZE) b) with
       | Notify a c => Notify a c
       | Ok caps => Ok {| o_version := nth 0 b 0; o_asn := rd16 (skipn 1 b); o_hold := rd16 (skipn 3 b);
                          o_rid := rd32 (skipn 5 b); o_caps := caps |}
       end.

(* ------------------------------------------------------------------ the whole exchange, as the harness drives it *)

Inductive outcome :=
| DecodeError (code sub : Z)                                 (* Notify raised by Message.unpack *)
| Exchanged (refusal : option (Z * Z)) (n : negotiated).      (* validate()'s verdict, fields of Negotiated *)

Definition session (c : cfg) (peer_body : list Z) : outcome :=
  match dec_open peer_body with
  | Notify a b => DecodeError a b
  | Ok r => Exchanged (validate c r) (negotiate c r)
  end.
