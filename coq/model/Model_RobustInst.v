(* C03 - the abstracted value decoders of Model_Robust instantiated with the models that exist:
     capabilities        Model_Open.parse_cap                      (C07)
     path attributes     Model_Update.unpack_value                 (C02/C08): ORIGIN, AS_PATH, NEXT_HOP, MED, LOCAL_PREF,
                         ATOMIC_AGGREGATE, AGGREGATOR, COMMUNITY, ORIGINATOR_ID, CLUSTER_LIST, MP_REACH_NLRI and
                         MP_UNREACH_NLRI (framing), EXTENDED_COMMUNITY (v4, v6), AS4_PATH, AS4_AGGREGATOR, LARGE_COMMUNITY
     AIGP                modelled here: AIGPBase.from_packet (bgp/message/update/attribute/aigp.py), with a step counter
   What stays abstract (`opq`): the value decoders of PMSI (22), TUNNEL_ENCAP (23), BGP-LS (29), PREFIX_SID (40).
   No proofs in this file. *)
From Coq Require Import ZArith Bool List.
From ExaV Require Import gen.Gen_ParseShape model.Model_Robust.
From ExaV Require model.Model_Open model.Model_Update.
Import ListNotations.
Open Scope Z_scope.

(* ------------------------------------------------------------------ capabilities *)

(* Capability.unpack(code, capabilities, value): None = an object, Some = Notify *)
Definition capv_open (c : Z) (d : bytes) : option (Z * Z) :=
  match ExaV.model.Model_Open.parse_cap c d with
  | ExaV.model.Model_Open.Ok _ => None
  | ExaV.model.Model_Open.Notify a b => Some (a, b)
  end.

(* ------------------------------------------------------------------ AIGP *)

(* AIGPBase.from_packet: `while offset < len(data)`: header of 3 octets (type, length counting the header), a
   length below 3 or past the end is a ValueError, the AIGP TLV (type 1) must be 11 octets long and only the first
   one is kept, every TLV is stepped over.  (found, steps): found = the AIGP TLV was met (False at the end is the
   ValueError "no AIGP TLV"); None = ValueError inside the loop *)
Fixpoint aigp_f (fuel : nat) (found : bool) (d : bytes) : option bool * nat :=
  match d with
  | [] => (Some found, O)
  | _ =>
    match fuel with
    | O => (None, O)
    | S k =>
      match d with
      | t :: h :: l :: _ =>
          let n := h * 256 + l in
          if n <? AIGP_TLV_HDR then (None, 1%nat)
          else if len d <? n then (None, 1%nat)
          else if (t =? AIGP_TLV_TYPE) && negb (n =? AIGP_TLV_LENGTH) then (None, 1%nat)
          else
            let r := aigp_f k (found || (t =? AIGP_TLV_TYPE)) (skipn (Z.to_nat n) d) in
            (fst r, S (snd r))
      | _ => (None, 1%nat)             (* len(data) - offset < 3 *)
      end
    end
  end.

Definition aigp_walk (d : bytes) : option bool * nat := aigp_f (length d) false d.

(* AIGP.unpack_attribute(data, negotiated): a Discard object when the session has no aigp *)
Definition vdec_aigp (aigp_on : bool) (v : bytes) : vres :=
  if negb aigp_on then VDiscarded
  else match fst (aigp_walk v) with
       | Some true => VOk
       | _ => VIndexValue
       end.

(* ------------------------------------------------------------------ path attributes *)

Definition K_LOOKUP : Z := 5.    (* KeyError out of MPRNLRI.unpack_attribute (Family.size lookup) *)

Definition conv (r : ExaV.model.Model_Update.vres) : vres :=
  match r with
  | ExaV.model.Model_Update.VOk _ => VOk
  | ExaV.model.Model_Update.VPseudoDiscard => VDiscarded
  | ExaV.model.Model_Update.VValueError => VIndexValue
  | ExaV.model.Model_Update.VNotify c s => VNotify c s
  | ExaV.model.Model_Update.VOther => VOther K_LOOKUP
  end.

Definition opaque_aids : list Z := [22; 23; 29; 40].
Definition A_AIGP : Z := 26.

(* Attribute.unpack(aid, flag, value, negotiated) for every registered code; `opq` = the four opaque decoders *)
Definition vdec_full (opq : Z -> bytes -> vres) (s : ExaV.model.Model_Update.sess) (aigp_on : bool)
  (flag aid : Z) (v : bytes) : vres :=
  if aid =? A_AIGP then vdec_aigp aigp_on v
  else if mem aid opaque_aids then opq aid v
  else conv (ExaV.model.Model_Update.unpack_value true (fun _ _ => ExaV.model.Model_Update.VOther) s aid (len v) v).
