(* Model of rib/outgoing.py (OutgoingRIB) + rib/cache.py (Cache), with the peer's table and the
   operator's intended table as ghost state.  Routes are abstract: (index, family, attribute
   index, next-hop index).  Dictionaries are insertion-ordered association lists (lib/Amap). *)
From Coq Require Import ZArith Bool List.
From ExaV Require Import lib.Amap.
Import ListNotations.
Open Scope Z_scope.

Record route := { ridx : Z; rfam : Z; rattr : Z; rnh : Z }.

Definition rval (r : route) : Z * Z := (rattr r, rnh r).

(* what the update generator yields *)
Inductive upd :=
| URefStart (fam : Z) | URefEnd (fam : Z)
| URef (r : route)                (* re-announcement for route refresh / flush *)
| UWd (idx : Z)                   (* withdraw of one NLRI *)
| UAnn (r : route).               (* announce (grouped UPDATEs are flattened by the harness) *)

Record rib := {
  cache_on : bool;
  new_nlri : amap Z route;                       (* _new_nlri[route index] *)
  new_attr : amap Z (amap Z route);              (* _new_attr_af_nlri[attr][family][route index]; the family
                                                    level is flattened: a route index includes its family *)
  pend_w : amap Z unit;                          (* _pending_withdraws[family][nlri index] *)
  seen : amap Z route;                           (* Cache._seen[family][route index] *)
  refresh_fams : list Z;
  refresh_routes : list route;
  gen : list upd                                 (* what the live updates() generator still has to yield *)
}.

Definition get_bucket (a : Z) (m : amap Z (amap Z route)) : amap Z route :=
  match aget Z.eqb a m with Some b => b | None => [] end.

(* attr_af_nlri.setdefault(attr, {}).setdefault(family, {})[index] = route *)
Definition bucket_set (x : route) (m : amap Z (amap Z route)) :=
  aset Z.eqb (rattr x) (aset Z.eqb (ridx x) x (get_bucket (rattr x) m)) m.

(* for every attribute set (except `keep`): per_family.get(family, {}).pop(index, None) *)
Definition purge (i : Z) (keep : option Z) (m : amap Z (amap Z route)) : amap Z (amap Z route) :=
  map (fun ab => match keep with
                 | Some a => if fst ab =? a then ab else (fst ab, apop Z.eqb i (snd ab))
                 | None => (fst ab, apop Z.eqb i (snd ab))
                 end) m.

Definition in_cache (s : rib) (x : route) : bool :=
  cache_on s &&
  match aget Z.eqb (ridx x) (seen s) with
  | Some c => (rattr c =? rattr x) && (rnh c =? rnh x)
  | None => false
  end.

(* OutgoingRIB._update_rib: an announce replaced before being sent stays queued under its own
   attributes (both are sent); when the route goes back to an attribute set that is already queued
   the entries queued under the other attribute sets are removed, they would be sent after it *)
Definition update_rib (s : rib) (x : route) : rib :=
  let na := match aget Z.eqb (ridx x) (new_nlri s) with
            | Some p => if amem Z.eqb (rattr x) (new_attr s) && negb (rattr p =? rattr x)
                        then purge (ridx x) (Some (rattr x)) (new_attr s)
                        else new_attr s
            | None => new_attr s
            end in
  {| cache_on := cache_on s;
     new_nlri := aset Z.eqb (ridx x) x (new_nlri s);
     new_attr := bucket_set x na;
     pend_w := pend_w s;
     seen := if cache_on s then aset Z.eqb (ridx x) x (seen s) else seen s;
     refresh_fams := refresh_fams s; refresh_routes := refresh_routes s; gen := gen s |}.

Definition add_to_rib (s : rib) (x : route) (force : bool) : rib :=
  if negb force && in_cache s x then s else update_rib s x.

(* OutgoingRIB._del_from_rib_impl *)
Definition del_from_rib (s : rib) (x : route) : rib :=
  let '(nn, na) := match aget Z.eqb (ridx x) (new_nlri s) with
                   | Some _ => (apop Z.eqb (ridx x) (new_nlri s), purge (ridx x) None (new_attr s))
                   | None => (new_nlri s, new_attr s)
                   end in
  {| cache_on := cache_on s;
     new_nlri := nn; new_attr := na;
     pend_w := aset Z.eqb (ridx x) tt (pend_w s);
     seen := if cache_on s then apop Z.eqb (ridx x) (seen s) else seen s;
     refresh_fams := refresh_fams s;
     refresh_routes := filter (fun c => negb (ridx c =? ridx x)) (refresh_routes s);
     gen := gen s |}.

Definition cached (s : rib) (fams : list Z) : list route :=
  filter (fun r => existsb (Z.eqb (rfam r)) fams) (avalues (seen s)).

(* _refresh_families is a set *)
Definition set_add (acc : list Z) (f : Z) : list Z := if existsb (Z.eqb f) acc then acc else acc ++ [f].

Definition resend (s : rib) (enhanced : bool) (fams : list Z) : rib :=
  {| cache_on := cache_on s; new_nlri := new_nlri s; new_attr := new_attr s; pend_w := pend_w s; seen := seen s;
     refresh_fams := if enhanced then fold_left set_add fams (refresh_fams s) else refresh_fams s;
     refresh_routes := refresh_routes s ++ cached s fams; gen := gen s |}.

Definition withdraw_all (s : rib) (fams : list Z) : rib :=
  fold_left del_from_rib (cached s fams) s.

Definition ann_list (m : amap Z (amap Z route)) : list route := flat_map (fun ab => avalues (snd ab)) m.
Definition ann_part (m : amap Z (amap Z route)) : list upd := map UAnn (ann_list m).

Definition pending_list (s : rib) : list upd :=
  map URef (refresh_routes s) ++ map UWd (akeys (pend_w s)) ++ ann_part (new_attr s).

(* first next() on updates(): snapshot everything, start with empty structures *)
Definition start (s : rib) : rib :=
  {| cache_on := cache_on s; new_nlri := []; new_attr := []; pend_w := []; seen := seen s;
     refresh_fams := []; refresh_routes := [];
     gen := map URefStart (refresh_fams s) ++ map URef (refresh_routes s) ++ map URefEnd (refresh_fams s)
            ++ map UWd (akeys (pend_w s)) ++ ann_part (new_attr s) |}.

(* ---------------------------------------------------------------- the peer and the operator *)

Definition table := amap Z (Z * Z).      (* route index -> (attribute index, next hop index) *)

Definition tdel (k : Z) (t : table) : table := filter (fun kv => negb (fst kv =? k)) t.

Definition papply (t : table) (u : upd) : table :=
  match u with
  | URef x | UAnn x => aset Z.eqb (ridx x) (rval x) t
  | UWd i => tdel i t
  | _ => t
  end.

(* OutgoingRIB.reset(): forget refresh requests, drain updates() and throw the result away; the
    generator of the lost session is abandoned with it *)
Definition reset_rib (s : rib) : rib :=
  {| cache_on := cache_on s; new_nlri := []; new_attr := []; pend_w := []; seen := seen s;
     refresh_fams := []; refresh_routes := []; gen := [] |}.

(* OutgoingRIB.replace_restart(previous=[], new): every cached route is queued again *)
Definition requeue_all (s : rib) : rib :=
  fold_left (fun acc c => add_to_rib acc c true) (avalues (seen s)) s.

(* up: a session is established (the peer table is the table of THAT session);
   fresh: established and no update generator was created yet in this session; the first one is run
   with include_withdraw = False (UpdateCollection.messages then leaves the withdraws out) *)
Record sys := { r : rib; peer : table; intended : table; up : bool; fresh : bool }.

Definition is_wd (u : upd) : bool := match u with UWd _ => true | _ => false end.
Definition drop_wd (g : list upd) : list upd := filter (fun u => negb (is_wd u)) g.

Inductive op :=
| Ann (x : route) | AnnForce (x : route) | Wd (x : route)
| Resend (enhanced : bool) (fams : list Z) | WdAll (fams : list Z)
| Start | Emit
| Drop                 (* session lost: Peer._reset -> neighbor.reset_rib -> OutgoingRIB.reset; the peer forgets everything *)
| Establish.           (* Peer._main: replace_restart([], []) re-queues the whole cache *)

Definition pending (s : rib) : bool :=
  negb (match new_nlri s with [] => true | _ => false end)
  || negb (match refresh_routes s with [] => true | _ => false end)
  || negb (match pend_w s with [] => true | _ => false end).

Definition set_gen (s : rib) (g : list upd) : rib :=
  {| cache_on := cache_on s; new_nlri := new_nlri s; new_attr := new_attr s; pend_w := pend_w s; seen := seen s;
     refresh_fams := refresh_fams s; refresh_routes := refresh_routes s; gen := g |}.

Definition remove_fams (t : table) (victims : list route) : table :=
  fold_left (fun t x => tdel (ridx x) t) victims t.

Definition step (s : sys) (o : op) : sys :=
  match o with
  | Ann x => {| r := add_to_rib (r s) x false; peer := peer s; intended := aset Z.eqb (ridx x) (rval x) (intended s); up := up s; fresh := fresh s |}
  | AnnForce x => {| r := add_to_rib (r s) x true; peer := peer s; intended := aset Z.eqb (ridx x) (rval x) (intended s); up := up s; fresh := fresh s |}
  | Wd x => {| r := del_from_rib (r s) x; peer := peer s; intended := tdel (ridx x) (intended s); up := up s; fresh := fresh s |}
  | Resend e fams => {| r := resend (r s) e fams; peer := peer s; intended := intended s; up := up s; fresh := fresh s |}
  | WdAll fams => {| r := withdraw_all (r s) fams; peer := peer s;
                     intended := remove_fams (intended s) (cached (r s) fams); up := up s; fresh := fresh s |}
  | Start => if up s && pending (r s) then     (* Peer._send_route_updates: only when something is pending *)
             match gen (r s) with
             | [] => if fresh s
                     then {| r := set_gen (start (r s)) (drop_wd (gen (start (r s)))); peer := peer s;
                             intended := intended s; up := true; fresh := false |}
                     else {| r := start (r s); peer := peer s; intended := intended s; up := true; fresh := false |}
             | _ => s            (* a generator is only created when the previous one is exhausted *)
             end else s
  | Emit => if up s then
            match gen (r s) with
            | [] => s
            | u :: g => {| r := set_gen (r s) g; peer := papply (peer s) u; intended := intended s; up := true; fresh := fresh s |}
            end else s
  | Drop => {| r := reset_rib (r s); peer := []; intended := intended s; up := false; fresh := false |}
  | Establish => if up s then s else
                 {| r := requeue_all (r s); peer := peer s; intended := intended s; up := true; fresh := true |}
  end.

Definition rib0 (cache : bool) : rib :=
  {| cache_on := cache; new_nlri := []; new_attr := []; pend_w := []; seen := [];
     refresh_fams := []; refresh_routes := []; gen := [] |}.

Definition sys0 (cache : bool) : sys := {| r := rib0 cache; peer := []; intended := []; up := true; fresh := true |}.

Definition run (ops : list op) (s : sys) : sys := fold_left step ops s.

Definition drained (s : rib) : Prop :=
  gen s = [] /\ new_nlri s = [] /\ pend_w s = [] /\ refresh_routes s = [].

(* observable views used by the correspondence check *)
Definition table_of_seen (s : rib) : table := map (fun kv => (fst kv, rval (snd kv))) (seen s).

(* ---------------------------------------------------------------- flat observation for the harness *)
Definition enc_upd (u : upd) : list Z :=
  match u with
  | URefStart f => [1; f; 0; 0]
  | URefEnd f => [2; f; 0; 0]
  | URef x | UAnn x => [3; ridx x; rattr x; rnh x]
  | UWd i => [4; i; 0; 0]
  end.

Definition enc_table (t : table) : list Z := flat_map (fun kv => [fst kv; fst (snd kv); snd (snd kv)]) t.

(* every time a generator is really started, record what it will yield *)
Fixpoint observe_gens (ops : list op) (s : sys) : list Z * sys :=
  match ops with
  | [] => ([], s)
  | o :: rest =>
    let s' := step s o in
    let here := match o, gen (r s) with
                | Start, [] => if up s && pending (r s) then (-1) :: flat_map enc_upd (gen (r s')) else []
                | _, _ => []
                end in
    let '(more, fin) := observe_gens rest s' in
    (here ++ more, fin)
  end.

Definition observe (cache : bool) (ops : list op) : list Z :=
  let '(gens, fin) := observe_gens ops (sys0 cache) in
  gens ++ (-2) :: enc_table (table_of_seen (r fin)) ++ (-3) :: enc_table (peer fin)
       ++ (-4) :: enc_table (intended fin) ++ (-5) :: [if pending (r fin) then 1 else 0].

(* ---------------------------------------------------------------- watchdogs
   OutgoingRIB._watchdog[name] = {'+': {index: route}, '-': {index: route}}.  Every watchdog operation
   is a sequence of ordinary add_to_rib / del_from_rib calls chosen by that table, so a history with
   watchdog operations is expanded to a history of base operations. *)
Record wdog := { plus : amap Z route; minus : amap Z route }.
Definition wstate := amap Z wdog.

Inductive wop :=
| Base (o : op)
| WAdd (x : route) (name : Z) (withdrawn : bool)   (* add_to_rib_watchdog of a route carrying `watchdog name [withdraw]` *)
| WAnnounce (name : Z)                             (* announce_watchdog *)
| WWithdraw (name : Z).                            (* withdraw_watchdog *)

Definition wget (name : Z) (w : wstate) : wdog :=
  match aget Z.eqb name w with Some d => d | None => {| plus := []; minus := [] |} end.

Definition expand (w : wstate) (o : wop) : list op * wstate :=
  match o with
  | Base b => ([b], w)
  | WAdd x name true =>
      let d := wget name w in
      ([], aset Z.eqb name {| plus := plus d; minus := aset Z.eqb (ridx x) x (minus d) |} w)
  | WAdd x name false =>
      let d := wget name w in
      ([Ann x], aset Z.eqb name {| plus := aset Z.eqb (ridx x) x (plus d); minus := minus d |} w)
  | WAnnounce name =>
      match aget Z.eqb name w with
      | None => ([], w)
      | Some d =>
        (map Ann (avalues (minus d)),
         aset Z.eqb name {| plus := fold_left (fun p x => aset Z.eqb (ridx x) x p) (avalues (minus d)) (plus d);
                            minus := [] |} w)
      end
  | WWithdraw name =>
      match aget Z.eqb name w with
      | None => ([], w)
      | Some d =>
        (map Wd (avalues (plus d)),
         aset Z.eqb name {| plus := [];
                            minus := fold_left (fun p x => aset Z.eqb (ridx x) x p) (avalues (plus d)) (minus d) |} w)
      end
  end.

Fixpoint expand_all (w : wstate) (ops : list wop) : list op :=
  match ops with
  | [] => []
  | o :: rest => let '(l, w') := expand w o in l ++ expand_all w' rest
  end.

Definition wrun (ops : list wop) : sys := run (expand_all [] ops) (sys0 true).
Definition wobserve (cache : bool) (ops : list wop) : list Z := observe cache (expand_all [] ops).

(* ---------------------------------------------------------------- End-of-RIB
   Peer._main: send_eor := True at establishment; after every send opportunity of the loop
   (_send_route_updates, which may create a generator and/or consume it), _send_eor_messages sends the
   markers iff no generator is live and send_eor is still set, and clears it.  The state in which the
   markers go out is recorded. *)
Record esys := { base : sys; eor_due : bool; eor_log : list sys }.

Definition is_send_op (o : op) : bool := match o with Start | Emit => true | _ => false end.

Definition estep (es : esys) (o : op) : esys :=
  let b' := step (base es) o in
  let due := match o with
             | Establish => if up (base es) then eor_due es else true
             | Drop => false
             | _ => eor_due es
             end in
  let fire := due && is_send_op o && up b' && (match gen (r b') with [] => true | _ => false end) in
  {| base := b'; eor_due := due && negb fire; eor_log := if fire then eor_log es ++ [b'] else eor_log es |}.

Definition esys0 (cache : bool) : esys := {| base := sys0 cache; eor_due := true; eor_log := [] |}.
Definition erun (ops : list op) (es : esys) : esys := fold_left estep ops es.

(* nothing is queued for index k *)
Definition quiet (s : rib) (k : Z) : Prop :=
  aget Z.eqb k (new_nlri s) = None /\ ~ In k (akeys (pend_w s)) /\
  (forall x, In x (refresh_routes s) -> ridx x <> k).
