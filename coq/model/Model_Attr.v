(* C01 - executable model of the attribute side of an outgoing UPDATE:
     bgp/message/update/attribute/attribute.py     Attribute._attribute (header, 255/256 switch,
                                                   optional-and-empty attribute omitted)
     .../attribute/{origin,nexthop,med,localpref,atomicaggregate,originatorid,clusterlist}.py
     .../attribute/aspath.py      make_aspath/_segment (255-ASN split), ASPath.pack_attribute
                                  (4-byte form; 2-byte form with AS_TRANS + AS4_PATH)
     .../attribute/aggregator.py  Aggregator.pack_attribute (8 bytes; 6 bytes; AS_TRANS + AS4_AGGREGATOR)
     .../attribute/community/{initial,extended,large}/communities.py  add() = sort (large: no duplicate)
     .../attribute/generic.py     GenericAttribute.pack_attribute (flag and code as written)
     .../attribute/collection.py  AttributeCollection.pack_attribute (defaults, skip table, order)
   Bytes are Z in 0..255.  No proofs in this file.

   An `item` is one entry of the AttributeCollection as configuration/static/parser.py builds it from
   text; values are numbers / byte lists, not yet packed.  Codes are distinct (dict keys). *)
From Coq Require Import ZArith List Bool.
From ExaV Require Import model.Model_Nlri.
Import ListNotations.
Open Scope Z_scope.

(* ------------------------------------------------------------------ session *)

(* what pack_attribute / pack_nlri / messages() read from Negotiated and Neighbor:
   s_las s_pas  negotiated.local_as / peer_as          s_asn4  negotiated.asn4
   s_ap a s     negotiated.addpath.send(afi, safi)     s_msg   negotiated.msg_size
   s_self4/6    neighbor.ip_self(afi) for afi ipv4 / ipv6 (packed) *)
Record sess := mkS {
  s_las : Z; s_pas : Z; s_asn4 : bool; s_ap : Z -> Z -> bool; s_msg : Z;
  s_self4 : list Z; s_self6 : list Z }.

Definition ibgp (s : sess) : bool := s_las s =? s_pas s.

(* ------------------------------------------------------------------ struct.pack *)

Definition be16 (v : Z) : list Z := [(v / 256) mod 256; v mod 256].
Definition be32 (v : Z) : list Z := [(v / 16777216) mod 256; (v / 65536) mod 256; (v / 256) mod 256; v mod 256].
Definition be64 (v : Z) : list Z := be32 (v / 4294967296) ++ be32 (v mod 4294967296).
Definition be96 (v : Z) : list Z := be32 (v / 18446744073709551616) ++ be64 (v mod 18446744073709551616).

(* ------------------------------------------------------------------ Attribute._attribute *)

Definition has_bit (flag bit : Z) : bool := (flag / bit) mod 2 =? 1.
Definition set_bit (flag bit : Z) : Z := if has_bit flag bit then flag else flag + bit.

(* flag byte, code byte, 1- or 2-byte length, value: shared by _attribute and GenericAttribute *)
Definition tlv_raw (flag code : Z) (value : list Z) : list Z :=
  let flag' := if 255 <? zlen value then set_bit flag 16 else flag in
  if has_bit flag' 16 then flag' :: code :: be16 (zlen value) ++ value
  else flag' :: code :: zlen value :: value.

(* Attribute._attribute: an OPTIONAL attribute without value is not sent *)
Definition attr_tlv (flag code : Z) (value : list Z) : list Z :=
  if has_bit flag 128 && is_nil value then [] else tlv_raw flag code value.

(* ------------------------------------------------------------------ requested attributes *)

Inductive item :=
| IOrigin (v : Z)                          (* origin igp|egp|incomplete *)
| IAsPath (segs : list (Z * list Z))       (* as-path: (segment type, ASNs) as written *)
| INextHop (ip : list Z)                   (* next-hop, after resolve_self: 4 or 16 bytes *)
| IMed (v : Z)
| ILocalPref (v : Z)
| IAtomic
| IAggregator (asn : Z) (ip : list Z)
| ICommunity (vs : list Z)                 (* 32-bit values in the order written *)
| IOriginator (ip : list Z)
| ICluster (ids : list Z)                  (* cluster ids as 32-bit values, in the order written *)
| IExtended (vs : list Z)                  (* 64-bit values in the order written *)
| ILarge (vs : list Z)                     (* 96-bit values in the order written *)
| IGeneric (code flag : Z) (data : list Z) (* attribute [ code flag data ] *).

Definition code_of (i : item) : Z :=
  match i with
  | IOrigin _ => 1 | IAsPath _ => 2 | INextHop _ => 3 | IMed _ => 4 | ILocalPref _ => 5 | IAtomic => 6
  | IAggregator _ _ => 7 | ICommunity _ => 8 | IOriginator _ => 9 | ICluster _ => 10
  | IExtended _ => 16 | ILarge _ => 32 | IGeneric c _ _ => c
  end.

(* ------------------------------------------------------------------ AS_PATH *)

Definition AS_TRANS : Z := 23456.

(* ASPath._segment: nothing for an empty segment, 255 ASNs per wire segment *)
Fixpoint seg_split (fuel : nat) (asns : list Z) : list (list Z) :=
  match fuel with
  | O => []
  | S f =>
    match asns with
    | [] => []
    | _ => if (255 <? length asns)%nat then firstn 255 asns :: seg_split f (skipn 255 asns) else [asns]
    end
  end.

(* the segments the stored bytes hold (= ASPath.aspath read back from _packed) *)
Definition path_segments (segs : list (Z * list Z)) : list (Z * list Z) :=
  flat_map (fun sg => map (fun chunk => (fst sg, chunk)) (seg_split (length (snd sg)) (snd sg))) segs.

Definition pack_asn (asn4 : bool) (v : Z) : list Z := if asn4 then be32 v else be16 v.

Definition pack_seg (asn4 : bool) (sg : Z * list Z) : list Z :=
  fst sg :: zlen (snd sg) :: flat_map (pack_asn asn4) (snd sg).

Definition pack_segs (asn4 : bool) (l : list (Z * list Z)) : list Z := flat_map (pack_seg asn4) l.

Definition trans (v : Z) : Z := if 65535 <? v then AS_TRANS else v.
Definition has_large (l : list (Z * list Z)) : bool := existsb (fun sg => existsb (fun v => 65535 <? v) (snd sg)) l.

(* ASPath.pack_attribute *)
Definition pack_aspath (asn4 : bool) (segs : list (Z * list Z)) : list Z :=
  let stored := path_segments segs in
  if asn4 then attr_tlv 64 2 (pack_segs true stored)
  else attr_tlv 64 2 (pack_segs false (map (fun sg => (fst sg, map trans (snd sg))) stored))
       ++ (if has_large stored then attr_tlv 192 17 (pack_segs true stored) else []).

(* ------------------------------------------------------------------ AGGREGATOR *)

Definition pack_aggregator (asn4 : bool) (asn : Z) (ip : list Z) : list Z :=
  if asn4 then attr_tlv 192 7 (be32 asn ++ ip)
  else if 65535 <? asn then attr_tlv 192 7 (be16 AS_TRANS ++ ip) ++ attr_tlv 192 18 (be32 asn ++ ip)
  else attr_tlv 192 7 (be16 asn ++ ip).

(* ------------------------------------------------------------------ communities *)

(* list.sort() of fixed-width big-endian byte strings = numeric order *)
Fixpoint ins (x : Z) (l : list Z) : list Z :=
  match l with [] => [x] | y :: r => if x <? y then x :: l else y :: ins x r end.
Definition csort (l : list Z) : list Z := fold_left (fun acc x => ins x acc) l [].

(* LargeCommunities: `if lc in large_communities.communities: continue` *)
Definition csort_nodup (l : list Z) : list Z :=
  fold_left (fun acc x => if existsb (Z.eqb x) acc then acc else ins x acc) l [].

(* ------------------------------------------------------------------ one attribute *)

Definition pack_item (s : sess) (i : item) : list Z :=
  match i with
  | IOrigin v => attr_tlv 64 1 [v]
  | IAsPath segs => pack_aspath (s_asn4 s) segs
  | INextHop ip => attr_tlv 64 3 ip
  | IMed v => attr_tlv 128 4 (be32 v)
  | ILocalPref v => attr_tlv 64 5 (be32 v)
  | IAtomic => attr_tlv 64 6 []
  | IAggregator asn ip => pack_aggregator (s_asn4 s) asn ip
  | ICommunity vs => attr_tlv 192 8 (flat_map be32 (csort vs))
  | IOriginator ip => attr_tlv 128 9 ip
  | ICluster ids => attr_tlv 128 10 (flat_map be32 ids)
  | IExtended vs => attr_tlv 192 16 (flat_map be64 (csort vs))
  | ILarge vs => attr_tlv 192 32 (flat_map be96 (csort_nodup vs))
  | IGeneric c f d => tlv_raw f c d
  end.

(* ------------------------------------------------------------------ AttributeCollection.pack_attribute *)

Definition has_code (c : Z) (items : list item) : bool := existsb (fun i => code_of i =? c) items.

(* the `default` table: ORIGIN IGP; AS_PATH empty / ( local_as ); LOCAL_PREF 100 on iBGP, NOTHING on eBGP *)
Definition defaults (s : sess) (items : list item) : list item :=
  (if has_code 1 items then [] else [IOrigin 0])
  ++ (if has_code 2 items then [] else [IAsPath (if ibgp s then [] else [(2, [s_las s])])])
  ++ (if has_code 5 items then [] else if ibgp s then [ILocalPref 100] else []).

(* the `skip` table (by code): NEXT_HOP unless 4 bytes; LOCAL_PREF on eBGP *)
Definition skipped (s : sess) (i : item) : bool :=
  match i with
  | INextHop ip => negb (length ip =? 4)%nat
  | _ => (code_of i =? 5) && negb (ibgp s)
  end.

(* sorted(alls) *)
Fixpoint ins_item (x : item) (l : list item) : list item :=
  match l with [] => [x] | y :: r => if code_of x <? code_of y then x :: l else y :: ins_item x r end.
Definition sort_items (l : list item) : list item := fold_left (fun acc x => ins_item x acc) l [].

(* what is sent, in order *)
Definition sent_items (s : sess) (items : list item) : list item :=
  sort_items (filter (fun i => negb (skipped s i)) (items ++ defaults s items)).

(* with_default = False: `alls` is empty, nothing at all is packed *)
Definition pack_attrs (s : sess) (with_default : bool) (items : list item) : list Z :=
  if with_default then flat_map (pack_item s) (sent_items s items) else [].
