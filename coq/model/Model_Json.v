(* C13 - executable model of how ExaBGP embeds peer-chosen strings in API events.

   Characters are Unicode code points (Z).  What is modelled (source read line by line):
   * `escape`      = the body of json.dumps(str) with ensure_ascii=True, which is what
                     JSON._string (reactor/api/response/json.py:76), AttributeCollection._generate_json
                     (json.dumps at collection.py:161,184,186,198,209), HostName.json, Software.json, NodeName.json ...
                     apply to every peer-chosen text before it is put between quotes;
   * `oneline`     = reactor/api/response/text.py:28 (the text encoder's cleaning function): a character is kept
                     when str.isprintable() holds (ASCII: exactly 32..126; above ASCII: the Unicode database,
                     a function parameter here, instantiated by the regenerated Latin-1 table), otherwise
                     replaced by repr(character)[1:-1];
   * the envelope combinators: `"k": v` pairs joined by ", " (JSON._kv / _minimalkv), objects written as
     "{ " ++ members ++ " }" (JSON._header, _neighbor, notification, open, negotiated ...), string, integer and
     boolean values as JSON._string renders them;
   * `ascii_encodable` = the step `bytes(f'{string}\n', 'ascii')` of Processes.write (processes.py:731,852);
   * `wf_json`     = a strict RFC 8259 recogniser (one value, legal escapes only, no raw control character in a
                     string, objects, arrays, numbers, literals), written as a pushdown automaton folded over
                     the text (structural recursion: its fuel is the length of the input);
   * duplicate-key detection for one object level (`dup_free` over the keys of the members).
   NOT modelled: the bodies of the per-class json()/__str__ methods (NLRI, attribute, capability, BGP-LS TLV
   classes): they are fragments here, covered by harness/c13.py only. *)

From Coq Require Import ZArith List Bool.
Import ListNotations.
Open Scope Z_scope.

(* ------------------------------------------------------------------ characters *)

Definition hexdigit (n : Z) : Z := let d := n mod 16 in if d <? 10 then 48 + d else 87 + d.
Definition hex2 (n : Z) : list Z := [hexdigit (n / 16); hexdigit n].
Definition hex4 (n : Z) : list Z := [hexdigit (n / 4096); hexdigit (n / 256); hexdigit (n / 16); hexdigit n].
Definition hex8 (n : Z) : list Z := hex4 (n / 65536) ++ hex4 n.

Definition printable_ascii (c : Z) : bool := (32 <=? c) && (c <=? 126).

(* ------------------------------------------------------------------ json.dumps(text)[1:-1], ensure_ascii *)

Definition uesc (n : Z) : list Z := [92; 117] ++ hex4 n.

Definition escape_char (c : Z) : list Z :=
  if c =? 34 then [92; 34]
  else if c =? 92 then [92; 92]
  else if c =? 10 then [92; 110]
  else if c =? 13 then [92; 114]
  else if c =? 9 then [92; 116]
  else if c =? 8 then [92; 98]
  else if c =? 12 then [92; 102]
  else if printable_ascii c then [c]
  else if c <? 65536 then uesc c
  else let v := c - 65536 in uesc (55296 + (v / 1024) mod 1024) ++ uesc (56320 + v mod 1024).

Definition escape (s : list Z) : list Z := flat_map escape_char s.

Definition json_string (s : list Z) : list Z := [34] ++ escape s ++ [34].

(* ------------------------------------------------------------------ text.py oneline *)

Definition oneline_char (pr : Z -> bool) (c : Z) : list Z :=
  if printable_ascii c then [c]
  else if c =? 9 then [92; 116]
  else if c =? 10 then [92; 110]
  else if c =? 13 then [92; 114]
  else if c <? 128 then [92; 120] ++ hex2 c
  else if pr c then [c]
  else if c <? 256 then [92; 120] ++ hex2 c
  else if c <? 65536 then [92; 117] ++ hex4 c
  else [92; 85] ++ hex8 c.

Definition oneline (pr : Z -> bool) (s : list Z) : list Z := flat_map (oneline_char pr) s.

Definition in_table (t : list Z) (c : Z) : bool := existsb (Z.eqb c) t.

(* ------------------------------------------------------------------ Processes.write: bytes(..., 'ascii') *)

Definition ascii_encodable (s : list Z) : bool := forallb (fun c => (0 <=? c) && (c <? 128)) s.

(* ------------------------------------------------------------------ numbers and booleans as _string prints them *)

Fixpoint dec_fuel (fuel : nat) (n : Z) (acc : list Z) : list Z :=
  match fuel with
  | O => acc
  | S f => if n <? 10 then (48 + n) :: acc else dec_fuel f (n / 10) ((48 + n mod 10) :: acc)
  end.

Definition dec_nat (n : Z) : list Z := dec_fuel (S (Z.to_nat (Z.log2 n))) n [].

Definition json_int (n : Z) : list Z := if n <? 0 then 45 :: dec_nat (- n) else dec_nat n.

Definition json_bool (b : bool) : list Z := if b then [116; 114; 117; 101] else [102; 97; 108; 115; 101].

(* ------------------------------------------------------------------ envelope combinators *)

Fixpoint join (sep : list Z) (l : list (list Z)) : list Z :=
  match l with
  | [] => []
  | [x] => x
  | x :: r => x ++ sep ++ join sep r
  end.

(* f'"{k}": {v}' *)
Definition kv_pair (k v : list Z) : list Z := [34] ++ k ++ [34; 58; 32] ++ v.

(* ', '.join(...) *)
Definition members_join (ms : list (list Z)) : list Z := join [44; 32] ms.

(* f'{{ {content} }}' *)
Definition obj_of_members (ms : list (list Z)) : list Z := [123; 32] ++ members_join ms ++ [32; 125].

(* JSON._kv over already rendered values, then wrapped *)
Definition json_object (kvs : list (list Z * list Z)) : list Z :=
  obj_of_members (map (fun kv => kv_pair (fst kv) (snd kv)) kvs).

(* keys are interpolated verbatim by the code: they must not need escaping *)
Definition safe_key (k : list Z) : bool :=
  forallb (fun c => printable_ascii c && negb (c =? 34) && negb (c =? 92)) k.

(* the key of a member rendered by kv_pair: text between the first two quotes *)
Fixpoint upto_quote (s : list Z) : option (list Z) :=
  match s with
  | [] => None
  | c :: r => if c =? 34 then Some [] else match upto_quote r with Some k => Some (c :: k) | None => None end
  end.

Definition member_key (m : list Z) : option (list Z) :=
  match m with
  | 34 :: r => upto_quote r
  | _ => None
  end.

Fixpoint list_eqb (a b : list Z) : bool :=
  match a, b with
  | [], [] => true
  | x :: a', y :: b' => (x =? y) && list_eqb a' b'
  | _, _ => false
  end.

Fixpoint dup_free (ks : list (list Z)) : bool :=
  match ks with
  | [] => true
  | k :: r => negb (existsb (list_eqb k) r) && dup_free r
  end.

(* ------------------------------------------------------------------ strict JSON recogniser (RFC 8259) *)

Inductive nmode := NMinus | NZero | NInt | NDot | NFrac | NE | NESign | NExp.

Definition nterm (n : nmode) : bool :=
  match n with NZero | NInt | NFrac | NExp => true | _ => false end.

Inductive mode :=
| MVal                       (* a value is expected *)
| MValOrClose                (* just after '[' *)
| MKeyOrClose                (* just after '{' *)
| MKey                       (* after ',' inside an object *)
| MColon                     (* after a key *)
| MAfter                     (* after a complete value *)
| MStr (key : bool)          (* inside a string *)
| MEsc (key : bool)          (* after a backslash *)
| MHex (key : bool) (n : nat) (* inside \uXXXX, n digits still expected *)
| MLit (rest : list Z)       (* inside true / false / null *)
| MNum (n : nmode).

Definition state := (list bool * mode)%type.   (* stack: true = object, false = array *)

Definition is_ws (c : Z) : bool := (c =? 32) || (c =? 9) || (c =? 10) || (c =? 13).
Definition is_digit (c : Z) : bool := (48 <=? c) && (c <=? 57).
Definition is_hex (c : Z) : bool :=
  is_digit c || ((65 <=? c) && (c <=? 70)) || ((97 <=? c) && (c <=? 102)).
Definition is_exp (c : Z) : bool := (c =? 101) || (c =? 69).
Definition is_simple_escape (c : Z) : bool :=
  (c =? 34) || (c =? 92) || (c =? 47) || (c =? 98) || (c =? 102) || (c =? 110) || (c =? 114) || (c =? 116).

Definition start_value (stk : list bool) (c : Z) : option state :=
  if c =? 34 then Some (stk, MStr false)
  else if c =? 123 then Some (true :: stk, MKeyOrClose)
  else if c =? 91 then Some (false :: stk, MValOrClose)
  else if c =? 116 then Some (stk, MLit [114; 117; 101])
  else if c =? 102 then Some (stk, MLit [97; 108; 115; 101])
  else if c =? 110 then Some (stk, MLit [117; 108; 108])
  else if c =? 45 then Some (stk, MNum NMinus)
  else if c =? 48 then Some (stk, MNum NZero)
  else if is_digit c then Some (stk, MNum NInt)
  else None.

Definition after_value (stk : list bool) (c : Z) : option state :=
  if is_ws c then Some (stk, MAfter)
  else match stk with
       | true :: r => if c =? 44 then Some (stk, MKey) else if c =? 125 then Some (r, MAfter) else None
       | false :: r => if c =? 44 then Some (stk, MVal) else if c =? 93 then Some (r, MAfter) else None
       | [] => None
       end.

Definition step_num (stk : list bool) (n : nmode) (c : Z) : option state :=
  match n with
  | NMinus => if c =? 48 then Some (stk, MNum NZero) else if is_digit c then Some (stk, MNum NInt) else None
  | NZero => if c =? 46 then Some (stk, MNum NDot) else if is_exp c then Some (stk, MNum NE) else after_value stk c
  | NInt => if is_digit c then Some (stk, MNum NInt) else if c =? 46 then Some (stk, MNum NDot)
            else if is_exp c then Some (stk, MNum NE) else after_value stk c
  | NDot => if is_digit c then Some (stk, MNum NFrac) else None
  | NFrac => if is_digit c then Some (stk, MNum NFrac) else if is_exp c then Some (stk, MNum NE) else after_value stk c
  | NE => if (c =? 43) || (c =? 45) then Some (stk, MNum NESign) else if is_digit c then Some (stk, MNum NExp) else None
  | NESign => if is_digit c then Some (stk, MNum NExp) else None
  | NExp => if is_digit c then Some (stk, MNum NExp) else after_value stk c
  end.

Definition step (st : state) (c : Z) : option state :=
  let (stk, m) := st in
  match m with
  | MVal => if is_ws c then Some (stk, MVal) else start_value stk c
  | MValOrClose =>
      if is_ws c then Some (stk, MValOrClose)
      else if c =? 93 then match stk with false :: r => Some (r, MAfter) | _ => None end
      else start_value stk c
  | MKeyOrClose =>
      if is_ws c then Some (stk, MKeyOrClose)
      else if c =? 125 then match stk with true :: r => Some (r, MAfter) | _ => None end
      else if c =? 34 then Some (stk, MStr true) else None
  | MKey => if is_ws c then Some (stk, MKey) else if c =? 34 then Some (stk, MStr true) else None
  | MColon => if is_ws c then Some (stk, MColon) else if c =? 58 then Some (stk, MVal) else None
  | MAfter => after_value stk c
  | MStr k =>
      if c =? 34 then Some (stk, if k then MColon else MAfter)
      else if c =? 92 then Some (stk, MEsc k)
      else if c <? 32 then None
      else Some (stk, MStr k)
  | MEsc k => if is_simple_escape c then Some (stk, MStr k) else if c =? 117 then Some (stk, MHex k 4) else None
  | MHex k n =>
      if is_hex c then match n with S (S n') => Some (stk, MHex k (S n')) | _ => Some (stk, MStr k) end else None
  | MLit rest =>
      match rest with
      | [] => None
      | x :: r => if c =? x then Some (stk, match r with [] => MAfter | _ => MLit r end) else None
      end
  | MNum n => step_num stk n c
  end.

Fixpoint run (st : state) (s : list Z) : option state :=
  match s with
  | [] => Some st
  | c :: r => match step st c with Some st' => run st' r | None => None end
  end.

Definition is_after (m : mode) : bool :=
  match m with MAfter => true | MNum n => nterm n | _ => false end.

Definition wf_json (s : list Z) : bool :=
  match run ([], MVal) s with
  | Some ([], m) => is_after m
  | _ => false
  end.

(* one member `"key" : value` of an object, non empty *)
Definition wf_member (m : list Z) : bool :=
  match run ([true], MKey) m with
  | Some ([true], q) => is_after q
  | _ => false
  end.

Definition single_line (s : list Z) : bool := forallb (fun c => negb ((c =? 10) || (c =? 13))) s.

(* ------------------------------------------------------------------ the attribute object's key names *)

(* names that _generate_json can emit for the codes of a (regenerated) table *)
Definition emitted_names {H : Type} (t : list (Z * H * list Z * bool)) : list (list Z) :=
  map (fun r => match r with (_, _, name, _) => name end)
      (filter (fun r => match r with (_, _, _, e) => e end) t).

(* "attribute-0x": the prefix of the key of a code that has no table entry (collection.py:184,186) *)
Definition generic_prefix : list Z := [97; 116; 116; 114; 105; 98; 117; 116; 101; 45; 48; 120].

Fixpoint is_prefix (p s : list Z) : bool :=
  match p, s with
  | [], _ => true
  | x :: p', y :: s' => (x =? y) && is_prefix p' s'
  | _ :: _, [] => false
  end.

Definition attr_keys_ok {H : Type} (t : list (Z * H * list Z * bool)) : bool :=
  dup_free (emitted_names t)
  && forallb (fun n => safe_key n && negb (is_prefix generic_prefix n)) (emitted_names t).

Definition drop_code {H : Type} (code : Z) (t : list (Z * H * list Z * bool)) : list (Z * H * list Z * bool) :=
  filter (fun r => match r with (c, _, _, _) => negb (c =? code) end) t.
