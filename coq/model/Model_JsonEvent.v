(* C13 - executable model of the event builders of reactor/api/response/json.py:
   JSON._update (grouping of announces by family then next hop, withdraws by family, the attribute object, the
   End-of-RIB and the empty cases, every comma), JSON._neighbor, JSON._header, and the event kinds built from them.
   Per-object fragments (NLRI json, attribute content, negotiated object ...) are parameters: already rendered text.
   Python dicts are association lists with insertion order (setdefault / append semantics). *)

From Coq Require Import ZArith List Bool.
From ExaV Require Import model.Model_Json.
Import ListNotations.
Open Scope Z_scope.

(* ------------------------------------------------------------------ dict.setdefault(k, []).append(v) *)

Fixpoint group_add {V : Type} (k : list Z) (v : V) (g : list (list Z * list V)) : list (list Z * list V) :=
  match g with
  | [] => [(k, [v])]
  | (k', vs) :: r => if list_eqb k k' then (k', vs ++ [v]) :: r else (k', vs) :: group_add k v r
  end.

Definition group {V : Type} (l : list (list Z * V)) : list (list Z * list V) :=
  fold_left (fun g kv => group_add (fst kv) (snd kv) g) l [].

(* ------------------------------------------------------------------ text pieces *)

Definition quoted (s : list Z) : list Z := [34] ++ s ++ [34].

(* '[ ' + ', '.join(items) + ' ]' *)
Definition arr_of (items : list (list Z)) : list Z := [91; 32] ++ join [44; 32] items ++ [32; 93].

(* s[:-2] *)
Definition strip2 (s : list Z) : list Z := firstn (length s - 2) s.

(* ------------------------------------------------------------------ JSON._update *)

Record upd := mkUpd {
  u_eor : option (list Z);                            (* IS_EOR: the `"eor": {...}` member of nlris[0] *)
  u_ann : list (list Z * (list Z * list Z));          (* (family name, (str(nexthop), nlri json)) in message order *)
  u_wd : list (list Z * list Z);                      (* (family name, nlri json) *)
  u_attr : option (list Z)                            (* None: `not update_msg.attributes`; Some: attributes.json(...) *)
}.

(* m += f'"{nexthop_str}": [ ' + ', '.join(...) + ' ], ' *)
Definition nh_item (g : list Z * list (list Z)) : list Z :=
  quoted (fst g) ++ [58; 32] ++ arr_of (snd g) ++ [44; 32].

(* s = f'"{family}": {{ ' + m[:-2] + ' }' *)
Definition fam_add (f : list Z * list (list Z * list Z)) : list Z :=
  quoted (fst f) ++ [58; 32; 123; 32] ++ strip2 (flat_map nh_item (group (snd f))) ++ [32; 125].

(* s = f'"{family}": [ ' + ', '.join(...) + ' ]' *)
Definition fam_remove (f : list Z * list (list Z)) : list Z :=
  quoted (fst f) ++ [58; 32] ++ arr_of (snd f).

Definition k_announce : list Z := [97; 110; 110; 111; 117; 110; 99; 101].
Definition k_withdraw : list Z := [119; 105; 116; 104; 100; 114; 97; 119].
Definition k_attribute : list Z := [97; 116; 116; 114; 105; 98; 117; 116; 101].
Definition k_update : list Z := [117; 112; 100; 97; 116; 101].

Definition braces (content : list Z) : list Z := [123; 32] ++ content ++ [32; 125].

Definition is_nil {A : Type} (l : list A) : bool := match l with [] => true | _ => false end.

Definition update_message (u : upd) : list Z :=
  match u_eor u with
  | Some m => braces m
  | None =>
      let add := map fam_add (group (u_ann u)) in
      let remove := map fam_remove (group (u_wd u)) in
      let s_add := if is_nil add then [] else quoted k_announce ++ [58; 32] ++ braces (join [44; 32] add) in
      let s_sep := if negb (is_nil add) && negb (is_nil remove) then [44; 32] else [] in
      let s_rem := if is_nil remove then [] else quoted k_withdraw ++ [58; 32] ++ braces (join [44; 32] remove) in
      let nlri_str := s_add ++ s_sep ++ s_rem in
      let attributes := match u_attr u with None => [] | Some c => quoted k_attribute ++ [58; 32] ++ braces c end in
      let inner := if is_nil attributes || is_nil nlri_str then attributes ++ nlri_str
                   else attributes ++ [44; 32] ++ nlri_str in
      braces (quoted k_update ++ [58; 32] ++ braces inner)
  end.

(* ------------------------------------------------------------------ JSON._neighbor and JSON._header *)

Record peer := mkPeer {
  p_local : list Z; p_peer : list Z;          (* str(local_address), str(peer_address): interpolated raw *)
  p_las : Z; p_pas : Z;                       (* local / peer AS *)
  p_rid : option (list Z)                     (* router-id, raw *)
}.

Definition k_local : list Z := [108; 111; 99; 97; 108].
Definition k_peer : list Z := [112; 101; 101; 114].
Definition k_address : list Z := [97; 100; 100; 114; 101; 115; 115].
Definition k_asn : list Z := [97; 115; 110].
Definition k_router_id : list Z := [114; 111; 117; 116; 101; 114; 45; 105; 100].
Definition k_direction : list Z := [100; 105; 114; 101; 99; 116; 105; 111; 110].
Definition k_neighbor : list Z := [110; 101; 105; 103; 104; 98; 111; 114].
Definition k_exabgp : list Z := [101; 120; 97; 98; 103; 112].
Definition k_time : list Z := [116; 105; 109; 101].
Definition k_host : list Z := [104; 111; 115; 116].
Definition k_pid : list Z := [112; 105; 100].
Definition k_ppid : list Z := [112; 112; 105; 100].
Definition k_counter : list Z := [99; 111; 117; 110; 116; 101; 114].
Definition k_type : list Z := [116; 121; 112; 101].
Definition k_header : list Z := [104; 101; 97; 100; 101; 114].
Definition k_body : list Z := [98; 111; 100; 121].

(* f'"neighbor": {{ "address": {{ "local": "{l}", "peer": "{p}" }}, "asn": {{ "local": {a}, "peer": {b} }}{rid} {sep1}{dir}{sep2}{content} }}' *)
Definition neighbor_member (p : peer) (direction : option (list Z)) (content : list Z) : list Z :=
  let rid := match p_rid p with Some r => [44; 32] ++ quoted k_router_id ++ [58; 32] ++ quoted r | None => [] end in
  let sep1 := match direction with Some _ => [44; 32] | None => [] end in
  let dir := match direction with Some d => quoted k_direction ++ [58; 32] ++ quoted d | None => [] end in
  let sep2 := if is_nil content then [32] else [44; 32] in
  quoted k_neighbor ++ [58; 32; 123; 32]
  ++ quoted k_address ++ [58; 32; 123; 32] ++ quoted k_local ++ [58; 32] ++ quoted (p_local p) ++ [44; 32]
       ++ quoted k_peer ++ [58; 32] ++ quoted (p_peer p) ++ [32; 125; 44; 32]
  ++ quoted k_asn ++ [58; 32; 123; 32] ++ quoted k_local ++ [58; 32] ++ json_int (p_las p) ++ [44; 32]
       ++ quoted k_peer ++ [58; 32] ++ json_int (p_pas p) ++ [32; 125]
  ++ rid ++ [32] ++ sep1 ++ dir ++ sep2 ++ content ++ [32; 125].

Record env := mkEnv {
  e_version : list Z;      (* raw *)
  e_time : list Z;         (* str(float): a rendered number *)
  e_host : list Z;         (* socket.gethostname(), raw *)
  e_pid : Z; e_ppid : Z
}.

(* JSON._header; counter = Some n when a neighbor is given; header / body = Some hex text when the bytes are not empty *)
Definition header_line (e : env) (counter : option Z) (mtype : list Z) (hdr body : option (list Z)) (content : list Z) : list Z :=
  [123; 32] ++ quoted k_exabgp ++ [58; 32] ++ quoted (e_version e) ++ [44; 32]
  ++ quoted k_time ++ [58; 32] ++ e_time e ++ [44; 32]
  ++ quoted k_host ++ [32; 58; 32] ++ quoted (e_host e) ++ [44; 32]
  ++ quoted k_pid ++ [32; 58; 32] ++ json_int (e_pid e) ++ [44; 32]
  ++ quoted k_ppid ++ [32; 58; 32] ++ json_int (e_ppid e) ++ [44; 32]
  ++ match counter with Some c => quoted k_counter ++ [58; 32] ++ json_int c ++ [44; 32] | None => [] end
  ++ quoted k_type ++ [58; 32] ++ quoted mtype ++ [44; 32]
  ++ match hdr with Some h => quoted k_header ++ [58; 32] ++ quoted h ++ [44; 32] | None => [] end
  ++ match body with Some b => quoted k_body ++ [58; 32] ++ quoted b ++ [44; 32] | None => [] end
  ++ content ++ [32; 125].

(* JSON._kv over rendered values *)
Definition kv_content (kvs : list (list Z * list Z)) : list Z :=
  members_join (map (fun kv => kv_pair (fst kv) (snd kv)) kvs).

(* every event about a neighbor: _header(_neighbor(neighbor, direction, _kv(extra)), header, body, neighbor, type) *)
Definition neighbor_event (e : env) (counter : Z) (mtype : list Z) (hdr body : option (list Z))
                          (p : peer) (direction : option (list Z)) (kvs : list (list Z * list Z)) : list Z :=
  header_line e (Some counter) mtype hdr body (neighbor_member p direction (kv_content kvs)).

(* shutdown: _header(_kv({'notification': 'shutdown'}), b'', b'', None, 'notification') *)
Definition global_event (e : env) (mtype : list Z) (kvs : list (list Z * list Z)) : list Z :=
  header_line e None mtype None None (kv_content kvs).

(* ---- the event kinds (json.py: up, connected, down, fsm, signal, keepalive, notification, update, refresh ...) *)

Definition k_state : list Z := [115; 116; 97; 116; 101].
Definition k_reason : list Z := [114; 101; 97; 115; 111; 110].
Definition k_message : list Z := [109; 101; 115; 115; 97; 103; 101].
Definition k_negotiated : list Z := [110; 101; 103; 111; 116; 105; 97; 116; 101; 100].
Definition k_notification : list Z := [110; 111; 116; 105; 102; 105; 99; 97; 116; 105; 111; 110].
Definition k_code : list Z := [99; 111; 100; 101].
Definition k_subcode : list Z := [115; 117; 98; 99; 111; 100; 101].
Definition k_data : list Z := [100; 97; 116; 97].
Definition t_update : list Z := k_update.
Definition t_state : list Z := k_state.
Definition t_keepalive : list Z := [107; 101; 101; 112; 97; 108; 105; 118; 101].

(* up / connected / fsm: {'state': <our word>} *)
Definition ev_state (e : env) (counter : Z) (mtype : list Z) (p : peer) (word : list Z) : list Z :=
  neighbor_event e counter mtype None None p None [(k_state, json_string word)].

(* down: {'state': 'down', 'reason': reason} *)
Definition ev_down (e : env) (counter : Z) (p : peer) (reason : list Z) : list Z :=
  neighbor_event e counter t_state None None p None
    [(k_state, json_string [100; 111; 119; 110]); (k_reason, json_string reason)].

Definition ev_keepalive (e : env) (counter : Z) (hdr body : option (list Z)) (p : peer) (direction : list Z) : list Z :=
  neighbor_event e counter t_keepalive hdr body p (Some direction) [].

(* notification: {'notification': '{ "code": c, "subcode": s, "data": "0x..", "message": <escaped text> } '} *)
Definition notification_object (code subcode : Z) (hex text : list Z) : list Z :=
  braces (kv_content [(k_code, json_int code); (k_subcode, json_int subcode); (k_data, json_string hex); (k_message, json_string text)])
  ++ [32].

Definition ev_notification (e : env) (counter : Z) (hdr body : option (list Z)) (p : peer) (direction : list Z)
                           (code subcode : Z) (hex text : list Z) : list Z :=
  neighbor_event e counter k_notification hdr body p (Some direction)
    [(k_notification, notification_object code subcode hex text)].

(* update: {'message': _update(...)['message'] [, 'negotiated': <fragment>]} *)
Definition ev_update (e : env) (counter : Z) (hdr body : option (list Z)) (p : peer) (direction : list Z)
                     (u : upd) (negotiated : option (list Z)) : list Z :=
  neighbor_event e counter t_update hdr body p (Some direction)
    ((k_message, update_message u) :: match negotiated with Some n => [(k_negotiated, n)] | None => [] end).
