(* The write queue of an API process: Processes.write (async mode) appends one record to a deque, and
   Processes.flush_write_queue hands the deque to os.write on a non-blocking pipe, at most BATCH items per call:
   a complete write drops the item, a partial write puts the rest back IN FRONT and stops, EAGAIN puts the whole
   item back in front and stops, EPIPE / any other OSError deletes the queue and marks the process broken.
   Hand model of reactor/api/processes.py (write, flush_write_queue) over the put-back discipline and the batch size
   that T14 reads from the source, tied by harness/wqueue.py, which runs the real Processes against a scripted os.write.  Used by C05 (up / down order on the API), C13 (every event is written
   as exactly one record) and C14 (replies in command order). *)
From Coq Require Import ZArith List Bool Arith.
From ExaV Require Export gen.Gen_WriteQueue.
Import ListNotations.

Inductive outcome := W (n : nat) | Again | Pipe | Err.

(* BATCH, PARTIAL_FRONT, AGAIN_FRONT: regenerated from flush_write_queue on every run (T14, gen/Gen_WriteQueue.v) *)
Definition put_back (front : bool) (d : list Z) (q : list (list Z)) : list (list Z) :=
  if front then d :: q else q ++ [d].

(* one queue during one flush: (queue, bytes delivered so far, deleted?) , quota left, script left *)
Fixpoint drain (q : list (list Z)) (out : list Z) (budget : nat) (sc : list outcome)
  : (list (list Z) * list Z * bool) * nat * list outcome :=
  match q with
  | [] => ((q, out, false), budget, sc)
  | d :: q' =>
    match budget with
    | O => ((q, out, false), budget, sc)
    | S b =>
      match d with
      | [] => drain q' out b sc                      (* `if not data: continue` : counted, nothing written *)
      | _ :: _ =>
        match sc with
        | [] => ((q, out, false), b, [])              (* the scripted pipe answers EAGAIN once its script is used up *)
        | W n :: sc' =>
            if (length d <=? n)%nat then drain q' (out ++ d) b sc'
            else ((put_back PARTIAL_FRONT (skipn n d) q', out ++ firstn n d, false), b, sc')
        | Again :: sc' => ((put_back AGAIN_FRONT d q', out, false), b, sc')
        | Pipe :: sc' => (([], out, true), b, sc')
        | Err :: sc' => (([], out, true), b, sc')
        end
      end
    end
  end.

Record wq := mkWQ { wq_q : list (list Z); wq_out : list Z; wq_dead : bool }.
Definition wq_init : wq := mkWQ [] [] false.

Inductive op := Enq (m : list Z) | Flush (budget : nat) (sc : list outcome).

Definition step (s : wq) (o : op) : wq :=
  if wq_dead s then s else
  match o with
  | Enq m => mkWQ (wq_q s ++ [m]) (wq_out s) false
  | Flush b sc => let '((q, out, dead), _, _) := drain (wq_q s) (wq_out s) b sc in mkWQ q out dead
  end.

Definition run (ops : list op) : wq := fold_left step ops wq_init.

(* what the helper was meant to read: every record, in the order of the write() calls *)
Fixpoint enqueued (ops : list op) : list Z :=
  match ops with
  | [] => []
  | Enq m :: r => m ++ enqueued r
  | Flush _ _ :: r => enqueued r
  end.

Definition error_free_outcome (o : outcome) : bool := match o with Pipe | Err => false | _ => true end.
Definition error_free (o : op) : bool :=
  match o with Enq _ => true | Flush _ sc => forallb error_free_outcome sc end.

(* observation for the correspondence: delivered bytes, then the queue items, flattened with separators by the harness *)
Definition obs (s : wq) : list Z * list (list Z) * bool := (wq_out s, wq_q s, wq_dead s).

(* the variant a seeded change produced (EAGAIN puts the item back at the END): kept to show the theorem is not vacuous *)
Fixpoint drain_back (q : list (list Z)) (out : list Z) (budget : nat) (sc : list outcome)
  : (list (list Z) * list Z * bool) * nat * list outcome :=
  match q with
  | [] => ((q, out, false), budget, sc)
  | d :: q' =>
    match budget with
    | O => ((q, out, false), budget, sc)
    | S b =>
      match d with
      | [] => drain_back q' out b sc
      | _ :: _ =>
        match sc with
        | [] => ((q, out, false), b, [])
        | W n :: sc' =>
            if (length d <=? n)%nat then drain_back q' (out ++ d) b sc'
            else ((skipn n d :: q', out ++ firstn n d, false), b, sc')
        | Again :: sc' => ((q' ++ [d], out, false), b, sc')
        | Pipe :: sc' => (([], out, true), b, sc')
        | Err :: sc' => (([], out, true), b, sc')
        end
      end
    end
  end.
