(* C16 - executable model of ExaBGP's FlowSpec NLRI code
   (/repo/src/exabgp/bgp/message/update/nlri/flow.py), as it is, including its defects.
   Constants, the component table and the two length tests are regenerated from the source by
   translate/t8_flow.py (gen/Gen_Flow.v).  Only the TYPES op/comp/rule are shared with the spec.

   encode:  Flow._pack_from_rules / IOperation.pack / IOperation*.encode / IPrefix4.pack /
            IPrefix6.pack / Flow._encode_length
   decode:  Flow.unpack_nlri / Flow._parse_rules / Flow._parse_operations / IPrefix4.make /
            IPrefix6.make / CIDR.decode *)
From Coq Require Import ZArith List Bool.
From ExaV Require Import gen.Gen_Flow spec.Spec_Flow.
Import ListNotations.
Open Scope Z_scope.

(* what the configuration parser builds: one entry per `match` line, in text order.
   MPfx: the address as written (4 or 16 octets), mask, offset (0 for IPv4).
   MOps: the operator list of one line: (and bit, operator bits, value). *)
Inductive mcomp :=
| MPfx (ty mask off : Z) (addr : list Z)
| MOps (ty : Z) (ops : list op).
Record mrule := mkMRule { m_rd : list Z; m_comps : list mcomp }.

Definition mty (c : mcomp) : Z := match c with MPfx t _ _ _ => t | MOps t _ => t end.

Fixpoint lookup (t : Z) (tb : list (Z * (Z * Z))) : option (Z * Z) :=
  match tb with [] => None | (i, kw) :: r => if i =? t then Some kw else lookup t r end.
Definition table (v6 : bool) := if v6 then table6 else table4.
Definition kind (v6 : bool) (t : Z) : Z := match lookup t (table v6) with Some (k, _) => k | None => 0 end.
Definition maxw (v6 : bool) (t : Z) : Z := match lookup t (table v6) with Some (_, w) => w | None => 0 end.

(* ------------------------------------------------------------------------------------ encode *)

(* Flow.rules is a dict id -> list; add() appends; _pack_from_rules walks sorted(keys).  Every key
   is the ID of a class of the table, so walking the (ascending) table is the same walk. *)
Definition pick_pfx (t : Z) (cs : list mcomp) : list mcomp :=
  filter (fun c => match c with MPfx t' _ _ _ => t' =? t | MOps _ _ => false end) cs.
Definition pick_ops (t : Z) (cs : list mcomp) : list op :=
  flat_map (fun c => match c with MOps t' l => if t' =? t then l else [] | MPfx _ _ _ _ => [] end) cs.
Definition group (cs : list mcomp) (e : Z * (Z * Z)) : list mcomp :=
  let '(t, (k, _)) := e in
  if k =? 1 then pick_pfx t cs
  else match pick_ops t cs with [] => [] | l => [MOps t l] end.
Definition canon (v6 : bool) (cs : list mcomp) : list mcomp := flat_map (group cs) (table v6).

(* CIDR.size: _mask_to_bytes.get(mask, 0), filled for 0..128 *)
Definition size (m : Z) : Z := if (0 <=? m) && (m <=? 128) then (m + 7) / 8 else 0.

(* IOperationByte / ByteShort / ByteShortLong .encode: w is the widest size of the class *)
Definition width (w v : Z) : Z :=
  if w =? 1 then 1 else if v <? 256 then 1 else if w =? 2 then 2 else if v <? 65536 then 2 else 4.
Definition lenbits (n : Z) : Z := if n =? 1 then 0 else if n =? 2 then 1 else if n =? 4 then 2 else 3.
Fixpoint be (n : nat) (v : Z) : list Z :=
  match n with O => [] | S k => (v / 256 ^ Z.of_nat k) mod 256 :: be k v end.

Definition enc_op (eol : bool) (w : Z) (o : op) : list Z :=
  let '(a, nb, v) := o in
  let n := width w v in
  ((if eol then EOL else 0) + AND * a + 16 * lenbits n + nb) :: be (Z.to_nat n) v.
Fixpoint enc_ops (w : Z) (ops : list op) : list Z :=
  match ops with
  | [] => []
  | [o] => enc_op true w o
  | o :: rest => enc_op false w o ++ enc_ops w rest
  end.
Definition enc_comp (v6 : bool) (c : mcomp) : list Z :=
  match c with
  | MPfx t m off addr =>
    if v6 then t :: m :: off :: firstn (Z.to_nat (size m)) addr
    else t :: m :: firstn (Z.to_nat (size m)) addr
  | MOps t ops => t :: enc_ops (maxw v6 t) ops
  end.

(* what Python can put in the bytes: bytes([x]) needs 0 <= x < 256, pack('!H') < 65536, ... *)
Definition valid_op (w : Z) (o : op) : bool :=
  let '(a, nb, v) := o in
  (0 <=? a) && (a <=? 1) && (0 <=? nb) && (nb <? 16) && (0 <=? v) && (v <? 256 ^ width w v).
Definition valid_comp (v6 : bool) (c : mcomp) : bool :=
  match c with
  | MPfx t m off addr =>
    if v6 then (0 <=? m) && (m <=? 128) && (0 <=? off) && (off <=? 255) && (Z.of_nat (length addr) =? 16)
    else (0 <=? m) && (m <=? 255) && (off =? 0) && (Z.of_nat (length addr) =? 4)
  | MOps t ops => forallb (valid_op (maxw v6 t)) ops
  end.

Definition enc_len (body : list Z) : option (list Z) :=
  let n := Z.of_nat (length body) in
  if len_compact n then Some (n :: body)
  else if len_extended n then Some ((LEN_EXT_VALUE + n / 256) :: n mod 256 :: body)
  else None.

Definition enc_body (v6 : bool) (r : mrule) : list Z :=
  m_rd r ++ flat_map (enc_comp v6) (canon v6 (m_comps r)).
Definition valid_rule (v6 : bool) (r : mrule) : bool := forallb (valid_comp v6) (canon v6 (m_comps r)).
(* None = Python raises (ValueError / struct.error out of encode, Notify out of _encode_length) *)
Definition enc_flow (v6 : bool) (r : mrule) : option (list Z) :=
  if valid_rule v6 r then enc_len (enc_body v6 r) else None.

(* ------------------------------------------------------------------------------------ decode *)

Inductive dres :=
| DRaise                                   (* Notify raised out of unpack_nlri *)
| DInvalid (over : list Z)                 (* NLRI.INVALID returned *)
| DOk (r : mrule) (over : list Z).

Definition ltake (n : Z) (l : list Z) : list Z := firstn (Z.to_nat n) l.
Definition ldrop (n : Z) (l : list Z) : list Z := skipn (Z.to_nat n) l.
Definition llen (l : list Z) : Z := Z.of_nat (length l).

(* Flow._parse_operations *)
Fixpoint parse_ops (fuel : nat) (l : list Z) : option (list op * list Z) :=
  match fuel with
  | O => None
  | S f =>
    match l with
    | [] => None
    | b :: l1 =>
      let n := 2 ^ ((b / 16) mod 4) in
      if negb (existsb (Z.eqb n) VALUE_WIDTHS) then None
      else if llen (ltake n l1) =? n then
        let o := ((b / AND) mod 2, b mod 16, be_val 0 (ltake n l1)) in
        if EOL <=? b then Some ([o], ldrop n l1)
        else match parse_ops f (ldrop n l1) with Some (os, r) => Some (o :: os, r) | None => None end
      else None
    end
  end.

(* IPrefix4.make / IPrefix6.make over CIDR.decode *)
Definition parse_prefix (v6 : bool) (t : Z) (l : list Z) : option (mcomp * list Z) :=
  if v6 then
    match l with
    | m :: off :: l2 =>
      if 128 <? m then None
      else if llen l2 + 1 <? size m + 1 then None
      else Some (MPfx t m off (ltake (size m) l2), ldrop (size m) l2)
    | _ => None
    end
  else
    match l with
    | m :: l1 =>
      if 32 <? m then None
      else if llen l <? size m + 1 then None
      else Some (MPfx t m 0 (ltake (size m) l1), ldrop (size m) l1)
    | [] => None
    end.

(* Flow._parse_rules *)
Fixpoint parse_comps (fuel : nat) (v6 : bool) (l : list Z) : option (list mcomp) :=
  match l with
  | [] => Some []
  | t :: l1 =>
    match fuel with
    | O => None
    | S f =>
      if kind v6 t =? 0 then None
      else if kind v6 t =? 1 then
        match parse_prefix v6 t l1 with
        | Some (c, l2) => option_map (cons c) (parse_comps f v6 l2)
        | None => None
        end
      else
        match parse_ops (length l1) l1 with
        | Some (os, l2) => option_map (cons (MOps t os)) (parse_comps f v6 l2)
        | None => None
        end
    end
  end.

(* Flow.unpack_nlri *)
Definition dec_body (v6 vpn : bool) (len : Z) (d : list Z) : dres :=
  if llen d <? len then DRaise
  else
    let body := ltake len d in
    let over := ldrop len d in
    let has_rd := vpn && (RD_LEN <=? llen body) in
    let rd := if has_rd then ltake RD_LEN body else [] in
    let cs := if has_rd then ldrop RD_LEN body else body in
    match parse_comps (length cs) v6 cs with
    | Some comps => DOk (mkMRule rd comps) over
    | None => DInvalid over
    end.
Definition dec_flow (v6 vpn : bool) (data : list Z) : dres :=
  match data with
  | [] => DRaise
  | l0 :: d1 =>
    if (l0 / 16) * 16 =? LEN_EXT_VALUE then   (* length & 0xF0 == 0xF0 *)
      match d1 with
      | [] => DRaise
      | e :: d2 => dec_body v6 vpn ((l0 mod 16) * 2 ^ LEN_EXT_SHIFT + e) d2
      end
    else dec_body v6 vpn l0 d1
  end.

(* what json()/extensive() and Flow.rules show: the dict view of the parsed components *)
Definition view (v6 : bool) (r : mrule) : mrule := mkMRule (m_rd r) (canon v6 (m_comps r)).

(* the meaning of a parsed/written component: matched bits as an integer *)
Definition pattern (m off : Z) (bytes : list Z) : Z :=
  let x := be_val 0 (ltake (size m) bytes) / 2 ^ (8 * size m - m) in   (* the first m bits *)
  if off =? 0 then x else x mod 2 ^ (m - off).
Definition abs_comp (c : mcomp) : comp :=
  match c with
  | MPfx t m off a => CPfx t m off (pattern m off a)
  | MOps t l => COps t l
  end.
Definition abs_rule (r : mrule) : rule := mkRule (m_rd r) (map abs_comp (m_comps r)).
Definition normal (v6 : bool) (r : mrule) : rule := abs_rule (view v6 r).

(* ------------------------------------------------------------------------------------ actions *)
(* community/extended/traffic.py make_* : pack('!BBHf'), '!BBLBB', '!BBHL', '!BBLH' *)
Definition p_B (v : Z) : list Z := [v].
Definition p_H (v : Z) : list Z := [v / 256 mod 256; v mod 256].
Definition p_L (v : Z) : list Z := [v / 16777216 mod 256; v / 65536 mod 256; v / 256 mod 256; v mod 256].
Definition enc_action (a : action) : list Z :=
  match a with
  | ARateBytes asn f => p_B 128 ++ p_B 6 ++ p_H asn ++ p_L f
  | ARatePackets asn f => p_B 128 ++ p_B 12 ++ p_H asn ++ p_L f
  | AAction s t => p_B 128 ++ p_B 7 ++ p_L 0 ++ p_B 0 ++ p_B ((if s then 2 else 0) + (if t then 1 else 0))
  | ARedirect2 asn nn => p_B 128 ++ p_B 8 ++ p_H asn ++ p_L nn
  | ARedirect4 asn nn => p_B 130 ++ p_B 8 ++ p_L asn ++ p_H nn
  | AMark d => p_B 128 ++ p_B 9 ++ p_L 0 ++ p_B 0 ++ p_B d
  end.
