(* Hand model of the healthcheck loop: the rise/fall automaton (tied to the regenerated
   Gen_Health.one by Proofs_Health.gen_one_is_hstep) and the announcement lines of exabgp(). *)
From Coq Require Import ZArith Bool List.
From ExaV Require Import gen.Gen_Health.
Import ListNotations.
Open Scope Z_scope.

Inductive hst := INIT | DISABLED | RISING | FALLING | UP | DOWN.

Definition code (s : hst) : Z :=
  match s with INIT => St_INIT | DISABLED => St_DISABLED | RISING => St_RISING
             | FALLING => St_FALLING | UP => St_UP | DOWN => St_DOWN end.

Definition hst_eqb (a b : hst) : bool := code a =? code b.

Record hs := { st : hst; cnt : Z }.

Definition trig (o : opts) (t : hst) : hst :=
  match t with
  | RISING => if rise o <=? 1 then UP else RISING
  | FALLING => if fall o <=? 1 then DOWN else FALLING
  | x => x
  end.

Definition is_disabled (o : opts) (fe : bool) : bool := negb (disable_code o =? -1) && fe.

Definition hnext (o : opts) (fe ck : bool) (s : hs) : hs :=
  let disabled := is_disabled o fe in
  let ok := disabled || ck in
  match st s with
  | DISABLED => if disabled then s else {| st := INIT; cnt := cnt s |}
  | _ =>
    if disabled then {| st := DISABLED; cnt := cnt s |} else
    match st s with
    | INIT => if ok && (rise o <=? 1) then {| st := UP; cnt := cnt s |}
              else if ok then {| st := trig o RISING; cnt := 1 |}
              else {| st := trig o FALLING; cnt := 1 |}
    | RISING => if ok then (if cnt s + 1 >=? rise o then {| st := UP; cnt := cnt s + 1 |}
                            else {| st := RISING; cnt := cnt s + 1 |})
                else {| st := trig o FALLING; cnt := 1 |}
    | FALLING => if negb ok then (if cnt s + 1 >=? fall o then {| st := DOWN; cnt := cnt s + 1 |}
                                  else {| st := FALLING; cnt := cnt s + 1 |})
                 else {| st := trig o RISING; cnt := 1 |}
    | UP => if negb ok then {| st := trig o FALLING; cnt := 1 |} else s
    | DOWN => if ok then {| st := trig o RISING; cnt := 1 |} else s
    | DISABLED => s
    end
  end.

(* one iteration: new state and the state handed to exabgp() (None: nothing written, debounce) *)
Definition hstep (o : opts) (fe ck : bool) (s : hs) : hs * option hst :=
  let s' := hnext o fe ck s in
  (s', if negb (debounce o) || negb (hst_eqb (st s') (st s)) then Some (st s') else None).

Definition hinit : hs := {| st := INIT; cnt := 0 |}.

(* history: most recent input first *)
Fixpoint runh (o : opts) (h : list (bool * bool)) : hs :=
  match h with
  | [] => hinit
  | (fe, ck) :: h' => fst (hstep o fe ck (runh o h'))
  end.

Definition outh (o : opts) (h : list (bool * bool)) : option hst :=
  match h with
  | [] => None
  | (fe, ck) :: h' => snd (hstep o fe ck (runh o h'))
  end.

(* outputs in chronological order for an input list in chronological order *)
Fixpoint outs (o : opts) (s : hs) (ins : list (bool * bool)) : list (option hst) :=
  match ins with
  | [] => []
  | (fe, ck) :: r => let (s', out) := hstep o fe ck s in out :: outs o s' r
  end.

(* ---------------------------------------------------------------- exabgp(target): the lines *)

Inductive target := TUp | TDown | TDisabled | TExit | TOther.

Definition target_of (s : hst) : target :=
  match s with UP => TUp | DOWN => TDown | DISABLED => TDisabled | _ => TOther end.

Record lopts := {
  withdraw_on_down : bool;
  up_metric : Z; down_metric : Z; disabled_metric : Z; increase : Z;
  nips : nat
}.

Record line := { announce : bool; ip_index : nat; med : Z }.

Definition base_metric (l : lopts) (t : target) : Z :=
  match t with TUp => up_metric l | TDown => down_metric l | TDisabled => disabled_metric l | _ => 0 end.

Definition is_announce (l : lopts) (t : target) : bool :=
  match t with
  | TUp => true
  | TExit => false
  | _ => negb (withdraw_on_down l)
  end.

Definition lines (l : lopts) (t : target) : list line :=
  match t with
  | TOther => []
  | _ => map (fun i => {| announce := is_announce l t; ip_index := i;
                         med := base_metric l t + Z.of_nat i * increase l |}) (seq 0 (nips l))
  end.
