(* C15 - byte-structured NLRI families and fixed-layout attribute values.
     VPLSBase  (bgp/message/update/nlri/vpls.py)   make_vpls / accessors / unpack_nlri
     RTCBase   (bgp/message/update/nlri/rtc.py)    make_rtc / accessors / unpack_nlri
     EVPN      (bgp/message/update/nlri/evpn/nlri.py) the (type, length, payload) framing of unpack_nlri
     decoders of the attribute values whose encoders are Model_Attr.pack_item / tlv_raw:
       ORIGINATOR_ID, CLUSTER_LIST, AGGREGATOR / AS4_AGGREGATOR, COMMUNITY, EXTENDED_COMMUNITY,
       LARGE_COMMUNITY, and the attribute header (flag, code, one/two octet length)
   The objects are packed-bytes-first: the model value IS the stored byte string, the fields are the
   accessor functions.  No proofs in this file. *)
From Coq Require Import ZArith List Bool.
From ExaV Require Import gen.Gen_NlriRegistry model.Model_Nlri model.Model_Attr.
Import ListNotations.
Open Scope Z_scope.

(* struct.unpack('!H' / '!L') on the first bytes of d *)
Definition rd16 (d : list Z) : Z := nth 0 d 0 * 256 + nth 1 d 0.
Definition rd32 (d : list Z) : Z := nth 0 d 0 * 16777216 + nth 1 d 0 * 65536 + nth 2 d 0 * 256 + nth 3 d 0.

(* ------------------------------------------------------------------ VPLS (RFC 4761 3.2.2) *)

Record vpls := mkV { v_rd : list Z; v_ve : Z; v_off : Z; v_size : Z; v_base : Z }.

(* make_vpls: b'\x00\x11' + rd + pack('!HHH', endpoint, offset, size) + pack('!L', (base << 4) | 1)[1:] *)
Definition make_vpls (v : vpls) : list Z :=
  [0; 17] ++ v_rd v ++ be16 (v_ve v) ++ be16 (v_off v) ++ be16 (v_size v) ++ be24 (v_base v * 16 + 1).

(* the accessors rd / endpoint / offset / block_size / base of a stored 19-byte string *)
Definition vpls_fields (p : list Z) : vpls :=
  mkV (firstn 8 (skipn 2 p)) (rd16 (skipn 10 p)) (rd16 (skipn 12 p)) (rd16 (skipn 14 p)) (rd24 (skipn 16 p) / 16).

(* VPLSBase.unpack_nlri: -> None = Notify(3,10) | Some (stored bytes, rest) *)
Definition unpack_vpls (data : list Z) : option (list Z * list Z) :=
  if (length data <? 2)%nat then None else
  let len := rd16 data in
  if len <? 17 then None else
  if negb (zlen data =? len + 2) then None else
  Some (firstn 2 data ++ firstn 17 (skipn 2 data), skipn (Z.to_nat (2 + len)) data).

Definition vpls_index (p : list Z) : list Z := fam_index 25 65 ++ p.

(* ------------------------------------------------------------------ RTC (RFC 4684) *)

(* RTC.resetFlags: char & ~(TRANSITIVE | OPTIONAL) *)
Definition reset_flags (c : Z) : Z := c mod 64.

(* make_rtc(origin, rt): rt = None is the wildcard *)
Definition make_rtc (origin : Z) (rt : option (list Z)) : list Z :=
  match rt with
  | Some (r0 :: r) => 96 :: be32 origin ++ reset_flags r0 :: r
  | _ => [0]
  end.

Definition rtc_origin (p : list Z) : Z := if (length p <? 5)%nat then 0 else rd32 (skipn 1 p).
Definition rtc_rt (p : list Z) : option (list Z) := if (length p <? 13)%nat then None else Some (firstn 8 (skipn 5 p)).

(* octets an RTC NLRI of prefix length `len` bits takes on the wire: the length octet + ceil(len / 8) (RFC 4684 4) *)
Definition rtc_size (len : Z) : Z := 1 + (len + 7) / 8.

(* RTCBase.unpack_nlri: length 0 is the wildcard; 32..96 bits take rtc_size octets; the prefix is stored zero
   padded to the 13-octet form [length][origin 4][route target 8] with the two flag bits of the route target
   type octet reset.  -> None = Notify(3,10) | Some (stored bytes, rest) *)
Definition unpack_rtc (data : list Z) : option (list Z * list Z) :=
  match data with
  | [] => None
  | len :: d =>
    if len =? 0 then Some ([len], skipn 1 data) else
    if (len <? 32) || (96 <? len) then None else
    let size := rtc_size len in
    if zlen data <? size then None else
    let value := firstn (Z.to_nat (size - 1)) d ++ repeat 0 (Z.to_nat (13 - size)) in
    Some (len :: firstn 4 value ++ reset_flags (nth 4 value 0) :: firstn 7 (skipn 5 value), skipn (Z.to_nat size) data)
  end.

(* RTCBase.pack_nlri: only the octets the prefix covers go on the wire *)
Definition pack_rtc (p : list Z) : list Z := firstn (Z.to_nat (rtc_size (nth 0 p 0))) p.

Definition rtc_index (p : list Z) : list Z := fam_index 1 132 ++ p.

(* ------------------------------------------------------------------ EVPN framing (RFC 7432 7) *)

(* [route type][length][payload]; -> None = Notify(3,10) | Some (stored bytes, rest).  The route-type
   specific checks of the registered types come after this and are not modelled. *)
Definition unpack_evpn_frame (data : list Z) : option (list Z * list Z) :=
  if (length data <? 2)%nat then None else
  let total := 2 + nth 1 data 0 in
  if zlen data <? total then None else
  Some (firstn (Z.to_nat total) data, skipn (Z.to_nat total) data).

Definition pack_evpn (code : Z) (payload : list Z) : list Z := code :: zlen payload :: payload.

(* ------------------------------------------------------------------ attribute header *)

(* the (flag, code, length) walk of AttributeCollection.parse: -> Some (flag, code, value, rest) *)
Definition dec_tlv (d : list Z) : option (Z * Z * list Z * list Z) :=
  match d with
  | flag :: code :: d1 =>
    if has_bit flag 16 then
      (if (length d1 <? 2)%nat then None else
       let len := rd16 d1 in
       if zlen (skipn 2 d1) <? len then None
       else Some (flag, code, firstn (Z.to_nat len) (skipn 2 d1), skipn (Z.to_nat len) (skipn 2 d1)))
    else
      match d1 with
      | [] => None
      | len :: d2 => if zlen d2 <? len then None else Some (flag, code, firstn (Z.to_nat len) d2, skipn (Z.to_nat len) d2)
      end
  | _ => None
  end.

(* ------------------------------------------------------------------ fixed-width value lists *)

Definition bnum (l : list Z) : Z := fold_left (fun a b => a * 256 + b) l 0.

(* a value made of w-octet big-endian numbers: COMMUNITY / CLUSTER_LIST (4), EXTENDED_COMMUNITY (8),
   LARGE_COMMUNITY (12).  None when the length is not a multiple of w (treat-as-withdraw / Notify). *)
Fixpoint dec_nums (fuel : nat) (w : nat) (d : list Z) : option (list Z) :=
  match d with
  | [] => Some []
  | _ :: _ =>
    match fuel with
    | O => None
    | S f =>
      if (length d <? w)%nat then None else
      match dec_nums f w (skipn w d) with
      | None => None
      | Some r => Some (bnum (firstn w d) :: r)
      end
    end
  end.

Definition dec_community (v : list Z) : option (list Z) := dec_nums (length v) 4 v.
Definition dec_cluster (v : list Z) : option (list Z) := dec_nums (length v) 4 v.
Definition dec_extended (v : list Z) : option (list Z) := dec_nums (length v) 8 v.
Definition dec_large (v : list Z) : option (list Z) := dec_nums (length v) 12 v.

(* ORIGINATOR_ID: exactly four octets *)
Definition dec_originator (v : list Z) : option (list Z) := if (length v =? 4)%nat then Some v else None.

(* Aggregator.from_packet(data, negotiated.asn4): 8 octets on a 4-byte session, 6 on a 2-byte session,
   anything else is refused; AS4_AGGREGATOR is the asn4 = true case.  -> (asn, speaker address) *)
Definition dec_aggregator (asn4 : bool) (v : list Z) : option (Z * list Z) :=
  if asn4 then (if (length v =? 8)%nat then Some (rd32 v, skipn 4 v) else None)
  else (if (length v =? 6)%nat then Some (rd16 v, skipn 2 v) else None).

(* the value part Model_Attr.pack_aggregator writes for AGGREGATOR *)
Definition enc_aggregator (asn4 : bool) (asn : Z) (ip : list Z) : list Z :=
  if asn4 then be32 asn ++ ip else be16 asn ++ ip.

(* extended community: the transitive bit is 0x40 of the first octet CLEAR (RFC 4360 2) *)
Definition ext_transitive (c : Z) : bool := negb (has_bit (c / 72057594037927936) 64).
