(* C09 - executable model of the packing loops of
     src/exabgp/bgp/message/update/collection.py      UpdateCollection.messages()
     src/exabgp/bgp/message/update/nlri/collection.py MPNLRICollection.packed_reach_attributes()
                                                      MPNLRICollection.packed_unreach_attributes()
   over abstract packed NLRIs.  No proofs here.

   Abstracted (Section variables; each is an external call of the loops, exercised by harness/c09.py):
     sz x      = len(nlri.pack_nlri(negotiated))            the packed NLRI, only its length matters
     nhlen nh  = len(self._encode_nexthop(...))              encoded next hop (RD padding included)
     nheqb     = equality of the encoded next hop bytes     (the dict key of mpnlri.setdefault)
     alen      = len(self.attributes.pack_attribute(negotiated, include_defaults))
   The choice of the attribute block (include_defaults) is modelled by messages_top at the end.
   Not modelled: the sort, the negotiated-family filter and the IPv4/MP classification that precede
   the loops (the inputs below are their results, in the order the loops visit them: v4a, v4w, and
   per family - in the iteration order of all_mp_families - the routed announces and the withdraws);
   the Empty-NLRI attributes-only UPDATE; include_withdraw=False.

   `fixed` selects between the two versions of the code:
     fixed = false : the tree as pinned (defect D12: the NLRI that opens a new message / a new MP
                     fragment is not re-checked; RuntimeError when the first NLRI of an MP attribute
                     does not fit what is left; the last IPv4 message is repeated inside the first
                     MP message)
     fixed = true  : the tree with the proposed patch (see the comments marked PATCH):
                     re-check after each flush, return instead of raise, nothing repeated, the pending
                     MP_REACH sent first when it cannot share a message with the first MP_UNREACH, no
                     attributes-only message when nothing of a family could be packed.
   The theorems (Proofs_Split, Prop_C09) are about fixed = true; the fixed = false instances are the
   machine-checked witnesses of D12. *)
From Coq Require Import ZArith List Bool.
From ExaV Require Import spec.Spec_Split.
Import ListNotations.
Open Scope Z_scope.

Inductive outcome := Done | Stopped (* log.critical + return *) | Raised (* RuntimeError *).
Inductive gstat := GDone | GReturn | GRaise.

Section Split.
  Context {A NH F : Type}.
  Variable sz : A -> Z.
  Variable nhlen : NH -> Z.
  Variable nheqb : NH -> NH -> bool.
  Variable fixed : bool.

  Notation msg := (Spec_Split.msg A NH F).
  Notation lsum := (Spec_Split.lsum sz).

  (* ---------------------------------------------------------------- IPv4 part of messages() *)

  (* prefix(withdraws) + prefix(attr | b'') + announced; accumulators are kept reversed *)
  Definition mk_v4 (rw ra : list A) (with_attr : bool) : msg :=
    Msg (rev rw) None with_attr None (rev ra).

  (* `for nlri in v4_announces` (withdraws is still empty there: withdraws_size = 0).
     B is the local msg_size.  Result: yielded messages, and None when the function returned. *)
  Fixpoint ann_loop (B : Z) (l : list A) (ra : list A) (sa : Z) : list msg * option (list A * Z) :=
    match l with
    | [] => ([], Some (ra, sa))
    | x :: r =>
      if sa + 0 + sz x <=? B then ann_loop B r (x :: ra) (sa + sz x)
      else if sa =? 0 then ([], None)                     (* not withdraws and not announced *)
      else if fixed && (B <? sz x) then ([mk_v4 [] ra true], None)   (* PATCH: re-check, return *)
      else let (ms, f) := ann_loop B r [x] (sz x) in (mk_v4 [] ra true :: ms, f)
    end.

  (* `for nlri in v4_withdraws` *)
  Fixpoint wd_loop (B : Z) (l : list A) (rw : list A) (sw : Z) (ra : list A) (sa : Z)
    : list msg * option (list A * Z * list A * Z) :=
    match l with
    | [] => ([], Some (rw, sw, ra, sa))
    | x :: r =>
      if sa + sw + sz x <=? B then wd_loop B r (x :: rw) (sw + sz x) ra sa
      else if (sw =? 0) && (sa =? 0) then ([], None)
      else
        let m := mk_v4 rw ra (negb (sa =? 0)) in          (* `if announced:` attr else b'' *)
        if fixed && (B <? sz x) then ([m], None)          (* PATCH: re-check, return *)
        else let (ms, f) := wd_loop B r [x] (sz x) [] 0 in (m :: ms, f)
    end.

  (* ---------------------------------------------------------------- MP attribute generators *)

  (* the inner `for packed_nlri in packed_nlris` of both generators: hdr = header_length,
     rp = NLRIs of the current payload (reversed), plen = len(payload) *)
  Fixpoint frag_loop (hdr maximum : Z) (l : list A) (rp : list A) (plen : Z) : list (list A) * gstat :=
    match l with
    | [] => (if hdr <? plen then [rev rp] else [], GDone)
    | x :: r =>
      if maximum <? attr_len (plen + sz x) then
        if fixed then
          (* PATCH: yield only a non-empty payload; re-check the NLRI alone; return, do not raise *)
          let pre := if hdr <? plen then [rev rp] else [] in
          if maximum <? attr_len (hdr + sz x) then (pre, GReturn)
          else let (fs, s) := frag_loop hdr maximum r [x] (hdr + sz x) in (pre ++ fs, s)
        else
          if plen =? hdr then ([], GRaise)
          else let (fs, s) := frag_loop hdr maximum r [x] (hdr + sz x) in (rev rp :: fs, s)
      else frag_loop hdr maximum r (x :: rp) (plen + sz x)
    end.

  (* mpnlri.setdefault(nexthop, []).append(packed): groups in first-appearance order *)
  Fixpoint group_add (nh : NH) (x : A) (g : list (NH * list A)) : list (NH * list A) :=
    match g with
    | [] => [(nh, [x])]
    | (k, l) :: r => if nheqb k nh then (k, x :: l) :: r else (k, l) :: group_add nh x r
    end.
  Definition group (routed : list (NH * A)) : list (NH * list A) :=
    map (fun kl => (fst kl, rev (snd kl)))
        (fold_left (fun g r => group_add (fst r) (snd r) g) routed []).

  (* packed_reach_attributes: header = AFI(2) SAFI(1) len(1) nexthop reserved(1) *)
  Fixpoint reach_frags (maximum : Z) (g : list (NH * list A)) : list (NH * list A) * gstat :=
    match g with
    | [] => ([], GDone)
    | (nh, l) :: r =>
      let hdr := 5 + nhlen nh in
      let (fs, s) := frag_loop hdr maximum l [] hdr in
      let tagged := map (fun fr => (nh, fr)) fs in
      match s with
      | GDone => let (fs', s') := reach_frags maximum r in (tagged ++ fs', s')
      | _ => (tagged, s)
      end
    end.

  (* packed_unreach_attributes: header = AFI(2) SAFI(1) *)
  Definition unreach_frags (maximum : Z) (wds : list A) : list (list A) * gstat :=
    match wds with
    | [] => ([], GDone)                                   (* if not packed_nlris: return *)
    | _ => frag_loop 3 maximum wds [] 3
    end.

  (* ---------------------------------------------------------------- MP part of messages() *)

  (* `for mprnlri in mp_announce.packed_reach_attributes(...)`:
     pend = mp_reach, (lw, la) = (withdraws, announced) left over from the IPv4 part *)
  Fixpoint reach_msgs (f : F) (frs : list (NH * list A)) (pend : option (F * NH * list A))
           (lw la : list A) : list msg * option (F * NH * list A) * list A * list A :=
    match frs with
    | [] => ([], pend, lw, la)
    | (nh, fr) :: r =>
      match pend with
      | Some _ =>
        let '(ms, p, lw', la') := reach_msgs f r (Some (f, nh, fr)) [] [] in
        (Msg lw None true pend la :: ms, p, lw', la')
      | None => reach_msgs f r (Some (f, nh, fr)) lw la
      end
    end.

  Notation rwire := (Spec_Split.reach_wire sz nhlen).
  Notation uwire := (Spec_Split.unreach_wire sz).

  (* `for mpurnlri in mp_withdraw.packed_unreach_attributes(...)`: pu = mp_unreach, pr = mp_reach *)
  Fixpoint unreach_msgs (B : Z) (f : F) (frs : list (list A)) (pu : option (F * list A))
           (pr : option (F * NH * list A)) (lw la : list A)
    : list msg * option (F * list A) * option (F * NH * list A) * list A * list A :=
    match frs with
    | [] => ([], pu, pr, lw, la)
    | fr :: r =>
      let flush :=
        match pu with
        | Some _ => true
        | None =>
          (* PATCH: the pending MP_REACH is sent on its own when the two do not fit together *)
          fixed && (match pr with Some _ => true | None => false end)
                && (B <? rwire pr + uwire (Some (f, fr)))
        end in
      if flush then
        let '(ms, pu', pr', lw', la') := unreach_msgs B f r (Some (f, fr)) None [] [] in
        (Msg lw pu true pr la :: ms, pu', pr', lw', la')
      else unreach_msgs B f r (Some (f, fr)) pr lw la
    end.

  Definition is_none {T} (o : option T) : bool := match o with None => true | Some _ => false end.

  (* one iteration of `for family in all_mp_families`; the boolean says RuntimeError *)
  Definition mp_family (B : Z) (fam : F * list (NH * A) * list A) (lw la : list A) : list msg * bool :=
    match fam with (f, routed, wds) =>
      let (rfr, rst) := reach_frags (B - (lsum lw + lsum la)) (group routed) in
      let '(msr, pr, lw1, la1) := reach_msgs f rfr None lw la in
      match rst with
      | GRaise => (msr, true)
      | _ =>
        (* PATCH: fragments of the full size; sharing with mp_reach decided per fragment *)
        let max_u := if fixed then B else B - (lsum lw1 + lsum la1 + rwire pr) in
        let (ufr, ust) := unreach_frags max_u wds in
        let '(msu, pu, pr2, lw2, la2) := unreach_msgs B f ufr None pr lw1 la1 in
        match ust with
        | GRaise => (msr ++ msu, true)
        | _ =>
          (* PATCH: `if mp_reach or mp_unreach:` around the final yield *)
          let final := if fixed && is_none pu && is_none pr2 then []
                       else [Msg lw2 pu true pr2 la2] in
          (msr ++ msu ++ final, false)
        end
      end
    end.

  Fixpoint mp_loop (B : Z) (fams : list (F * list (NH * A) * list A)) (lw la : list A)
    : list msg * outcome :=
    match fams with
    | [] => ([], Done)
    | fam :: r =>
      let (ms, raised) := mp_family B fam lw la in
      if raised then (ms, Raised)
      else let (ms', o) := mp_loop B r [] [] in (ms ++ ms', o)
    end.

  (* ---------------------------------------------------------------- messages() *)

  Definition nothing_to_send (v4a v4w : list A) (fams : list (F * list (NH * A) * list A)) : bool :=
    match v4a, v4w, fams with [], [], [] => true | _, _, _ => false end.

  Definition messages (M alen : Z) (v4a v4w : list A) (fams : list (F * list (NH * A) * list A))
    : list msg * outcome :=
    if nothing_to_send v4a v4w fams then ([], Done)
    else
      let B := M - 19 - 2 - 2 - alen in
      if B <? 0 then ([], Stopped)
      else if B =? 0 then ([], Stopped)
      else
        match ann_loop B v4a [] 0 with
        | (ms1, None) => (ms1, Stopped)
        | (ms1, Some (ra, sa)) =>
          match wd_loop B v4w [] 0 ra sa with
          | (ms2, None) => (ms1 ++ ms2, Stopped)
          | (ms2, Some (rw, sw, ra', sa')) =>
            let last := if (sa' =? 0) && (sw =? 0) then []
                        else [mk_v4 rw ra' (negb (sa' =? 0))] in
            (* PATCH: withdraws = announced = b'' after the last IPv4 message was yielded *)
            let lw := if fixed then [] else rev rw in
            let la := if fixed then [] else rev ra' in
            let (ms3, o) := mp_loop B fams lw la in
            (ms1 ++ ms2 ++ last ++ ms3, o)
          end
        end.
End Split.

(* ---------------------------------------------------------------- which attribute block

   messages() packs the attributes once, before the loops:
       include_defaults = True
       only_withdraws = not v4_announces and not mp_announces
       if mp_withdraws and only_withdraws:
           for family in mp_withdraws.keys():
               if safi not in (SAFI.unicast, SAFI.multicast): break
           else: include_defaults = False
       attr = self.attributes.pack_attribute(negotiated, include_defaults)
   mp_announces / mp_withdraws are dicts keyed by family: a family is in them iff it has an announce /
   a withdraw.  `simple f` = the SAFI of f is unicast or multicast.  alen_full / alen_min are the
   lengths of pack_attribute(negotiated, True) / (negotiated, False). *)
Section Top.
  Context {A NH F : Type}.
  Variable sz : A -> Z.
  Variable nhlen : NH -> Z.
  Variable nheqb : NH -> NH -> bool.
  Variable fixed : bool.
  Variable simple : F -> bool.

  Definition is_nil {T} (l : list T) : bool := match l with [] => true | _ => false end.
  Definition fam_announces (fam : F * list (NH * A) * list A) : bool :=
    match fam with (_, routed, _) => negb (is_nil routed) end.
  Definition fam_withdraws (fam : F * list (NH * A) * list A) : bool :=
    match fam with (_, _, wds) => negb (is_nil wds) end.
  Definition fam_simple (fam : F * list (NH * A) * list A) : bool :=
    match fam with (f, _, _) => simple f end.

  Definition include_defaults (v4a : list A) (fams : list (F * list (NH * A) * list A)) : bool :=
    let mp_withdraws := filter fam_withdraws fams in
    let only_withdraws := is_nil v4a && negb (existsb fam_announces fams) in
    negb (negb (is_nil mp_withdraws) && only_withdraws && forallb fam_simple mp_withdraws).

  (* result: the messages, the outcome, and whether the block they carry (where m_attr = true) is the
     requested attributes with the defaults (true) or the block packed without defaults (false) *)
  Definition messages_top (M alen_full alen_min : Z) (v4a v4w : list A)
             (fams : list (F * list (NH * A) * list A)) : list (Spec_Split.msg A NH F) * outcome * bool :=
    let incl := include_defaults v4a fams in
    (messages sz nhlen nheqb fixed M (if incl then alen_full else alen_min) v4a v4w fams, incl).
End Top.

(* the code as patched, and the code as pinned *)
Definition split {A NH F} sz nhlen nheqb := @messages A NH F sz nhlen nheqb true.
Definition split_pinned {A NH F} sz nhlen nheqb := @messages A NH F sz nhlen nheqb false.

(* concrete instance of the theorems: NLRIs, next hops and the attribute block are byte strings *)
Definition zlen (l : list Z) : Z := Z.of_nat (length l).
Fixpoint bytes_eqb (a b : list Z) : bool :=
  match a, b with
  | [], [] => true
  | x :: a', y :: b' => (x =? y) && bytes_eqb a' b'
  | _, _ => false
  end.
Definition split_bytes (M : Z) (attr : list Z) :=
  @split (list Z) (list Z) Z zlen zlen bytes_eqb M (zlen attr).
Definition split_bytes_pinned (M : Z) (attr : list Z) :=
  @split_pinned (list Z) (list Z) Z zlen zlen bytes_eqb M (zlen attr).
