(* Model of a configuration reload: Configuration.reload/_reload/_clear/_rollback_reload/_commit_reload
   (configuration/configuration.py), the parse-time insertion of a neighbor's routes into the LIVE
   outgoing RIB shared by neighbor name (ParseNeighbor._init_neighbor -> add_to_rib_watchdog,
   RIB._cache), Reactor.reload's decisions remove / new peer / reestablish / reconfigure
   (reactor/loop.py), Peer.reconfigure / reestablish / remove / _reset and the establishment step of
   Peer._main (replace_restart(previous routes, current routes)), over Model_Rib.

   The configuration parser is an ORACLE given as input: what it parsed, or how far it got before it
   failed.  Each neighbor whose post() ran contributes its routes to the live RIB of its name at parse
   time, exactly as the code does.

   `fixes` selects the tree that is modelled: `pinned` is the code as it is; `fix_rollback` = every
   failure path restores the configuration and clears the parser state; `fix_defer` = nothing is
   written to a RIB before the whole file is known to be valid; `fix_chain` = the withdraws owed to a
   session that has not come up since an earlier reload survive the next reload. *)
From Coq Require Import ZArith Bool List.
From ExaV Require Import lib.Amap model.Model_Rib gen.Gen_MainShape.
Import ListNotations.
Open Scope Z_scope.

(* one neighbor of a configuration: everything Neighbor.__eq__ compares, abstracted to one number, and
   its static routes.  The neighbor NAME (peer address, local address, AS numbers, router-id) is the key. *)
Record ncfg := { nparams : Z; nroutes : list route }.
Definition cfgmap := amap Z ncfg.

(* RIB._cache[name]: the outgoing RIB with the ghost state of Model_Rib (that peer's table, the
   operator's intention, session up/down), and the withdraws owed at the next establishment
   (Neighbor.previous consumed by replace_restart in Peer._main) *)
Record nb := { nsys : sys; npw : list route }.

Record st := {
  neighbors : cfgmap;        (* Configuration.neighbors *)
  stale : cfgmap;            (* ParseNeighbor.neighbors / _neighbors: only cleared by _commit_reload *)
  peers : amap Z (Z * option Z);   (* Reactor._peers: name -> (parameters of peer.neighbor, parameters of
                                      peer._neighbor while a re-establishing reload waits for the session to cycle) *)
  ribs : amap Z nb           (* RIB._cache *)
}.

Record fixes := { fix_rollback : bool; fix_defer : bool; fix_chain : bool; fix_eager : bool }.
Definition pinned : fixes := {| fix_rollback := false; fix_defer := false; fix_chain := false; fix_eager := false |}.
Definition rollback_only : fixes := {| fix_rollback := true; fix_defer := false; fix_chain := false; fix_eager := false |}.
(* roll-back and deferred RIB insertion repaired (/repo f8577ca, 9c55346, af12ba1) *)
Definition repaired_failure : fixes := {| fix_rollback := true; fix_defer := true; fix_chain := false; fix_eager := false |}.
(* ... and the withdraws owed by an earlier reload survive the next one (/repo f9b5d54) *)
Definition repaired_chain : fixes := {| fix_rollback := true; fix_defer := true; fix_chain := true; fix_eager := false |}.
(* ... and a reload that re-establishes a session takes the routes that are gone out of the
   Adj-RIB-Out at once (fix_eager) instead of owing their withdraws to the next establishment *)
Definition repaired : fixes := {| fix_rollback := true; fix_defer := true; fix_chain := true; fix_eager := true |}.

(* the tree the correspondence check is run against (one line to change when /repo is repaired) *)
Definition tree : fixes := repaired.

Inductive outcome :=
| Parsed (cfg : cfgmap)                       (* parse_section('root') is True *)
| Failed (clean : bool) (prefix : cfgmap)     (* clean: parse_section returned an error (syntax error path);
                                                 not clean: an exception left parse_section (caught in reload());
                                                 prefix: the neighbors whose post() completed before that *)
| NoFile.                                     (* the file is missing / set_file, set_text failed *)

Definition sys_new : sys := {| r := rib0 true; peer := []; intended := []; up := false; fresh := false |}.
Definition nb_new : nb := {| nsys := sys_new; npw := [] |}.
Definition get_nb (n : Z) (m : amap Z nb) : nb := match aget Z.eqb n m with Some b => b | None => nb_new end.

Definition has_idx (k : Z) (l : list route) : bool := existsb (fun x => ridx x =? k) l.

(* OutgoingRIB.replace_reload(previous, new): forced announce of what is not in previous, withdraw of
   what is not in new (one route per prefix inside a neighbor: no duplicate index in either list) *)
Definition rr_ops (prev new : list route) : list op :=
  map AnnForce (filter (fun x => negb (has_idx (ridx x) prev)) new)
  ++ map Wd (filter (fun p => negb (has_idx (ridx p) new)) prev).

(* the del_from_rib part of OutgoingRIB.replace_restart(previous, new) *)
Definition leftover (prev new : list route) : list route :=
  filter (fun p => negb (has_idx (ridx p) new)) prev.

(* a dictionary built name by name, names in insertion order *)
Definition build {V : Type} (f : Z -> option V) (l : list Z) : amap Z V :=
  flat_map (fun n => match f n with Some b => [(n, b)] | None => [] end) l.
Definition merge_names (old new : list Z) : list Z :=
  old ++ filter (fun n => negb (existsb (Z.eqb n) old)) new.

(* ParseNeighbor.neighbors[name] = neighbor *)
Definition merge_cfg (a b : cfgmap) : cfgmap :=
  build (fun n => match aget Z.eqb n b with Some c => Some c | None => aget Z.eqb n a end)
        (merge_names (akeys a) (akeys b)).

(* _init_neighbor: add_to_rib_watchdog(route) for every route, on the RIB of that name *)
Definition parsed_nb (b0 : nb) (c : ncfg) : nb :=
  {| nsys := run (map Ann (nroutes c)) (nsys b0); npw := npw b0 |}.

Definition parse_ribs (ribs0 : amap Z nb) (pre : cfgmap) : amap Z nb :=
  build (fun n => match aget Z.eqb n pre with
                  | Some c => Some (parsed_nb (get_nb n ribs0) c)
                  | None => aget Z.eqb n ribs0
                  end)
        (merge_names (akeys ribs0) (akeys pre)).

(* routes of Neighbor.previous, set by _commit_reload from _previous_neighbors = the old `neighbors` *)
Definition prev_routes (s : st) (n : Z) : list route :=
  match aget Z.eqb n (neighbors s) with Some c => nroutes c | None => [] end.

(* one committed neighbor: the parse effect, then Reactor.reload's decision.
   new peer: nothing more (the session is down; establishment re-queues the cache).
   same parameters: Peer.reconfigure = replace_reload(previous routes, new routes), at once when the
     session is down (whatever the FSM state), at the top of the next Peer._main iteration when it is
     established (taken at once here); Neighbor.previous is consumed.
   other parameters: Peer.reestablish = teardown 3; with fix_eager the delta is applied at once and the
     new definition waits in peer._neighbor until the session cycles (Peer._reset = a Drop of the
     history: reset_rib and the hand-over); on the older trees the teardown is taken at once and the
     withdraws of replace_restart are owed at the next establishment.
   The withdraws still owed from an earlier reload (the session has not come up since) hang on the
   Neighbor.previous of the definition that is being replaced: the code as it is loses them
   (Neighbor.previous of the NEW definition only names the definition just replaced). *)
Definition commit_nb (fx : fixes) (s : st) (n : Z) (c : ncfg) (parsed_now : bool) (b0 : nb) : nb :=
  let b1 := if parsed_now then parsed_nb b0 c else b0 in
  let owed := (if fix_chain fx then npw b0 else []) ++ prev_routes s n in
  match aget Z.eqb n (peers s) with
  | None => {| nsys := nsys b1; npw := [] |}
  | Some (p, _) =>
    if p =? nparams c
    then {| nsys := run (rr_ops owed (nroutes c)) (nsys b1);
            (* the loop of Peer._main forgets Neighbor.previous once it has applied it: reload_clears (gen) *)
            npw := if up (nsys b1) && negb reload_clears then leftover owed (nroutes c) else [] |}
    else if fix_eager fx
    then {| nsys := run (rr_ops owed (nroutes c)) (nsys b1); npw := [] |}
    else {| nsys := step (nsys b1) Drop; npw := leftover owed (nroutes c) |}
  end.

(* peers no longer configured are removed (Peer.remove -> stop -> rib.uncache; the main loop forgets
   the peer); a RIB without peer (left by a failed parse) stays *)
Definition commit_ribs (fx : fixes) (s : st) (committed cfg : cfgmap) : amap Z nb :=
  build (fun n => match aget Z.eqb n committed with
                  | Some c => Some (commit_nb fx s n c (fix_defer fx || amem Z.eqb n cfg) (get_nb n (ribs s)))
                  | None => if amem Z.eqb n (peers s) then None else aget Z.eqb n (ribs s)
                  end)
        (merge_names (akeys (ribs s)) (akeys committed)).

(* new Peer; reconfigure: peer.neighbor is the new definition at once; reestablish: the new definition
   waits in peer._neighbor (fix_eager; handed over at once on the older trees) *)
Definition commit_peers (fx : fixes) (s : st) (committed : cfgmap) : amap Z (Z * option Z) :=
  build (fun n => match aget Z.eqb n committed with
                  | Some c => Some (match aget Z.eqb n (peers s) with
                                    | Some (p, _) => if (p =? nparams c) || negb (fix_eager fx) then (nparams c, None)
                                                     else (p, Some (nparams c))
                                    | None => (nparams c, None)
                                    end)
                  | None => None
                  end)
        (merge_names (akeys (peers s)) (akeys committed)).

(* Peer._reset: `if self._neighbor: self.neighbor = self._neighbor` *)
Definition handover (n : Z) (ps : amap Z (Z * option Z)) : amap Z (Z * option Z) :=
  match aget Z.eqb n ps with
  | Some (_, Some q) => aset Z.eqb n (q, None) ps
  | _ => ps
  end.

(* Configuration.reload() as called by Reactor.reload(); second component = its return value *)
Definition reload (fx : fixes) (s : st) (o : outcome) : st * bool :=
  match o with
  | NoFile =>
    (* _clear() then `return False` *)
    ({| neighbors := if fix_rollback fx then neighbors s else [];
        stale := if fix_rollback fx then [] else stale s;
        peers := peers s; ribs := ribs s |}, false)
  | Failed clean pre =>
    (* syntax error: _rollback_reload(); exception: caught in reload(), no roll-back *)
    ({| neighbors := if clean || fix_rollback fx then neighbors s else [];
        stale := if fix_rollback fx then [] else merge_cfg (stale s) pre;
        peers := peers s;
        ribs := if fix_defer fx then ribs s else parse_ribs (ribs s) pre |}, false)
  | Parsed cfg =>
    let committed := merge_cfg (stale s) cfg in
    ({| neighbors := committed; stale := []; peers := commit_peers fx s committed;
        ribs := commit_ribs fx s committed cfg |}, true)
  end.

(* ---------------------------------------------------------------- histories *)

(* establishment = Peer._main: replace_restart(previous routes, routes): the cache is queued again
   (Model_Rib.Establish), then the routes of the previous definition that are gone are withdrawn *)
Definition nb_step (b : nb) (o : op) : nb :=
  match o with
  | Establish => if up (nsys b) then b
                 else {| nsys := run (map Wd (npw b)) (step (nsys b) Establish);
                         (* Peer._main forgets Neighbor.previous after replace_restart: restart_clears (gen) *)
                         npw := if restart_clears then [] else npw b |}
  | _ => {| nsys := step (nsys b) o; npw := npw b |}
  end.

Inductive rop :=
| RibOp (n : Z) (o : op)        (* API announce / withdraw / flush, generator start / one element sent,
                                   session loss, establishment - on the RIB of the peer named n *)
| Reload (o : outcome).

Definition rstep (fx : fixes) (s : st) (x : rop) : st :=
  match x with
  | Reload o => fst (reload fx s o)
  | RibOp n o =>
    if amem Z.eqb n (peers s) then
      match aget Z.eqb n (ribs s) with
      | Some b => {| neighbors := neighbors s; stale := stale s;
                     peers := match o with Drop => handover n (peers s) | _ => peers s end;
                     ribs := aset Z.eqb n (nb_step b o) (ribs s) |}
      | None => s
      end
    else s
  end.

Definition run_r (fx : fixes) (ops : list rop) (s : st) : st := fold_left (rstep fx) ops s.

Definition st0 : st := {| neighbors := []; stale := []; peers := []; ribs := [] |}.

(* ---------------------------------------------------------------- flat observation for the harness *)

Definition enc_routes (l : list route) : list Z := flat_map (fun x => [ridx x; rattr x; rnh x]) l.

Definition enc_cfg (m : cfgmap) : list Z :=
  flat_map (fun e => (-10) :: fst e :: nparams (snd e) :: enc_routes (nroutes (snd e))) m.

Definition enc_nb (e : Z * nb) : list Z :=
  let s := nsys (snd e) in
  (-5) :: fst e :: (if up s then 1 else 0) ::
  (-6) :: enc_table (table_of_seen (r s)) ++
  (-7) :: enc_table (peer s) ++
  (-8) :: enc_routes (avalues (new_nlri (r s))) ++
  (-9) :: akeys (pend_w (r s)).

(* every reload is observed: its return value and every RIB right after it *)
Fixpoint returns (fx : fixes) (ops : list rop) (s : st) : list Z * st :=
  match ops with
  | [] => ([], s)
  | x :: rest =>
    let s' := rstep fx s x in
    let here := match x with
                | Reload o => (-11) :: (if snd (reload fx s o) then 1 else 0) :: flat_map enc_nb (ribs s')
                | _ => []
                end in
    let '(more, fin) := returns fx rest s' in
    (here ++ more, fin)
  end.

Definition observe (fx : fixes) (ops : list rop) : list Z :=
  let '(steps, s) := returns fx ops st0 in
  steps ++ (-2) :: enc_cfg (neighbors s) ++ (-3) :: akeys (stale s)
  ++ (-4) :: flat_map (fun e => [fst e; fst (snd e); match snd (snd e) with Some q => q | None => 0 end]) (peers s)
  ++ flat_map enc_nb (ribs s).
