(* Hand model of how reactor/peer/peer.py uses the timers.  The timer bodies themselves are NOT
   modelled here: they are the functions of gen/Gen_Timer.v, regenerated from bgp/timer.py on
   every run.  What is hand-written (and checked for shape by translate/t3_timer.py, and run
   against the real objects by harness/c12.py) is the order of consultation:

   Peer._establish:  recv_timer = ReceiveTimer(session, holdtime, 4, 0)      at reading t_rt
                     _send_ka ; _read_ka -> recv_timer.check_ka_timer(KEEPALIVE)   at t_ka (result unused)
   Peer._main:       send_ka = KA(..) -> SendTimer(session, holdtime)        at reading t_main
     each iteration: message = wait_for(read_message, 0.1 s)  or _NOP
                     recv_timer.check_ka(message)      -- may raise Notify: the loop ends, _run sends it
                     send_ka.send_if_needed()          -- need_ka() then new_keepalive()
                     ... handlers, up to 25 UPDATE groups, EOR, sleep ...   (only time passes: dt of the next step)
   Peer._read_open:  wait_for(read_open, timeout = openwait) -> Notify(5,1) on TimeoutError.

   Not modelled: how long new_keepalive()/the outbound batch take (that is dt, bounded by delta
   in the theorems and only measured on the implementation), NetworkError paths. *)
From Coq Require Import ZArith Bool List.
From ExaV Require Import gen.Gen_Timer spec.Spec_Timer.
Import ListNotations.
Open Scope Z_scope.

(* TYPE byte and SCHEDULING of what read_message returned *)
Definition msg_fields (i : inbound) : Z * Z :=
  match i with
  | InNone => (NOP_TYPE, NOP_SCHEDULING)
  | InMsg t => (t, MESSAGE_SCHEDULING)
  end.

Record sess := { rt : rtimer; stt : stimer; clock : Z }.

(* what one iteration shows on the transport *)
Inductive obs := Quiet (t : Z) | KaSent (t : Z) | Notified (t c s : Z).

Definition main_iter (s : sess) (x : step) : option sess * obs :=
  let c := clock s + dt x in
  match check_ka (rt s) c (fst (msg_fields (inb x))) (snd (msg_fields (inb x))) with
  | (_, Raise cd sb) => (None, Notified c cd sb)
  | (r', Ret _) =>
    let n := c + dk x in
    match need_ka (stt s) n with
    | (t', b) => (Some {| rt := r'; stt := t'; clock := n |}, if b then KaSent n else Quiet n)
    end
  end.

(* the observations of a whole schedule; the loop ends at the first Notify *)
Fixpoint run_main (s : sess) (l : list step) : list obs :=
  match l with
  | [] => []
  | x :: r =>
    match main_iter s x with
    | (None, o) => [o]
    | (Some s', o) => o :: run_main s' r
    end
  end.

(* the state after a schedule, None when the loop ended before its end *)
Fixpoint exec (s : sess) (l : list step) : option sess :=
  match l with
  | [] => Some s
  | x :: r => match fst (main_iter s x) with None => None | Some s' => exec s' r end
  end.

Definition session_init (H t_rt t_ka t_main : Z) : sess :=
  let r0 := rtimer_init H established_code established_subcode t_rt in
  let r1 := fst (check_ka_timer r0 t_ka KeepAlive_TYPE MESSAGE_SCHEDULING) in
  {| rt := r1; stt := stimer_init H t_main; clock := t_main |}.

Fixpoint ka_times (l : list obs) : list Z :=
  match l with
  | [] => []
  | KaSent t :: r => t :: ka_times r
  | _ :: r => ka_times r
  end.

(* Peer._read_open under asyncio.wait_for: events in arrival order, e = loop time since the wait
   started; the timeout wins a tie (the harness does not generate ties) *)
Fixpoint read_open_wait (wait e : Z) (l : list (Z * open_in)) : open_out :=
  match l with
  | [] => OpenPending e
  | (d, i) :: r =>
    let e' := e + d in
    if wait <=? e' then OpenNotify wait openwait_code openwait_subcode
    else match i with
         | OpNothing => read_open_wait wait e' r
         | OpOpen => OpenGot e'
         | OpOther => OpenNotify e' read_open_not_open_code read_open_not_open_subcode
         end
  end.
