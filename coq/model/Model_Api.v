(* C14 - API command intake and execution: executable model.

   Part 1 (reactor/api/processes.py `_async_reader_callback`, `received_async`):
     per process a text buffer; each read is decoded as ASCII, appended to the buffer, split on
     newline, the unterminated tail is kept; a buffer holding no newline and more than
     MAX_COMMAND_SIZE characters, or a byte that is not ASCII, ends the process (the buffer is
     dropped and every later read is ignored); every complete line is right-stripped, lines
     starting with "debug " are only logged, the others are normalised by `formated` and appended to
     one FIFO queue shared by all processes; `received_async` pops one command from the left.
   Part 2 (reactor/api/__init__.py, dispatch/, command/): one command is executed to completion
     before the next one is popped (main loop: process, then `_run_async` drains the callbacks).
     Its *outcome class* is an input (route text parsing is C18's subject); selectors are
     evaluated over neighbor descriptions, RIBs are per-neighbor tables prefix-key -> attribute-id
     (what `cached_routes()` reports).
   Constants come from gen/Gen_Limit.v (regenerated from the source on every run). *)
From Coq Require Import ZArith Bool List.
From ExaV Require Import gen.Gen_Limit.
Import ListNotations.
Open Scope Z_scope.

(* ------------------------------------------------------------------ part 1: reassembly *)

Definition NL : Z := 10.

Definition has_nl (s : list Z) : bool := existsb (fun c => c =? NL) s.
Definition non_ascii (s : list Z) : bool := existsb (fun c => (c <? 0) || (128 <=? c)) s.

(* raw.split('\n', 1) repeated: complete lines, then what is left *)
Fixpoint lines_from (cur s : list Z) : list (list Z) :=
  match s with
  | [] => []
  | c :: r => if c =? NL then cur :: lines_from [] r else lines_from (cur ++ [c]) r
  end.

Fixpoint tail_from (cur s : list Z) : list Z :=
  match s with
  | [] => cur
  | c :: r => if c =? NL then tail_from [] r else tail_from (cur ++ [c]) r
  end.

Inductive rstate := Alive (buf : list Z) | Dead.

(* one invocation of the reader callback on the bytes os.read returned *)
Definition reassemble (max : Z) (st : rstate) (chunk : list Z) : rstate * list (list Z) :=
  match st with
  | Dead => (Dead, [])
  | Alive buf =>
      if non_ascii chunk then (Dead, [])
      else
        let raw := buf ++ chunk in
        if negb (has_nl raw) && (max <? Z.of_nat (length raw)) then (Dead, [])
        else (Alive (tail_from [] raw), lines_from [] raw)
  end.

Fixpoint feed (max : Z) (st : rstate) (chunks : list (list Z)) : rstate * list (list Z) :=
  match chunks with
  | [] => (st, [])
  | c :: r =>
      let '(st1, l1) := reassemble max st c in
      let '(st2, l2) := feed max st1 r in
      (st2, l1 ++ l2)
  end.

(* str.isspace on an ASCII str: \t \n \v \f \r, FS GS RS US, space *)
Definition is_space (c : Z) : bool := ((9 <=? c) && (c <=? 13)) || ((28 <=? c) && (c <=? 32)).

Fixpoint lstrip (l : list Z) : list Z :=
  match l with
  | [] => []
  | c :: r => if is_space c then lstrip r else l
  end.

(* linear (List.rev is quadratic under vm_compute): drop the trailing run of white space *)
Fixpoint rstrip (l : list Z) : list Z :=
  match l with
  | [] => []
  | c :: r =>
      match rstrip r with
      | [] => if is_space c then [] else [c]
      | r' => c :: r'
      end
  end.
Definition strip (l : list Z) : list Z := lstrip (rstrip l).

Fixpoint starts_with (p l : list Z) : bool :=
  match p, l with
  | [], _ => true
  | a :: p', b :: l' => (a =? b) && starts_with p' l'
  | _ :: _, [] => false
  end.

Fixpoint lookup_repl (t : list (Z * list Z)) (c : Z) : list Z :=
  match t with
  | [] => [c]
  | (a, b) :: t' => if a =? c then b else lookup_repl t' c
  end.

(* new_line.replace('  ', ' ') until nothing changes: every run of spaces becomes one space *)
Fixpoint collapse (l : list Z) : list Z :=
  match l with
  | [] => []
  | a :: r =>
      match r with
      | b :: _ => if (a =? 32) && (b =? 32) then collapse r else a :: collapse r
      | [] => [a]
      end
  end.

Definition formated (l : list Z) : list Z := collapse (flat_map (lookup_repl REPLACEMENTS) (strip l)).

Definition command_of_line (l : list Z) : list (list Z) :=
  let l1 := rstrip l in
  if starts_with DEBUG_PREFIX l1 then [] else [formated l1].

Definition commands (ls : list (list Z)) : list (list Z) := flat_map command_of_line ls.

(* several processes, one queue *)
Record sys := mkSys { bufs : Z -> rstate; queue : list (Z * list Z) }.

Definition upd (f : Z -> rstate) (s : Z) (v : rstate) : Z -> rstate := fun x => if x =? s then v else f x.

Inductive ev := Read (s : Z) (chunk : list Z) | Pop.

Definition tag (s : Z) (ls : list (list Z)) : list (Z * list Z) := map (fun c => (s, c)) ls.

(* -> new state, the command handed to API.process by this step (if any) *)
Definition step (max : Z) (st : sys) (e : ev) : sys * list (Z * list Z) :=
  match e with
  | Read s c =>
      let '(b, ls) := reassemble max (bufs st s) c in
      (mkSys (upd (bufs st) s b) (queue st ++ tag s (commands ls)), [])
  | Pop =>
      match queue st with
      | [] => (st, [])
      | x :: q => (mkSys (bufs st) q, [x])
      end
  end.

Fixpoint run (max : Z) (st : sys) (evs : list ev) : sys * list (Z * list Z) :=
  match evs with
  | [] => (st, [])
  | e :: r =>
      let '(st1, x1) := step max st e in
      let '(st2, x2) := run max st1 r in
      (st2, x1 ++ x2)
  end.

Definition init_sys : sys := mkSys (fun _ => Alive []) [].

(* the chunks read from process s, in order *)
Definition chunks_of (s : Z) (evs : list ev) : list (list Z) :=
  flat_map (fun e => match e with Read s' c => if s' =? s then [c] else [] | Pop => [] end) evs.

(* everything the Read events of a schedule put on the queue, in arrival order *)
Fixpoint arrivals (max : Z) (b : Z -> rstate) (evs : list ev) : list (Z * list Z) :=
  match evs with
  | [] => []
  | Read s c :: r =>
      let '(b1, ls) := reassemble max (b s) c in
      tag s (commands ls) ++ arrivals max (upd b s b1) r
  | Pop :: r => arrivals max b r
  end.

Definition of_svc (s : Z) (l : list (Z * list Z)) : list (Z * list Z) := filter (fun x => fst x =? s) l.

(* ------------------------------------------------------------------ part 2: selectors *)

(* a neighbor as the selector sees it: its address and the value of each selector key
   (key = position in SELECTOR_KEYS, value = an identifier of the token) *)
Record neighbor := mkN { n_id : Z; n_ip : Z; n_fields : list (Z * Z) }.

Inductive term := TStar | TIp (ip : Z) | TKey (k v : Z).

Definition term_match (n : neighbor) (t : term) : bool :=
  match t with
  | TStar => true
  | TIp ip => ip =? n_ip n
  | TKey k v => existsb (fun kv => (fst kv =? k) && (snd kv =? v)) (n_fields n)
  end.

(* one definition = conjunction of its terms; a selector = disjunction of definitions;
   no definition at all = every neighbor (command without selector) *)
Definition def_match (n : neighbor) (d : list term) : bool := forallb (term_match n) d.

Definition sel_match (sel : list (list term)) (n : neighbor) : bool :=
  match sel with
  | [] => true
  | _ => existsb (def_match n) sel
  end.

Definition select (sel : list (list term)) (ns : list neighbor) : list Z :=
  map n_id (filter (sel_match sel) ns).

(* ------------------------------------------------------------------ part 2: execution *)

Definition cache := list (Z * Z).          (* prefix key -> attribute id, insertion order *)
Definition ribs := list (Z * cache).       (* neighbor id -> cache *)

Inductive op := Announce (k v : Z) | Withdraw (k : Z) | ClearOut | Resend.

Fixpoint cset (k v : Z) (c : cache) : cache :=
  match c with
  | [] => [(k, v)]
  | (k', v') :: r => if k' =? k then (k, v) :: r else (k', v') :: cset k v r
  end.

Definition cdel (k : Z) (c : cache) : cache := filter (fun kv => negb (fst kv =? k)) c.

Definition apply_op (c : cache) (o : op) : cache :=
  match o with
  | Announce k v => cset k v c
  | Withdraw k => cdel k c
  | ClearOut => []
  | Resend => c
  end.

Definition apply_ops (ops : list op) (c : cache) : cache := fold_left apply_op ops c.

Definition memz (x : Z) (l : list Z) : bool := existsb (fun y => y =? x) l.

Definition apply_sel (sel : list Z) (ops : list op) (r : ribs) : ribs :=
  map (fun nc => if memz (fst nc) sel then (fst nc, apply_ops ops (snd nc)) else nc) r.

Inductive ackop := AckEnable | AckDisable | AckSilence.

(* what the dispatcher and the handler made of one command line *)
Inductive outcome :=
  | Unknown                                  (* UnknownCommand, or refused by a handler before any effect *)
  | NoMatchingPeers                          (* the selector matches no neighbor *)
  | ParseFail                                (* the handler could not parse / validate the route text *)
  | Ok (sel : list Z) (ops : list op)        (* applied to the selected neighbors *)
  | Session (a : ackop).                     (* session ack enable / disable / silence *)

Inductive reply := Done | Error.

Record xstate := mkX { x_ribs : ribs; x_ack : bool }.

Definition answer (ack : bool) (r : reply) : list reply := if ack then [r] else [].

Definition exec (st : xstate) (o : outcome) : xstate * list reply :=
  match o with
  | Unknown | NoMatchingPeers | ParseFail => (st, answer (x_ack st) Error)
  | Ok sel ops => (mkX (apply_sel sel ops (x_ribs st)) (x_ack st), answer (x_ack st) Done)
  | Session AckEnable => (mkX (x_ribs st) true, [Done])
  | Session AckDisable => (mkX (x_ribs st) false, [Done])       (* answer_done_sync(force=True) *)
  | Session AckSilence => (mkX (x_ribs st) false, [])
  end.

(* dispatch of a selector-carrying command: the outcome given what the handler would do *)
Definition dispatch (ns : list neighbor) (sel : list (list term)) (handler : list Z -> outcome) : outcome :=
  match select sel ns with
  | [] => NoMatchingPeers
  | peers => handler peers
  end.

Fixpoint exec_all (st : xstate) (os : list outcome) : xstate * list (list reply) :=
  match os with
  | [] => (st, [])
  | o :: r =>
      let '(st1, a) := exec st o in
      let '(st2, l) := exec_all st1 r in
      (st2, a :: l)
  end.

Definition rib_of (r : ribs) (n : Z) : option cache :=
  match filter (fun nc => fst nc =? n) r with
  | [] => None
  | nc :: _ => Some (snd nc)
  end.

Definition is_error_class (o : outcome) : bool :=
  match o with Unknown | NoMatchingPeers | ParseFail => true | _ => false end.

Definition is_session (o : outcome) : bool :=
  match o with Session _ => true | _ => false end.

Definition terminal (o : outcome) : reply := if is_error_class o then Error else Done.
