(* C14 - API command intake and execution: executable model.

   Part 1 (reactor/api/processes.py `_async_reader_callback`, `received_async`):
     per process a text buffer; each read is decoded as ASCII, appended to the buffer, split on
     newline, the unterminated tail is kept; a buffer holding no newline and more than
     MAX_COMMAND_SIZE characters, or a byte that is not ASCII, ends the process (the buffer is
     dropped and every later read is ignored); every complete line is right-stripped, lines
     starting with "debug " are only logged, the others are normalised by `formated` and appended to
     one FIFO queue shared by all processes; `received_async` pops one command from the left.
   Part 2 (reactor/api/__init__.py, dispatch/, command/): one command is executed to completion
     before the next one is popped (main loop: process, then `_run_async` drains the callbacks).
     Its *outcome class* is an input (route text parsing is C18's subject); selectors are
     evaluated over neighbor descriptions, RIBs are per-neighbor tables prefix-key -> attribute-id
     (what `cached_routes()` reports).
   Constants come from gen/Gen_Limit.v (regenerated from the source on every run). *)
From Coq Require Import ZArith Bool List.
From ExaV Require Import gen.Gen_Limit.
Import ListNotations.
Open Scope Z_scope.

(* ------------------------------------------------------------------ part 1: reassembly *)

Definition NL : Z := 10.

Definition has_nl (s : list Z) : bool := existsb (fun c => c =? NL) s.
Definition non_ascii (s : list Z) : bool := existsb (fun c => (c <? 0) || (128 <=? c)) s.

(* raw.split('\n', 1) repeated: complete lines, then what is left *)
Fixpoint lines_from (cur s : list Z) : list (list Z) :=
  match s with
  | [] => []
  | c :: r => if c =? NL then cur :: lines_from [] r else lines_from (cur ++ [c]) r
  end.

Fixpoint tail_from (cur s : list Z) : list Z :=
  match s with
  | [] => cur
  | c :: r => if c =? NL then tail_from [] r else tail_from (cur ++ [c]) r
  end.

Inductive rstate := Alive (buf : list Z) | Dead.

(* one invocation of the reader callback on the bytes os.read returned *)
Definition reassemble (max : Z) (st : rstate) (chunk : list Z) : rstate * list (list Z) :=
  match st with
  | Dead => (Dead, [])
  | Alive buf =>
      if non_ascii chunk then (Dead, [])
      else
        let raw := buf ++ chunk in
        if negb (has_nl raw) && (max <? Z.of_nat (length raw)) then (Dead, [])
        else (Alive (tail_from [] raw), lines_from [] raw)
  end.

Fixpoint feed (max : Z) (st : rstate) (chunks : list (list Z)) : rstate * list (list Z) :=
  match chunks with
  | [] => (st, [])
  | c :: r =>
      let '(st1, l1) := reassemble max st c in
      let '(st2, l2) := feed max st1 r in
      (st2, l1 ++ l2)
  end.

(* str.isspace on an ASCII str: \t \n \v \f \r, FS GS RS US, space *)
Definition is_space (c : Z) : bool := ((9 <=? c) && (c <=? 13)) || ((28 <=? c) && (c <=? 32)).

Fixpoint lstrip (l : list Z) : list Z :=
  match l with
  | [] => []
  | c :: r => if is_space c then lstrip r else l
  end.

(* linear (List.rev is quadratic under vm_compute): drop the trailing run of white space *)
Fixpoint rstrip (l : list Z) : list Z :=
  match l with
  | [] => []
  | c :: r =>
      match rstrip r with
      | [] => if is_space c then [] else [c]
      | r' => c :: r'
      end
  end.
Definition strip (l : list Z) : list Z := lstrip (rstrip l).

Fixpoint starts_with (p l : list Z) : bool :=
  match p, l with
  | [], _ => true
  | a :: p', b :: l' => (a =? b) && starts_with p' l'
  | _ :: _, [] => false
  end.

Fixpoint lookup_repl (t : list (Z * list Z)) (c : Z) : list Z :=
  match t with
  | [] => [c]
  | (a, b) :: t' => if a =? c then b else lookup_repl t' c
  end.

(* new_line.replace('  ', ' ') until nothing changes: every run of spaces becomes one space *)
Fixpoint collapse (l : list Z) : list Z :=
  match l with
  | [] => []
  | a :: r =>
      match r with
      | b :: _ => if (a =? 32) && (b =? 32) then collapse r else a :: collapse r
      | [] => [a]
      end
  end.

Definition formated (l : list Z) : list Z := collapse (flat_map (lookup_repl REPLACEMENTS) (strip l)).

Definition command_of_line (l : list Z) : list (list Z) :=
  let l1 := rstrip l in
  if starts_with DEBUG_PREFIX l1 then [] else [formated l1].

Definition commands (ls : list (list Z)) : list (list Z) := flat_map command_of_line ls.

(* several processes, one queue *)
Record sys := mkSys { bufs : Z -> rstate; queue : list (Z * list Z) }.

Definition upd (f : Z -> rstate) (s : Z) (v : rstate) : Z -> rstate := fun x => if x =? s then v else f x.

Inductive ev := Read (s : Z) (chunk : list Z) | Pop.

Definition tag (s : Z) (ls : list (list Z)) : list (Z * list Z) := map (fun c => (s, c)) ls.

(* -> new state, the command handed to API.process by this step (if any) *)
Definition step (max : Z) (st : sys) (e : ev) : sys * list (Z * list Z) :=
  match e with
  | Read s c =>
      let '(b, ls) := reassemble max (bufs st s) c in
      (mkSys (upd (bufs st) s b) (queue st ++ tag s (commands ls)), [])
  | Pop =>
      match queue st with
      | [] => (st, [])
      | x :: q => (mkSys (bufs st) q, [x])
      end
  end.

Fixpoint run (max : Z) (st : sys) (evs : list ev) : sys * list (Z * list Z) :=
  match evs with
  | [] => (st, [])
  | e :: r =>
      let '(st1, x1) := step max st e in
      let '(st2, x2) := run max st1 r in
      (st2, x1 ++ x2)
  end.

Definition init_sys : sys := mkSys (fun _ => Alive []) [].

(* the chunks read from process s, in order *)
Definition chunks_of (s : Z) (evs : list ev) : list (list Z) :=
  flat_map (fun e => match e with Read s' c => if s' =? s then [c] else [] | Pop => [] end) evs.

(* everything the Read events of a schedule put on the queue, in arrival order *)
Fixpoint arrivals (max : Z) (b : Z -> rstate) (evs : list ev) : list (Z * list Z) :=
  match evs with
  | [] => []
  | Read s c :: r =>
      let '(b1, ls) := reassemble max (b s) c in
      tag s (commands ls) ++ arrivals max (upd b s b1) r
  | Pop :: r => arrivals max b r
  end.

Definition of_svc (s : Z) (l : list (Z * list Z)) : list (Z * list Z) := filter (fun x => fst x =? s) l.

(* ------------------------------------------------------------------ part 2: selectors *)

(* a neighbor as the selector sees it: its address and the value of each selector key
   (key = position in SELECTOR_KEYS, value = an identifier of the token) *)
Record neighbor := mkN { n_id : Z; n_ip : Z; n_fields : list (Z * Z) }.

Inductive term := TStar | TIp (ip : Z) | TKey (k v : Z).

Definition term_match (n : neighbor) (t : term) : bool :=
  match t with
  | TStar => true
  | TIp ip => ip =? n_ip n
  | TKey k v => existsb (fun kv => (fst kv =? k) && (snd kv =? v)) (n_fields n)
  end.

(* one definition = conjunction of its terms; a selector = disjunction of definitions;
   no definition at all = every neighbor (command without selector) *)
Definition def_match (n : neighbor) (d : list term) : bool := forallb (term_match n) d.

Definition sel_match (sel : list (list term)) (n : neighbor) : bool :=
  match sel with
  | [] => true
  | _ => existsb (def_match n) sel
  end.

Definition select (sel : list (list term)) (ns : list neighbor) : list Z :=
  map n_id (filter (sel_match sel) ns).

(* ------------------------------------------------------------------ part 2: execution *)

Definition cache := list (Z * Z).          (* prefix key -> attribute id, insertion order *)
Definition ribs := list (Z * cache).       (* neighbor id -> cache *)

Inductive op := Announce (k v : Z) | Withdraw (k : Z) | ClearOut | Resend.

Fixpoint cset (k v : Z) (c : cache) : cache :=
  match c with
  | [] => [(k, v)]
  | (k', v') :: r => if k' =? k then (k, v) :: r else (k', v') :: cset k v r
  end.

Definition cdel (k : Z) (c : cache) : cache := filter (fun kv => negb (fst kv =? k)) c.

Definition apply_op (c : cache) (o : op) : cache :=
  match o with
  | Announce k v => cset k v c
  | Withdraw k => cdel k c
  | ClearOut => []
  | Resend => c
  end.

Definition apply_ops (ops : list op) (c : cache) : cache := fold_left apply_op ops c.

Definition memz (x : Z) (l : list Z) : bool := existsb (fun y => y =? x) l.

Definition apply_sel (sel : list Z) (ops : list op) (r : ribs) : ribs :=
  map (fun nc => if memz (fst nc) sel then (fst nc, apply_ops ops (snd nc)) else nc) r.

Inductive ackop := AckEnable | AckDisable | AckSilence.

(* what the dispatcher and the handler made of one command line *)
Inductive outcome :=
  | Unknown                                  (* UnknownCommand, or refused by a handler before any effect *)
  | NoMatchingPeers                          (* the selector matches no neighbor *)
  | ParseFail                                (* the handler could not parse / validate the route text *)
  | Ok (sel : list Z) (ops : list op)        (* applied to the selected neighbors *)
  | Session (a : ackop).                     (* session ack enable / disable / silence *)

Inductive reply := Done | Error.

Record xstate := mkX { x_ribs : ribs; x_ack : bool }.

Definition answer (ack : bool) (r : reply) : list reply := if ack then [r] else [].

Definition exec (st : xstate) (o : outcome) : xstate * list reply :=
  match o with
  | Unknown | NoMatchingPeers | ParseFail => (st, answer (x_ack st) Error)
  | Ok sel ops => (mkX (apply_sel sel ops (x_ribs st)) (x_ack st), answer (x_ack st) Done)
  | Session AckEnable => (mkX (x_ribs st) true, [Done])
  | Session AckDisable => (mkX (x_ribs st) false, [Done])       (* answer_done_sync(force=True) *)
  | Session AckSilence => (mkX (x_ribs st) false, [])
  end.

(* dispatch of a selector-carrying command: the outcome given what the handler would do *)
Definition dispatch (ns : list neighbor) (sel : list (list term)) (handler : list Z -> outcome) : outcome :=
  match select sel ns with
  | [] => NoMatchingPeers
  | peers => handler peers
  end.

Fixpoint exec_all (st : xstate) (os : list outcome) : xstate * list (list reply) :=
  match os with
  | [] => (st, [])
  | o :: r =>
      let '(st1, a) := exec st o in
      let '(st2, l) := exec_all st1 r in
      (st2, a :: l)
  end.

Definition rib_of (r : ribs) (n : Z) : option cache :=
  match filter (fun nc => fst nc =? n) r with
  | [] => None
  | nc :: _ => Some (snd nc)
  end.

Definition is_error_class (o : outcome) : bool :=
  match o with Unknown | NoMatchingPeers | ParseFail => true | _ => false end.

Definition is_session (o : outcome) : bool :=
  match o with Session _ => true | _ => false end.

Definition terminal (o : outcome) : reply := if is_error_class o then Error else Done.

(* ------------------------------------------------------------------ selectors, as text
   command/limit.py match_neighbor: every string of a definition ("neighbor <ip>", "<key> <value>")
   is searched in the peer name with the regular expression (^|\s)<string>($|\s|,); \s on a str
   is str.isspace.  The regular expression is modelled as what it is: a substring search with a
   boundary test on both sides. *)
Definition COMMA : Z := 44.
Definition SP : Z := 32.

(* the text at this position is `t`, followed by the end, white space or a comma: term($|\s|,) *)
Fixpoint match_at (t name : list Z) : bool :=
  match t with
  | [] => match name with [] => true | c :: _ => is_space c || (c =? COMMA) end
  | a :: t' => match name with [] => false | c :: n' => (a =? c) && match_at t' n' end
  end.

(* re.search of (^|\s)term($|\s|,): `start_ok` says the previous character allows a match to start here *)
Fixpoint re_search_from (start_ok : bool) (t name : list Z) : bool :=
  (start_ok && match_at t name) ||
  match name with
  | [] => false
  | c :: r => re_search_from (is_space c) t r
  end.

Definition re_search (t name : list Z) : bool := re_search_from true t name.

Fixpoint zeqb (a b : list Z) : bool :=
  match a, b with
  | [], [] => true
  | x :: a', y :: b' => (x =? y) && zeqb a' b'
  | _, _ => false
  end.

Definition STAR_NEIGHBOR : list Z := [110;101;105;103;104;98;111;114;32;42].  (* "neighbor *" *)
Definition STAR_PEER : list Z := [112;101;101;114;32;42].                      (* "peer *" *)

(* limit.py match_neighbor: every string of the description has to be found in the peer name;
   the wildcard string (compared after strip()) only stands for "any address" *)
Definition is_star (s : list Z) : bool := zeqb (strip s) STAR_NEIGHBOR || zeqb (strip s) STAR_PEER.

Definition match_neighbor (description : list (list Z)) (name : list Z) : bool :=
  forallb (fun s => is_star s || re_search s name) description.

Definition match_neighbors (descriptions : list (list (list Z))) (name : list Z) : bool :=
  match descriptions with
  | [] => true
  | _ => existsb (fun d => match_neighbor d name) descriptions
  end.


(* ------------------------------------------------------------------ groups (command/group.py)
   `group start` opens a per-service buffer; while it is open bare announce/withdraw lines are only
   stored (and acknowledged); `group end` parses everything and applies all of it to the peers of the
   service, or nothing; `peer <selector> group a ; b` is the same in one line for the selected peers.
   A sub-command is its parse result: None when it does not parse or validate.
   (The 100000-command / 100 MiB buffer limits are not modelled.) *)
Definition sub := option (list op).

Fixpoint all_parsed (l : list sub) : option (list op) :=
  match l with
  | [] => Some []
  | None :: _ => None
  | Some o :: r => match all_parsed r with Some o' => Some (o ++ o') | None => None end
  end.

Inductive gcmd :=
  | GStart
  | GEnd
  | GLine (s : sub) (outside : outcome)
  | GInline (sel : list Z) (subs : list sub)
  | GPlain (o : outcome).

Record gstate := mkG { g_x : xstate; g_buf : option (list sub) }.

Definition greply (st : gstate) (r : reply) : list reply := answer (x_ack (g_x st)) r.

Definition gapply (st : gstate) (buf : option (list sub)) (sel : list Z) (ops : list op) : gstate :=
  mkG (mkX (apply_sel sel ops (x_ribs (g_x st))) (x_ack (g_x st))) buf.

Definition gexec (all : list Z) (st : gstate) (c : gcmd) : gstate * list reply :=
  match c with
  | GPlain o => let '(x, r) := exec (g_x st) o in (mkG x (g_buf st), r)
  | GStart =>
      match g_buf st with
      | Some _ => (st, greply st Error)
      | None => (mkG (g_x st) (Some []), greply st Done)
      end
  | GLine s outside =>
      match g_buf st with
      | Some b => (mkG (g_x st) (Some (b ++ [s])), greply st Done)
      | None => let '(x, r) := exec (g_x st) outside in (mkG x None, r)
      end
  | GEnd =>
      match g_buf st with
      | None => (st, greply st Error)
      | Some [] => (mkG (g_x st) None, greply st Done)
      | Some b =>
          match all_parsed b with
          | Some ops => (gapply st None all ops, greply st Done)
          | None => (mkG (g_x st) None, greply st Error)
          end
      end
  | GInline sel subs =>
      match subs with
      | [] => (st, greply st Error)
      | _ =>
          match all_parsed subs with
          | Some ops => (gapply st (g_buf st) sel ops, greply st Done)
          | None => (st, greply st Error)
          end
      end
  end.

Fixpoint grun (all : list Z) (st : gstate) (cs : list gcmd) : gstate * list (list reply) :=
  match cs with
  | [] => (st, [])
  | c :: r =>
      let '(st1, a) := gexec all st c in
      let '(st2, l) := grun all st1 r in
      (st2, a :: l)
  end.

Definition g_ribs (st : gstate) : ribs := x_ribs (g_x st).

(* ------------------------------------------------------------------ main loop and scheduler
   reactor/loop.py `_async_main_loop`, reactor/asynchronous.py: per iteration received_async()
   hands over at most `batch` commands (the code: one), API.process either answers at once or
   schedules a callback, then `_run_async` awaits every queued callback in FIFO order.
   Replies are identified by the number of their command. *)
Inductive akind := Immediate | Scheduled.

Record lstate := mkL { l_wait : list (akind * Z); l_async : list Z; l_written : list Z }.

Definition process1 (st : lstate) (c : akind * Z) : lstate :=
  match fst c with
  | Immediate => mkL (l_wait st) (l_async st) (l_written st ++ [snd c])
  | Scheduled => mkL (l_wait st) (l_async st ++ [snd c]) (l_written st)
  end.

(* one iteration of the main loop: received_async hands over at most `batch` commands, API.process
   runs on each, then _run_async awaits every queued callback in FIFO order *)
Definition iterate (batch : nat) (st : lstate) : lstate :=
  let st1 := fold_left process1 (firstn batch (l_wait st)) (mkL (skipn batch (l_wait st)) (l_async st) (l_written st)) in
  mkL (l_wait st1) [] (l_written st1 ++ l_async st1).

Inductive lev := Arrive (k : akind) (id : Z) | Iterate.

Definition lstep (batch : nat) (st : lstate) (e : lev) : lstate :=
  match e with
  | Arrive k id => mkL (l_wait st ++ [(k, id)]) (l_async st) (l_written st)
  | Iterate => iterate batch st
  end.

Definition lrun (batch : nat) (st : lstate) (evs : list lev) : lstate := fold_left (lstep batch) evs st.

Definition linit : lstate := mkL [] [] [].

Definition arrived (evs : list lev) : list Z :=
  flat_map (fun e => match e with Arrive _ id => [id] | Iterate => [] end) evs.

