#!/bin/bash
# re-checks every property file with the independent checker and records the axiom summary
cd /verif/coq
out=ASSUMPTIONS.txt
echo "coqchk -o summaries (Coq $(coqc --version | head -1))" > $out
for f in props/Prop_C*.v; do
  m=$(basename $f .v)
  echo "=== $m" >> $out
  timeout 1500 coqchk -silent -o -Q . ExaV ExaV.props.$m 2>&1 | sed -n '/CONTEXT SUMMARY/,$p' | grep -v "^ *$" >> $out
done
grep -c "Axioms: <none>" $out
