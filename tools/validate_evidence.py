#!/opt/veriftools/pyvenv/bin/python
import json, glob, sys, jsonschema
schema = json.load(open('/root/.vp/EVIDENCE.schema.json'))
man = json.load(open('/verif/MANIFEST.json'))
jsonschema.validate(man, json.load(open('/root/.vp/MANIFEST.schema.json')))
bad = 0
for c in man['checks']:
    p = '/verif/' + c['evidence_file']
    try:
        e = json.load(open(p))
        jsonschema.validate(e, schema)
        cov = e['coverage']
        problems = []
        if e['level'] != c['level_claimed']['category']:
            problems.append(f"level {e['level']} != claimed {c['level_claimed']['category']}")
        if cov.get('obligations') != cov.get('discharged'):
            problems.append(f"discharged {cov.get('discharged')} != obligations {cov.get('obligations')}")
        if not cov.get('samples'):
            problems.append('no samples')
        if e.get('violations'):
            problems.append(f"violations {e['violations']}")
        print(c['property_id'], 'ok' if not problems else problems, e['tier'], cov.get('evaluations'), cov.get('distinct_nontrivial'))
        bad += bool(problems)
    except Exception as exc:
        print(c['property_id'], 'INVALID', str(exc)[:200]); bad += 1
sys.exit(1 if bad else 0)
