#!/bin/bash
# Runs /repo's test-suite (guard off; there are no hooks) and lists failures. usage: tools/baseline.sh <logfile>
cd /repo && timeout 3000 /venv/bin/python -m pytest -q -p no:cacheprovider --timeout=900 --continue-on-collection-errors -x --deselect tests/unit/test_gates_are_wired.py::test_a_clean_tree_exits_zero --benchmark-disable > "$1" 2>&1
echo "exit=$?" >> "$1"
grep -E "^(FAILED|ERROR)|passed|failed" "$1" | tail -5
