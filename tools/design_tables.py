#!/usr/bin/env python3
"""Regenerates the generated tables of DESIGN.md (between <!-- GEN:... --> markers) from known_findings.json,
seeded/*/meta.json and MANIFEST.json."""
import glob, json, os, re
V = os.path.dirname(os.path.dirname(os.path.abspath(__file__)))
kf = json.load(open(f'{V}/known_findings.json'))['findings']
man = json.load(open(f'{V}/MANIFEST.json'))

def table_findings():
    rows = ['| property | status | commit | what failed |', '|---|---|---|---|']
    for f in sorted(kf, key=lambda f: (f['property'], f['kind'])):
        what = f['what'].replace('|', '\\|')
        what = re.sub(r'^fixed: property=\w+ \w+ ', '', what)
        rows.append(f"| {f['property']} | {f['kind']} | {f.get('commit', '')} | {what} |")
    return '\n'.join(rows)

def table_seeded():
    rows = ['| seeded change | breaks | what it needs to manifest (author\'s note, abridged) | caught by |', '|---|---|---|---|']
    for d in sorted(glob.glob(f'{V}/seeded/*/meta.json')):
        m = json.load(open(d))
        name = os.path.basename(os.path.dirname(d))
        note = ' '.join(m.get('what_it_needs', '').split())[:260].replace('|', '\\|')
        caught = ', '.join(f"{p} ({'exit 1' if r['caught'] else 'MISSED'})" for p, r in m.get('checks', {}).items())
        rows.append(f"| {name} | {m['property']} | {note} | {caught} |")
    return '\n'.join(rows)

def table_claims():
    rows = ['| property | level | technique (short) |', '|---|---|---|']
    for c in man['checks']:
        rows.append(f"| {c['property_id']} | {c['level_claimed']['category']} | {c['technique'][:220].replace('|', '/')} |")
    return '\n'.join(rows)

p = f'{V}/DESIGN.md'
s = open(p).read()
for tag, fn in (('FINDINGS', table_findings), ('SEEDED', table_seeded), ('CLAIMS', table_claims)):
    a, b = f'<!-- GEN:{tag} -->', f'<!-- /GEN:{tag} -->'
    if a in s:
        s = s[: s.index(a) + len(a)] + '\n' + fn() + '\n' + s[s.index(b):]
open(p, 'w').write(s)
print('tables regenerated')
