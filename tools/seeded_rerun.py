#!/usr/bin/env python3
"""tools/seeded_rerun.py <name> [props...] : re-run checks against an already confirmed seeded change (seeded/<name>/patch.diff)
on a scratch worktree of /repo HEAD and merge the result into meta.json (history kept under 'earlier_runs')."""
import json, os, subprocess, sys, time
name = sys.argv[1]
dst = f'/verif/seeded/{name}'
meta = json.load(open(f'{dst}/meta.json'))
props = sys.argv[2:] or [meta['property']]
SWT = '/tmp/seed_wt_%d' % os.getpid()
subprocess.run(['git', '-C', '/repo', 'worktree', 'add', '-q', '--detach', SWT, 'HEAD'], check=True)
try:
    p = subprocess.run(['git', '-C', SWT, 'apply', f'{dst}/patch.diff'], stdout=subprocess.PIPE, stderr=subprocess.STDOUT, text=True)
    if p.returncode != 0:
        print('does not apply to /repo HEAD any more:', p.stdout[:300])
        meta['applies_to_repo_head'] = False
    else:
        env = dict(os.environ, VERIF_REPO=SWT)
        LANE = '/tmp/verif_lane_%d' % os.getpid()  # private copy: coq/gen is rewritten from the tree a check is pointed at
        subprocess.run(['rsync', '-a', '--delete', '--exclude', '.git', '--exclude', '_work', '--exclude', 'replays', '--exclude', 'seeded',
                        '/verif/', LANE + '/'], check=True)
        for pr in props:
            t0 = time.time()
            r = subprocess.run(['./check', pr], cwd=LANE, env=env, stdout=subprocess.PIPE, stderr=subprocess.STDOUT, text=True, timeout=3600)
            viol = [l for l in r.stdout.splitlines() if l.startswith('VIOLATION') or 'obligation FAILED' in l]
            old = meta.get('checks', {}).get(pr)
            if old is not None:
                meta.setdefault('earlier_runs', []).append({pr: old})
            meta.setdefault('checks', {})[pr] = {'exit': r.returncode, 'caught': r.returncode != 0, 'lines': [v[:300] for v in viol][:6], 'wall_s': round(time.time() - t0)}
            print(name, pr, 'exit', r.returncode, [v[:140] for v in viol][:3])
finally:
    subprocess.run(['git', '-C', '/repo', 'worktree', 'remove', '--force', SWT])
    subprocess.run(['rm', '-rf', '/tmp/verif_lane_%d' % os.getpid()])
json.dump(meta, open(f'{dst}/meta.json', 'w'), indent=1)
