#!/usr/bin/env python3
"""tools/seeded.py <PROP> <worktree> <k> [extra props...] : verify a seeded change produced by a sub-agent and
measure which checks catch it.
 1. in the worktree: demo.py exits 0 on clean source, 1 with patch.diff applied (then reverted)
 2. copy to /verif/seeded/<PROP>-<k>/ (patch.diff, demo.py, notes.txt)
 3. apply to a scratch worktree of /repo HEAD, run VERIF_REPO=<wt> ./check <PROP> (and the extra ones), record the result
 4. write meta.json
"""
import json, os, shutil, subprocess, sys, time

prop, wt, k = sys.argv[1], sys.argv[2], sys.argv[3]
extra = sys.argv[4:]
src = os.path.join(wt, 'mutants', k)
dst = f'/verif/seeded/{prop}-{k}'
env = dict(os.environ, PYTHONPATH=os.path.join(wt, 'src'), PYTHONHASHSEED='0', exabgp_log_enable='false')

def sh(cmd, cwd=None, env=None, timeout=1800):
    p = subprocess.run(cmd, cwd=cwd, env=env, shell=isinstance(cmd, str), stdout=subprocess.PIPE, stderr=subprocess.STDOUT, text=True, timeout=timeout)
    return p.returncode, p.stdout

meta = {'property': prop, 'source': f'fresh sub-agent given only the property text and the worktree {wt}', 'verified': {}}
subprocess.run(['git', '-C', wt, 'checkout', '--', 'src'])
rc0, out0 = sh(['/venv/bin/python', os.path.join(src, 'demo.py')], cwd=src, env=env)
rca, outa = sh(['git', '-C', wt, 'apply', os.path.join(src, 'patch.diff')])
rc1, out1 = sh(['/venv/bin/python', os.path.join(src, 'demo.py')], cwd=src, env=env)
subprocess.run(['git', '-C', wt, 'checkout', '--', 'src'])
meta['verified'] = {'demo_exit_clean': rc0, 'patch_applies': rca == 0, 'demo_exit_patched': rc1, 'demo_output_patched': out1[-600:]}
print('demo clean', rc0, 'patched', rc1, 'apply', rca)
if not (rc0 == 0 and rca == 0 and rc1 != 0):
    print('NOT CONFIRMED', out0[-300:], outa[-300:])
    sys.exit(2)
os.makedirs(dst, exist_ok=True)
for f in ('patch.diff', 'demo.py', 'notes.txt'):
    if os.path.exists(os.path.join(src, f)):
        shutil.copy(os.path.join(src, f), os.path.join(dst, f))
# run the checks against a scratch worktree of /repo HEAD with the change applied (VERIF_REPO), so that /repo
# itself is never touched while other work is going on; the worktree is removed afterwards
SWT = '/tmp/seed_wt_%d' % os.getpid()
subprocess.run(['git', '-C', '/repo', 'worktree', 'add', '-q', '--detach', SWT, 'HEAD'], check=True)
results = {}
try:
    rc, out = sh(['git', '-C', SWT, 'apply', os.path.join(dst, 'patch.diff')])
    if rc != 0:
        print('does not apply to /repo HEAD', out)
        meta['applies_to_repo_head'] = False
        json.dump(meta, open(os.path.join(dst, 'meta.json'), 'w'), indent=1)
        sys.exit(3)
    envc = dict(os.environ, VERIF_REPO=SWT)
    # the checks run in a private copy of /verif (the generated files under coq/gen are rewritten from the tree a
    # check is pointed at, so two checks on different trees must not share one coq/ directory)
    LANE = '/tmp/verif_lane_%d' % os.getpid()
    subprocess.run(['rsync', '-a', '--delete', '--exclude', '.git', '--exclude', '_work', '--exclude', 'replays', '--exclude', 'seeded',
                    '/verif/', LANE + '/'], check=True)
    for p in [prop] + extra:
        t0 = time.time()
        rc, out = sh(['./check', p], cwd=LANE, env=envc, timeout=3000)
        viol = [l for l in out.splitlines() if l.startswith('VIOLATION') or 'obligation FAILED' in l]
        results[p] = {'exit': rc, 'caught': rc != 0, 'lines': [v[:300] for v in viol][:6], 'wall_s': round(time.time() - t0)}
        print(p, 'exit', rc, [v[:160] for v in viol][:4])
finally:
    subprocess.run(['git', '-C', '/repo', 'worktree', 'remove', '--force', SWT])
    shutil.rmtree('/tmp/verif_lane_%d' % os.getpid(), ignore_errors=True)
meta['checks'] = results
meta['what_it_needs'] = open(os.path.join(dst, 'notes.txt')).read()[:1500] if os.path.exists(os.path.join(dst, 'notes.txt')) else ''
meta['ran'] = f'tools/seeded.py {prop} {wt} {k} {" ".join(extra)}'
json.dump(meta, open(os.path.join(dst, 'meta.json'), 'w'), indent=1)
