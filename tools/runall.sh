#!/bin/bash
# runs every claimed quick check sequentially, prints one summary line each
cd /verif
for id in $(python3 -c "import json;print(' '.join(c['property_id'] for c in json.load(open('MANIFEST.json'))['checks']))"); do
  t0=$(date +%s)
  timeout -s KILL 3000 ./check $id > /root/.vp/out/run_$id.log 2>&1
  rc=$?
  echo "$id exit=$rc $(( $(date +%s) - t0 ))s $(grep -c '^VIOLATION' /root/.vp/out/run_$id.log) violations $(grep -c '^KNOWN-FINDING' /root/.vp/out/run_$id.log) known | $(grep "^\[$id\] tier" /root/.vp/out/run_$id.log | cut -c1-120)"
done
