#!/bin/bash
# tools/seeded_batch.sh "<PROP> <k> [extra props]" ...   (worktree /tmp/mut_<prop lower>)
cd /verif
for spec in "$@"; do
  set -- $spec
  prop=$1; k=$2; shift 2
  low=$(echo $prop | tr A-Z a-z)
  echo "=== $prop-$k (extra: $*)"
  python3 tools/seeded.py $prop ${MUT_PREFIX:-/tmp/mut_}$low $k "$@" 2>&1 | tail -4 | cut -c1-300
done
