"""C01 - sent UPDATEs say exactly what the operator asked for.  H-enc + property oracle.

The generator owns a structured description of a session kind and of a route, renders the route to
configuration/API text itself and derives from the property text alone what a peer must decode.
ExaBGP gets only the text: Configuration.parse_route_text -> Neighbor.resolve_self ->
UpdateCollection([RoutedNLRI], [], attributes).messages(negotiated)  (withdraw direction:
UpdateCollection([], [nlri], attributes)).  The bytes are
  (o3) compared with Model_Encode.encode_announce / encode_withdraw evaluated in Coq (correspondence),
  (o4) decoded by the RFC reference decoder Spec_Update.ref_decode in Coq and compared with the
       generator's semantic description (property oracle; this is what yields a failing input)."""

from __future__ import annotations

import collections
import inspect
import ipaddress
import json
import random
import time

from harness import common
from harness.common import Run, zlist

FAMILIES = ('ipv4 unicast ipv4 multicast ipv6 unicast ipv6 multicast ipv4 nlri-mpls ipv6 nlri-mpls '
            'ipv4 mpls-vpn ipv6 mpls-vpn')
FAM_TUPLES = [(1, 1), (1, 2), (2, 1), (2, 2), (1, 4), (2, 4), (1, 128), (2, 128)]
SAFI_NAME = {1: 'unicast', 2: 'multicast', 4: 'nlri-mpls', 128: 'mpls-vpn'}
AFI_NAME = {1: 'ipv4', 2: 'ipv6'}
AS_TRANS = 23456
WELL_KNOWN = {'no-export': 0xFFFFFF01, 'no-advertise': 0xFFFFFF02, 'no-export-subconfed': 0xFFFFFF03,
              'nopeer': 0xFFFFFF04, 'blackhole': 0xFFFF029A}
KNOWN_CODES = {1, 2, 3, 4, 5, 6, 7, 8, 9, 10, 14, 15, 16, 17, 18, 32}
# codes that other registered attribute classes own (their generic form is sent as written; kept out of the
# generic stream so that "unknown attribute" means unknown) - read from the registry at run time too
BOUNDARY_ASN = [1, 23456, 65535, 65536, 70000, 4294967295]


# ------------------------------------------------------------------------------- sessions


def session_kinds():
    """{iBGP, eBGP} x {asn4 both, peer lacks ASN4} x {2-byte, 4-byte local AS}; an iBGP session of a
    4-byte AS with an OLD speaker cannot exist (the peer could not carry that AS)."""
    kinds = []
    for ibgp in (True, False):
        for peer_asn4 in (True, False):
            for big_local in (False, True):
                if ibgp and big_local and not peer_asn4:
                    continue
                kinds.append((ibgp, peer_asn4, big_local))
    return kinds


def gen_session(rng, kind, idx):
    ibgp, peer_asn4, big_local = kind
    local_as = rng.choice([70000, 4200000001, 65536, 4294967295]) if big_local else rng.choice([65001, 1, 65535, 64512])
    if ibgp:
        peer_as = local_as
    elif peer_asn4:
        peer_as = rng.choice([65002, 80000, 4294967294, 2])
    else:
        peer_as = rng.choice([65002, 2, 65534])
    v6 = idx % 5 == 4
    ap_mode = idx % 3  # 0 off, 1 all, 2 subset
    if ap_mode == 0:
        addpath = []
    elif ap_mode == 1:
        addpath = list(FAM_TUPLES)
    else:
        addpath = [f for f in FAM_TUPLES if rng.random() < 0.5]
    return {
        'local_as': local_as, 'peer_as': peer_as, 'peer_asn4': peer_asn4,
        'addpath': [list(f) for f in addpath],
        'msg': 4096 if idx % 2 == 0 else 65535,
        # every session has its own local address: "next-hop self" must become THAT address
        'local': f'2001:db8:9:{idx:x}::7' if v6 else f'10.9.{idx}.7',
        'peer': f'2001:db8:9:{idx:x}::1' if v6 else f'10.9.{idx}.1',
        'extnh': idx % 4 == 1,
    }


_SESS = {}


class Session:
    def __init__(self, d, conf=None, neighbor=None):
        from exabgp.bgp.message.direction import Direction
        from exabgp.bgp.message.open import ASN, HoldTime, Open, RouterID, Version
        from exabgp.bgp.message.open.capability.addpath import AddPath
        from exabgp.bgp.message.open.capability.asn4 import ASN4
        from exabgp.bgp.message.open.capability.capabilities import Capabilities
        from exabgp.bgp.message.open.capability.capability import Capability
        from exabgp.bgp.message.open.capability.mp import MultiProtocol
        from exabgp.bgp.message.open.capability.negotiated import Negotiated
        from exabgp.bgp.message.open.capability.nexthop import NextHop as NextHopCap
        from exabgp.configuration.setup import create_minimal_configuration
        from exabgp.protocol.family import AFI, SAFI

        self.d = d
        if neighbor is None:
            self.conf = create_minimal_configuration(peer_address=d['peer'], local_address=d['local'], local_as=d['local_as'],
                                                     peer_as=d['peer_as'], families=FAMILIES)
            n = self.neighbor = next(iter(self.conf.neighbors.values()))
        else:  # one neighbor of a Configuration that has several (entry-point pass)
            self.conf, n = conf, neighbor
            self.neighbor = neighbor
        fam = lambda t: (AFI.from_int(t[0]), SAFI.from_int(t[1]))  # noqa: E731
        n._addpath = [fam(t) for t in d['addpath']]
        if d['addpath']:
            n.capability.add_path = 3
        capa = Capabilities().new(n, False)
        if d['addpath']:
            capa[Capability.CODE.ADD_PATH] = AddPath(n.addpaths(), 3)
        mp = MultiProtocol()
        mp.extend(n.families())
        capa[Capability.CODE.MULTIPROTOCOL] = mp
        if d['extnh']:
            nh = NextHopCap()
            for a, s in ((1, 1), (1, 2), (1, 4), (1, 128)):
                nh.add_nexthop(AFI.from_int(a), SAFI.from_int(s), AFI.ipv6)
            capa[Capability.CODE.NEXTHOP] = nh
        capa.pop(Capability.CODE.LINK_LOCAL_NEXTHOP, None)
        peer = Capabilities()
        for k, v in capa.items():
            if k == Capability.CODE.FOUR_BYTES_ASN:
                if d['peer_asn4']:
                    peer[k] = ASN4(d['peer_as'])
                continue
            peer[k] = v
        o1 = Open.make_open(Version(4), ASN(d['local_as']), HoldTime(180), RouterID('1.1.1.1'), capa)
        o2 = Open.make_open(Version(4), ASN(d['peer_as']), HoldTime(180), RouterID('2.2.2.2'), peer)
        neg = Negotiated.make_negotiated(n, Direction.OUT)
        neg.sent(o1)
        neg.received(o2)
        neg.msg_size = d['msg']
        self.neg = neg
        # what the session turned out to be (read back, compared with the description by check())
        self.seen = {
            'local_as': int(neg.local_as), 'peer_as': int(neg.peer_as), 'asn4': bool(neg.asn4),
            'addpath': sorted([int(a), int(s)] for (a, s) in neg.families if neg.addpath.send(a, s)),
            'families': sorted([int(a), int(s)] for (a, s) in neg.families),
            'extnh': sorted([int(a), int(s), int(x)] for (a, s, x) in neg.nexthop),
            'llnh': bool(neg.linklocal_nexthop),
        }


def session(d):
    key = json.dumps(d, sort_keys=True)
    if key not in _SESS:
        _SESS[key] = Session(d)
    return _SESS[key]


def forget_ribs():
    """ExaBGP keeps the RIB of a neighbor name across Configuration objects (for reloads); a configuration built by the
    harness must start with empty Adj-RIB-Outs, or its cache would (rightly) not send again what an earlier one sent"""
    from exabgp.rib import RIB

    RIB._cache.clear()


class Fanout:
    """ONE Configuration with several neighbors (different local addresses and session kinds), as a running ExaBGP
    has; routes go in through the real fan-out entry points Configuration.announce_route / withdraw_route (what the
    API `announce route` command and the healthcheck call) and come out of every neighbor's Adj-RIB-Out."""

    def __init__(self, sds):
        from exabgp.bgp.message.open.asn import ASN
        from exabgp.bgp.neighbor.settings import NeighborSettings, SessionSettings
        from exabgp.configuration.configuration import Configuration
        from exabgp.configuration.settings import ConfigurationSettings
        from exabgp.configuration.setup import parse_family
        from exabgp.protocol.ip import IP
        from exabgp.reactor.api import API

        forget_ribs()
        settings = ConfigurationSettings()
        settings.neighbors = []
        for d in sds:
            sess_set = SessionSettings()
            sess_set.peer_address = IP.from_string(d['peer'])
            sess_set.local_address = IP.from_string(d['local'])
            sess_set.local_as = ASN(d['local_as'])
            sess_set.peer_as = ASN(d['peer_as'])
            ns = NeighborSettings()
            ns.session = sess_set
            ns.families = parse_family(FAMILIES)
            settings.neighbors.append(ns)
        self.sds = list(sds)
        self.conf = Configuration.from_settings(settings)
        by_peer = {str(n.session.peer_address): (name, n) for name, n in self.conf.neighbors.items()}
        self.names, self.sessions = [], []
        for d in sds:
            name, n = by_peer[str(IP.from_string(d['peer']))]
            self.names.append(name)
            self.sessions.append(Session(d, conf=self.conf, neighbor=n))
        self.order = list(self.conf.neighbors.keys())  # the order the fan-out loop visits the neighbors
        self.api = API(None)  # the parser half of the API needs no reactor

    def drain(self, i):
        """-> ('ok', [UPDATE bodies]) | ('exc', ...): everything neighbor i's Adj-RIB-Out yields now"""
        sess = self.sessions[i]
        bodies = []
        try:
            for update in sess.neighbor.rib.outgoing.updates(False):
                for m in update.messages(sess.neg):
                    m = bytes(m)
                    if len(m) < 19 or m[:16] != b'\xff' * 16 or m[18] != 2 or int.from_bytes(m[16:18], 'big') != len(m):
                        return ('exc', 'BadHeader', m[:19].hex(), 'messages')
                    bodies.append(m[19:])
        except Exception as e:
            return ('exc', type(e).__name__, str(e)[:200], 'rib.outgoing.updates/messages')
        return ('ok', bodies)

    def send(self, route, text, targets):
        """`announce route <text>` (then `withdraw route <text>` when route['withdraw']) for the target neighbors.
        -> (per neighbor index: impl outcome of the judged direction, exception of the command or None)"""
        peers = [self.names[i] for i in targets]
        words = text.split(' ', 1)[1]
        for i in range(len(self.sessions)):
            self.drain(i)  # nothing pending from an earlier command
        try:
            routes = self.api.api_route('announce route ' + words)
            if len(routes) != 1:
                return None, ('refused', f'{len(routes)} routes')
            self.conf.announce_route(peers, routes[0])
            out = {i: self.drain(i) for i in range(len(self.sessions))}
            if route['withdraw']:
                routes = self.api.api_route('withdraw route ' + words)
                if len(routes) != 1:
                    return None, ('refused', f'{len(routes)} routes (withdraw)')
                self.conf.withdraw_route(peers, routes[0])
                out = {i: self.drain(i) for i in range(len(self.sessions))}
        except Exception as e:
            return {i: self.drain(i) for i in range(len(self.sessions))}, ('exc', type(e).__name__, str(e)[:200])
        return out, None


_FAN = {}


def fanout(sds):
    key = json.dumps(sds, sort_keys=True)
    if key not in _FAN:
        _FAN[key] = Fanout(sds)
    return _FAN[key]


def make_entry_cases(sds, route, targets, fresh_conf=False):
    """the route text through the real fan-out; one case per target neighbor (judged against ITS session) plus what
    must NOT happen: -> (cases, problems) where problems = [(sig, what, detail)]"""
    # replays and shrink candidates get a configuration of their own: the Adj-RIB-Out cache of a long-lived one would
    # (rightly) not re-send a route it has already sent
    fan = Fanout(sds) if fresh_conf else fanout(sds)
    text = render(route)
    out, err = fan.send(route, text, targets)
    entry = {'sessions': list(sds), 'targets': list(targets), 'fan_out_order': [fan.names.index(n) for n in fan.order if n in fan.names]}
    cases, problems = [], []
    must_refuse = any(not family_matches(sds[i], route) for i in targets)
    if must_refuse:
        # "next-hop self" cannot be resolved for one target: the command errors and NO Adj-RIB-Out may have changed
        leaked = [i for i in (out or {}) if out[i] != ('ok', [])]
        if err is None or leaked:
            problems.append(('api-fan-out:unresolvable-next-hop-self-changed-a-rib',
                             'a command that must be refused (next-hop self of another family for one target) left routes in an Adj-RIB-Out',
                             {'entry': entry, 'route_text': text, 'route': route, 'error': err, 'sent': {i: list(map(str, out[i])) for i in leaked}}))
        return cases, problems
    if err is not None or out is None:
        problems.append(('api-fan-out:refused:' + str(err[1] if err else '')[:40], 'a route of the modelled domain was refused by the fan-out entry point',
                         {'entry': entry, 'route_text': text, 'route': route, 'error': err}))
        return cases, problems
    for i in range(len(sds)):
        if i not in targets:
            if out[i] != ('ok', []):
                problems.append(('api-fan-out:route-sent-to-a-neighbor-not-addressed', 'a neighbor outside the selection was sent something',
                                 {'entry': entry, 'route_text': text, 'route': route, 'neighbor': sds[i], 'sent': list(map(str, out[i]))}))
            continue
        sess = fan.sessions[i]
        cases.append({'sd': sds[i], 'sess': sess, 'route': route, 'text': text, 'impl': out[i], 'self': self_addrs(sess),
                      'entry': dict(entry, index=i), 'fresh': run_impl(session(sds[i]), route, text)})
    return cases, problems


def config_text(sds, texts):
    """a configuration file: ONE template whose static routes are inherited by every neighbor"""
    # the configuration grammar has no `ipv6 multicast` (and the route grammar never makes an ipv6 multicast route)
    fams = ' '.join(f'{AFI_NAME[a]} {SAFI_NAME[f]};' for a, f in FAM_TUPLES if (a, f) != (2, 2))
    lines = ['template {', '    neighbor shared {', f'        family {{ {fams} }}', '        static {']
    lines += [f'            {t};' for t in texts]
    lines += ['        }', '    }', '}']
    for d in sds:
        lines.append(f'neighbor {d["peer"]} {{ inherit shared; router-id 10.255.0.1; local-address {d["local"]}; '
                     f'local-as {d["local_as"]}; peer-as {d["peer_as"]}; }}')
    return '\n'.join(lines) + '\n'


def make_config_cases(sds, routes):
    """routes of a template shared by several neighbors, read from a configuration FILE (Configuration.reload pushes them
    into every neighbor's Adj-RIB-Out, resolving next-hop self per neighbor).  -> (cases, problems)"""
    from exabgp.configuration.configuration import Configuration
    from exabgp.protocol.ip import IP

    texts = [render(r) for r in routes]
    text = config_text(sds, texts)
    entry = {'sessions': list(sds), 'targets': list(range(len(sds))), 'fan_out_order': [], 'template_routes': list(routes)}
    forget_ribs()
    conf = Configuration([text], text=True)
    try:
        ok = conf.reload()
    except Exception as e:
        return [], [('config-template:exception:' + type(e).__name__, 'a template of routes of the modelled domain makes Configuration.reload raise',
                     {'entry': entry, 'configuration': text, 'error': str(e)[:300]})]
    if not ok:
        return [], [('config-template:refused', 'a template of routes of the modelled domain is refused',
                     {'entry': entry, 'configuration': text, 'error': str(conf.error)[:300]})]
    by_peer = {str(n.session.peer_address): n for n in conf.neighbors.values()}
    cases, problems = [], []
    key_of = lambda r: (r['afi'], r['safi'], f'{ip_text(r["ip"])}/{r["mask"]}')  # noqa: E731
    for i, d in enumerate(sds):
        n = by_peer[str(IP.from_string(d['peer']))]
        sess = Session(d, conf=conf, neighbor=n)
        got = {}
        try:
            for update in n.rib.outgoing.updates(False):
                nl = update.announces[0].nlri
                k = (int(nl.afi), int(nl.safi), nl.cidr.prefix())
                got[k] = [bytes(m)[19:] for m in update.messages(sess.neg)]
        except Exception as e:
            problems.append(('config-template:exception:' + type(e).__name__, 'draining the Adj-RIB-Out of a configured neighbor raises',
                             {'entry': entry, 'configuration': text, 'neighbor': d, 'error': str(e)[:300]}))
            continue
        for r, t in zip(routes, texts):
            cases.append({'sd': d, 'sess': sess, 'route': r, 'text': t, 'impl': ('ok', got.get(key_of(r), [])), 'self': self_addrs(sess),
                          'entry': dict(entry, index=i, config=True), 'fresh': run_impl(session(d), r, t)})
    return cases, problems


# ------------------------------------------------------------------------------- routes (structured)


def rand_asn(rng):
    r = rng.random()
    if r < 0.35:
        return rng.choice(BOUNDARY_ASN)
    if r < 0.7:
        return rng.randrange(1, 65536)
    return rng.randrange(65536, 2**32)


def rand_ip4(rng):
    return [rng.randrange(1, 224), rng.randrange(256), rng.randrange(256), rng.randrange(1, 255)]


def rand_ip6(rng):
    return [0x20, 0x01, 0x0d, 0xb8] + [rng.randrange(256) for _ in range(11)] + [rng.randrange(1, 255)]


def gen_prefix(rng, afi, want_mcast):
    bits = 32 if afi == 1 else 128
    mask = rng.choice([0, 1, 7, 8, 9, 15, 16, 17, 23, 24, 25, 31, 32] + ([33, 47, 48, 56, 63, 64, 65, 96, 120, 127, 128] if afi == 2 else []))
    mask = min(mask, bits)
    raw = [rng.randrange(256) for _ in range(bits // 8)]
    if afi == 1:
        raw[0] = rng.randrange(224, 240) if want_mcast else rng.randrange(1, 224)
        if want_mcast:
            mask = max(mask, 4)
    else:
        raw[0] = 0xFF if want_mcast else rng.choice([0x20, 0x2a, 0xfd, 0x00])
        if want_mcast:
            mask = max(mask, 8)
    v = int.from_bytes(bytes(raw), 'big') >> (bits - mask) << (bits - mask) if mask else 0
    if mask == 0 and want_mcast:
        mask = 8
    return list(v.to_bytes(bits // 8, 'big')), mask


def gen_attrs(rng, stream):
    """-> list of (kind, value) in the order they are written"""
    out = []
    p = 0.45 if stream != 'plain' else 0.0
    if rng.random() < p:
        out.append(('origin', rng.randrange(3)))
    if rng.random() < p + 0.2 * (stream == 'aspath'):
        segs = []
        nseg = rng.choice([1, 1, 1, 2, 3])
        for _ in range(nseg):
            ty = 2 if rng.random() < 0.7 else 1
            # an AS_SET of more than 255 ASNs has no wire form (one count octet): only sequences get long
            if stream == 'aspath' and ty == 2 and rng.random() < 0.3:
                n = rng.choice([254, 255, 256, 300, 511])
            else:
                n = rng.choice([1, 1, 2, 3, 5])
            segs.append([ty, [rand_asn(rng) for _ in range(n)]])
        out.append(('as-path', segs))
    if rng.random() < p:
        out.append(('med', rng.choice([0, 1, 100, 2**32 - 1, rng.randrange(2**32)])))
    if rng.random() < p:
        out.append(('local-preference', rng.choice([0, 100, 200, 2**32 - 1, rng.randrange(2**32)])))
    if rng.random() < p / 2:
        out.append(('atomic-aggregate', None))
    if rng.random() < p:
        out.append(('aggregator', [rand_asn(rng), rand_ip4(rng)]))
    if rng.random() < p:
        n = rng.choice([1, 2, 3, 5, 63, 64, 65] if stream == 'big' else [1, 1, 2, 3, 5])
        out.append(('community', [rng.choice(list(WELL_KNOWN.values()) + [rng.randrange(2**32) for _ in range(6)] + [65536 * 65000 + 1])
                                  for _ in range(n)]))
    if rng.random() < p / 2:
        out.append(('originator-id', rand_ip4(rng)))
    if rng.random() < p / 2:
        out.append(('cluster-list', [rand_ip4(rng) for _ in range(rng.choice([1, 1, 2, 4]))]))
    if rng.random() < p:
        n = rng.choice([1, 1, 2, 3, 31, 32, 33] if stream == 'big' else [1, 1, 2, 3])
        vals = []
        for _ in range(n):
            r = rng.random()
            if r < 0.4:
                vals.append(['hex', rng.randrange(2**64)])
            elif r < 0.7:
                vals.append(['target', rng.randrange(65536), rng.randrange(2**32)])
            else:
                vals.append(['origin', rng.randrange(65536), rng.randrange(2**32)])
        if rng.random() < 0.3:
            vals.append(list(vals[0]))
        out.append(('extended-community', vals))
    if rng.random() < p:
        n = rng.choice([1, 2, 21, 22] if stream == 'big' else [1, 1, 2, 3])
        vals = [[rng.choice([0, 1, 65000, 2**32 - 1, rng.randrange(2**32)]) for _ in range(3)] for _ in range(n)]
        if rng.random() < 0.3:
            vals.append(list(vals[0]))
        out.append(('large-community', vals))
    ngen = 0
    if rng.random() < p / 2:
        ngen = rng.choice([1, 1, 2])
    used = set()
    for _ in range(ngen):
        code = rng.choice([c for c in (11, 12, 13, 19, 20, 21, 24, 27, 28, 30, 31, 33, 99, 128, 153, 200, 254, 255) if c not in used])
        used.add(code)
        flag = rng.choice([0xC0, 0x80, 0x40, 0xE0, 0xD0, 0x90, 0x00])
        if stream == 'big':
            ln = rng.choice([0, 1, 254, 255, 256, 257, 700])
        else:
            ln = rng.choice([0, 1, 2, 4, 9])
        out.append(('attribute', [code, flag, [rng.randrange(256) for _ in range(ln)]]))
    rng.shuffle(out)
    return out


def gen_route(rng, sd, stream):
    afi = 1 if rng.random() < 0.55 else 2
    r = rng.random()
    kind = 'inet' if r < 0.5 else ('label' if r < 0.75 else 'vpn')
    # the `route` grammar has no family keyword: IP.tosafi makes an ipv4 prefix of 224.0.0.0/4 a multicast route;
    # an ipv6 prefix is always unicast (ff00::/8 included)
    mcast = kind == 'inet' and rng.random() < 0.12
    ip, mask = gen_prefix(rng, afi, mcast)
    safi = {'inet': 2 if (mcast and afi == 1) else 1, 'label': 4, 'vpn': 128}[kind]
    route = {'afi': afi, 'safi': safi, 'ip': ip, 'mask': mask, 'pid': None, 'labels': [], 'rd': None, 'stream': stream}
    if rng.random() < 0.5:
        route['pid'] = rng.choice([0, 1, 5, 2**32 - 1, rng.randrange(2**32)])
        route['pid_dotted'] = rng.random() < 0.3
    if kind in ('label', 'vpn'):
        n = rng.choice([1, 1, 1, 2, 3])
        # the NLRI length octet counts labels + rd + prefix bits: what does not fit 255 has no wire form
        while 24 * n + (64 if kind == 'vpn' else 0) + mask > 255:
            n -= 1
        route['labels'] = [rng.choice([3, 16, 100, 2**20 - 1, rng.randrange(16, 2**20)]) for _ in range(n)]
        if n > 1 and route['labels'][0] == 524288:  # 0x800000: the RFC 8277 withdraw compatibility value (C15's sentinel)
            route['labels'][0] = 524289
    if kind == 'vpn':
        t = rng.randrange(3)
        if t == 0:
            route['rd'] = ['as2', rng.randrange(65536), rng.randrange(2**32)]
        elif t == 1:
            route['rd'] = ['ip', rand_ip4(rng), rng.randrange(65536)]
        else:
            route['rd'] = ['as4', rng.randrange(65536, 2**32), rng.randrange(65536)]
    local_v6 = ':' in sd['local']
    # next hop: same family as the route; "self" when the session transport has the route's family
    if rng.random() < 0.25 and (afi == 2) == local_v6:
        route['nh'] = 'self'
    elif stream == 'extnh' and afi == 1:
        route['nh'] = rand_ip6(rng)
    elif stream == 'cross' and afi == 2:
        route['nh'] = rand_ip4(rng)  # an IPv4 next hop for an IPv6-family route
    else:
        route['nh'] = rand_ip4(rng) if afi == 1 else rand_ip6(rng)
    route['attrs'] = gen_attrs(rng, stream)
    route['withdraw'] = rng.random() < 0.2
    return route


# ------------------------------------------------------------------------------- text


def ip_text(b):
    return str(ipaddress.ip_address(bytes(b)))


def asn_text(rng_bit, v):
    if rng_bit and v > 65535:
        return f'{v >> 16}.{v & 0xFFFF}'
    return str(v)


def rd_bytes(rd):
    if rd[0] == 'as2':
        return [0, 0] + list(rd[1].to_bytes(2, 'big')) + list(rd[2].to_bytes(4, 'big'))
    if rd[0] == 'ip':
        return [0, 1] + list(rd[1]) + list(rd[2].to_bytes(2, 'big'))
    return [0, 2] + list(rd[1].to_bytes(4, 'big')) + list(rd[2].to_bytes(2, 'big'))


def ext_value(v):
    """RFC 4360: two-octet AS specific (type 0x00), route target 0x02 / route origin 0x03"""
    if v[0] == 'hex':
        return v[1]
    sub = 2 if v[0] == 'target' else 3
    return (sub << 48) | (v[1] << 32) | v[2]


def render(route):
    words = ['route', f'{ip_text(route["ip"])}/{route["mask"]}']
    words += ['next-hop', 'self' if route['nh'] == 'self' else ip_text(route['nh'])]
    if route['pid'] is not None:
        words += ['path-information', ip_text(route['pid'].to_bytes(4, 'big')) if route.get('pid_dotted') else str(route['pid'])]
    if route['rd'] is not None:
        rd = route['rd']
        words += ['rd', f'{ip_text(rd[1])}:{rd[2]}' if rd[0] == 'ip' else f'{rd[1]}:{rd[2]}']
    if route['labels']:
        ls = route['labels']
        words += ['label'] + ([str(ls[0])] if len(ls) == 1 and route['mask'] % 2 else ['['] + [str(x) for x in ls] + [']'])
    for k, (kind, v) in enumerate(route['attrs']):
        if kind == 'origin':
            words += ['origin', ['igp', 'egp', 'incomplete'][v]]
        elif kind == 'as-path':
            if len(v) == 1 and v[0][0] == 2 and len(v[0][1]) == 1 and k % 2:
                words += ['as-path', str(v[0][1][0])]
            else:
                words += ['as-path']
                for ty, asns in v:
                    words += ['[' if ty == 2 else '('] + [asn_text((a + k) % 3 == 0, a) for a in asns] + [']' if ty == 2 else ')']
        elif kind in ('med', 'local-preference'):
            words += [kind, str(v)]
        elif kind == 'atomic-aggregate':
            words += [kind]
        elif kind == 'aggregator':
            words += ['aggregator', '(', f'{v[0]}:{ip_text(v[1])}', ')']
        elif kind == 'community':
            toks = []
            for j, c in enumerate(v):
                names = [nm for nm, val in WELL_KNOWN.items() if val == c]
                if names:
                    toks.append(names[0])
                elif j % 3 == 0:
                    toks.append(f'{c >> 16}:{c & 0xFFFF}')
                elif j % 3 == 1:
                    toks.append(f'0x{c:x}')
                else:
                    toks.append(str(c))
            words += ['community'] + (toks if len(toks) == 1 and k % 2 else ['['] + toks + [']'])
        elif kind == 'originator-id':
            words += [kind, ip_text(v)]
        elif kind == 'cluster-list':
            words += [kind] + ([ip_text(v[0])] if len(v) == 1 and k % 2 else ['['] + [ip_text(x) for x in v] + [']'])
        elif kind == 'extended-community':
            toks = [f'0x{e[1]:016x}' if e[0] == 'hex' else f'{e[0]}:{e[1]}:{e[2]}' for e in v]
            words += [kind] + (toks if len(toks) == 1 and k % 2 else ['['] + toks + [']'])
        elif kind == 'large-community':
            toks = [f'{a}:{b}:{c}' for a, b, c in v]
            words += [kind] + (toks if len(toks) == 1 and k % 2 else ['['] + toks + [']'])
        elif kind == 'attribute':
            words += ['attribute', '[', f'0x{v[0]:02x}', f'0x{v[1]:02X}', '0x' + bytes(v[2]).hex(), ']']
    return ' '.join(words)


# ------------------------------------------------------------------------------- implementation side


def run_impl(sess, route, text):
    """-> ('ok', [body bytes]) | ('refused', why) | ('exc', type, text, where)"""
    import traceback

    from exabgp.bgp.message.update.collection import RoutedNLRI, UpdateCollection

    parsed = parse_once(sess, text)
    if not isinstance(parsed, list):
        return parsed
    return encode_parsed(sess, route, parsed[0])


def parse_once(sess, text):
    """-> [Route] | ('refused', why) | ('exc', ...)"""
    try:
        routes = sess.conf.parse_route_text(text)
    except Exception as e:  # an exception out of the parser is an observation (C18's subject)
        return ('exc', type(e).__name__, str(e)[:200], 'parse_route_text')
    if len(routes) != 1:
        return ('refused', f'{len(routes)} routes: {str(sess.conf.error)[:160] if hasattr(sess.conf, "error") else ""}')
    return routes


def encode_parsed(sess, route, parsed_route):
    """resolve_self + messages() of an already parsed Route object for one session"""
    import traceback

    from exabgp.bgp.message.update.collection import RoutedNLRI, UpdateCollection

    try:
        r = sess.neighbor.resolve_self(parsed_route)
    except Exception as e:
        return ('exc', type(e).__name__, str(e)[:200], 'resolve_self')
    try:
        if route['withdraw']:
            u = UpdateCollection([], [r.nlri], r.attributes)
        else:
            u = UpdateCollection([RoutedNLRI(r.nlri, r.nexthop)], [], r.attributes)
        msgs = [bytes(m) for m in u.messages(sess.neg)]
    except RuntimeError as e:
        if 'NLRI too large' in str(e):
            return ('ok', [])
        return ('exc', 'RuntimeError', str(e)[:200], 'messages')
    except Exception as e:
        tb = traceback.extract_tb(e.__traceback__)
        return ('exc', type(e).__name__, str(e)[:200], tb[-1].name if tb else 'messages')
    bodies = []
    for m in msgs:
        if len(m) < 19 or m[:16] != b'\xff' * 16 or m[18] != 2 or int.from_bytes(m[16:18], 'big') != len(m):
            return ('exc', 'BadHeader', m[:19].hex(), 'messages')
        bodies.append(m[19:])
    return ('ok', bodies)


def multicast_in_plain_field():
    """Does messages() put ipv4 multicast into the plain IPv4 fields?  Read from its source, fail closed."""
    from exabgp.bgp.message.update.collection import UpdateCollection

    src = inspect.getsource(UpdateCollection.messages)
    if src.count('is_v4 = is_v4 and nlri.safi in [SAFI.unicast, SAFI.multicast]') == 2:
        return True
    if src.count('is_v4 = is_v4 and nlri.safi == SAFI.unicast') == 2:
        return False
    raise RuntimeError('UpdateCollection.messages: the IPv4/MP classification is not one of the two known forms')


def v4_nexthop_mapped(sess):
    """How does MPNLRICollection._encode_nexthop send the IPv4 next hop of an IPv6-family route?  Behaviour
    probe, fail closed: 4 octets as they are (False) or IPv4-mapped ::ffff:a.b.c.d (True)."""
    from exabgp.bgp.message.update.nlri.collection import MPNLRICollection
    from exabgp.protocol.family import AFI, SAFI
    from exabgp.protocol.ip import IP

    out = bytes(MPNLRICollection([], {}, AFI.ipv6, SAFI.unicast)._encode_nexthop(IP.from_string('1.2.3.4'), (AFI.ipv6, SAFI.unicast), sess.neg))
    if out == bytes([1, 2, 3, 4]):
        return False
    if out == bytes(10) + b'\xff\xff' + bytes([1, 2, 3, 4]):
        return True
    raise RuntimeError(f'_encode_nexthop(1.2.3.4) for ipv6 unicast gives {out.hex()}: neither of the two modelled forms')


# ------------------------------------------------------------------------------- abstract values for Coq


def raw_labels(ls):
    return [(x << 4) | (1 if i == len(ls) - 1 else 0) for i, x in enumerate(ls)]


def coq_nlri(route):
    size = (route['mask'] + 7) // 8
    pid = 'None' if route['pid'] is None else f'(Some {zlist(route["pid"].to_bytes(4, "big"))})'
    rd = zlist(rd_bytes(route['rd'])) if route['rd'] is not None else '[]'
    return f'(mkN {route["afi"]} {route["safi"]} {pid} {zlist(raw_labels(route["labels"]))} {rd} {route["mask"]} {zlist(route["ip"][:size])})'


def coq_segs(segs):
    return '[' + ';'.join(f'({ty},{zlist(asns)})' for ty, asns in segs) + ']'


def coq_item(kind, v):
    if kind == 'origin':
        return f'IOrigin {v}'
    if kind == 'as-path':
        return f'IAsPath {coq_segs(v)}'
    if kind == 'med':
        return f'IMed {v}'
    if kind == 'local-preference':
        return f'ILocalPref {v}'
    if kind == 'atomic-aggregate':
        return 'IAtomic'
    if kind == 'aggregator':
        return f'IAggregator {v[0]} {zlist(v[1])}'
    if kind == 'community':
        return f'ICommunity {zlist(v)}'
    if kind == 'originator-id':
        return f'IOriginator {zlist(v)}'
    if kind == 'cluster-list':
        return f'ICluster {zlist([int.from_bytes(bytes(x), "big") for x in v])}'
    if kind == 'extended-community':
        return f'IExtended {zlist([ext_value(e) for e in v])}'
    if kind == 'large-community':
        return f'ILarge {zlist([(a << 64) | (b << 32) | c for a, b, c in v])}'
    if kind == 'attribute':
        return f'IGeneric {v[0]} {v[1]} {common.zbytes(v[2])}'
    raise ValueError(kind)


def coq_fams(fams):
    return '[' + ';'.join(f'({a},{s})' for a, s in fams) + ']'


def coq_sess(sd, seen, self4, self6):
    return (f'(mkS {seen["local_as"]} {seen["peer_as"]} {"true" if seen["asn4"] else "false"} (famf {coq_fams(seen["addpath"])}) '
            f'{sd["msg"]} {zlist(self4)} {zlist(self6)})')


def coq_route(route):
    nh = 'NhSelf' if route['nh'] == 'self' else f'(NhIp {zlist(route["nh"])})'
    return f'(mkRt {coq_nlri(route)} {nh} [' + ';'.join(coq_item(k, v) for k, v in route['attrs']) + '])'


def coq_optbytes(b):
    return 'None' if b is None else f'(Some {common.zbytes(b)})'


# ------------------------------------------------------------------------------- the property, from its text


def expected(sd, route):
    """What a peer must decode, written from the property text (not from the code, not from the model).
    -> dict(family, nlri=(pid, labels, rd, len, addr), nh, attrs=[sattr text sorted by key], raw2, raw4)"""
    fam = (route['afi'], route['safi'])
    ap = list(fam) in sd['addpath']
    size = (route['mask'] + 7) // 8
    pid = (route['pid'] if route['pid'] is not None else 0) if ap else None
    rd = int.from_bytes(bytes(rd_bytes(route['rd'])), 'big') if route['rd'] is not None else None
    addr = int.from_bytes(bytes(route['ip'][:size]), 'big') if size else 0
    local = list(ipaddress.ip_address(sd['local']).packed)
    nh = local if route['nh'] == 'self' else route['nh']
    if route['afi'] == 2 and len(nh) == 4:
        # the next hop of an IPv6 family is an IPv6 address (RFC 2545 3, RFC 4659 3.2.1): the IPv4 address the
        # operator wrote can only be carried IPv4-mapped (RFC 4798 2, RFC 4659 3.2.1.2)
        nh = [0] * 10 + [255, 255] + list(nh)
    given = dict(route['attrs'])
    ibgp = sd['local_as'] == sd['peer_as']
    attrs = []  # (key, coq text)
    attrs.append((1, f'SOrigin {given.get("origin", 0)}'))
    if 'as-path' in given:
        path = [[ty, list(asns)] for ty, asns in given['as-path'] if asns]
    else:
        path = [] if ibgp else [[2, [sd['local_as']]]]
    attrs.append((2, f'SAsPath {coq_segs(path)}'))
    if 'med' in given:
        attrs.append((4, f'SMed {given["med"]}'))
    if ibgp:
        attrs.append((5, f'SLocalPref {given.get("local-preference", 100)}'))
    if 'atomic-aggregate' in given:
        attrs.append((6, 'SAtomic'))
    if 'aggregator' in given:
        attrs.append((7, f'SAggregator {given["aggregator"][0]} {zlist(given["aggregator"][1])}'))
    if 'community' in given:
        attrs.append((8, f'SCommunity {zlist(sorted(set(given["community"])))}'))
    if 'originator-id' in given:
        attrs.append((9, f'SOriginator {zlist(given["originator-id"])}'))
    if 'cluster-list' in given:
        attrs.append((10, f'SCluster {zlist([int.from_bytes(bytes(x), "big") for x in given["cluster-list"]])}'))
    if 'extended-community' in given:
        attrs.append((16, f'SExtended {zlist(sorted(set(ext_value(e) for e in given["extended-community"])))}'))
    if 'large-community' in given:
        attrs.append((32, f'SLarge {zlist(sorted(set((a << 64) | (b << 32) | c for a, b, c in given["large-community"])))}'))
    for kind, v in route['attrs']:
        if kind == 'attribute':
            attrs.append((1000 + v[0], f'SOther {v[1] & 0xEF} {v[0]} {common.zbytes(v[2])}'))
    attrs.sort(key=lambda t: t[0])
    asn4 = sd['peer_asn4']
    raw2 = None if asn4 else [[ty, [a if a <= 65535 else AS_TRANS for a in asns]] for ty, asns in path]
    return {'fam': fam, 'pid': pid, 'labels': list(route['labels']), 'rd': rd, 'len': route['mask'], 'addr': addr,
            'nh': nh, 'attrs': [t for _, t in attrs], 'raw2': raw2, 'path': path,
            'large_asn': any(a > 65535 for _, asns in path for a in asns)}


def coq_opt(x):
    return 'None' if x is None else f'(Some {x})'


def coq_expect(sd, route):
    e = expected(sd, route)
    labels = [] if route['withdraw'] else e['labels']
    rr = f'(mkR {coq_opt(e["pid"])} {zlist(labels)} {coq_opt(e["rd"])} {e["len"]} {e["addr"]})'
    fam = f'({e["fam"][0]},{e["fam"][1]})'
    raw2 = 'false' if e['raw2'] is None else 'true'
    return (f'(mkE {"true" if route["withdraw"] else "false"} {fam} {rr} {zlist(e["nh"])} [' + ';'.join(e['attrs']) + f'] {raw2} '
            f'{"true" if e["large_asn"] else "false"})')


HEADER = """From Coq Require Import ZArith Bool List.
From ExaV Require Import gen.Gen_NlriRegistry model.Model_Nlri model.Model_Attr model.Model_Encode spec.Spec_Nlri spec.Spec_Update.
Import ListNotations. Open Scope Z_scope.
Definition famf (l : list (Z * Z)) (a s : Z) : bool := existsb (fun f => (fst f =? a) && (snd f =? s)) l.
Fixpoint leqb (a b : list Z) : bool :=
  match a, b with [], [] => true | x :: a', y :: b' => (x =? y) && leqb a' b' | _, _ => false end.
Definition oleqb (a b : option (list Z)) : bool :=
  match a, b with None, None => true | Some x, Some y => leqb x y | _, _ => false end.
Definition ozeqb (a b : option Z) : bool :=
  match a, b with None, None => true | Some x, Some y => x =? y | _, _ => false end.
Fixpoint bad {A} (f : A -> bool) (l : list A) (i : nat) : list nat :=
  match l with [] => [] | c :: l' => if f c then bad f l' (S i) else i :: bad f l' (S i) end.
(* ---- correspondence: (multicast-in-plain-field flag, session, withdraw?, route, implementation bytes) *)
Definition model_of (c : bool * bool * sess * bool * route * option (list Z)) : option (list Z) :=
  match c with (mc, v4m, s, w, r, _) =>
    if w then encode_withdraw mc s (r_nlri r) (items_of s r) else encode_announce mc v4m s r end.
Definition corr_ok (c : bool * bool * sess * bool * route * option (list Z)) : bool :=
  match c with (_, _, _, _, _, impl) => oleqb (model_of c) impl end.
(* ---- property oracle (glue): expected semantic value, canonical forms *)
Record expect := mkE { e_wd : bool; e_fam : Z * Z; e_nlri : rfc_route; e_nh : list Z; e_attrs : list sattr;
                       e_2byte : bool; e_large : bool }.
Definition rr_eqb (a b : rfc_route) : bool :=
  ozeqb (r_pid a) (r_pid b) && leqb (r_labels a) (r_labels b) && ozeqb (r_rd a) (r_rd b)
  && (r_len a =? r_len b) && (r_addr a =? r_addr b).
Fixpoint insz (x : Z) (l : list Z) : list Z :=
  match l with [] => [x] | y :: r => if x <? y then x :: l else if x =? y then l else y :: insz x r end.
Definition setz (l : list Z) : list Z := fold_right insz [] l.
Fixpoint segs_eqb (a b : list (Z * list Z)) : bool :=
  match a, b with [], [] => true | (t, x) :: a', (u, y) :: b' => (t =? u) && leqb x y && segs_eqb a' b' | _, _ => false end.
(* adjacent AS_SEQUENCE segments are one sequence (a sequence longer than 255 must be cut on the wire) *)
Fixpoint join_seq (p : list (Z * list Z)) : list (Z * list Z) :=
  match p with
  | (2, x) :: r => match join_seq r with (2, y) :: r' => (2, x ++ y) :: r' | jr => (2, x) :: jr end
  | sg :: r => sg :: join_seq r
  | [] => []
  end.
Definition osegs_eqb (a b : option (list (Z * list Z))) : bool :=
  match a, b with None, None => true | Some x, Some y => segs_eqb (join_seq x) (join_seq y) | _, _ => false end.
Definition akey (a : sattr) : Z :=
  match a with SOrigin _ => 1 | SAsPath _ => 2 | SMed _ => 4 | SLocalPref _ => 5 | SAtomic => 6 | SAggregator _ _ => 7
  | SCommunity _ => 8 | SOriginator _ => 9 | SCluster _ => 10 | SExtended _ => 16 | SLarge _ => 32 | SOther _ c _ => 1000 + c end.
Definition sattr_eqb (a b : sattr) : bool :=
  match a, b with
  | SOrigin x, SOrigin y | SMed x, SMed y | SLocalPref x, SLocalPref y => x =? y
  | SAsPath x, SAsPath y => segs_eqb (join_seq x) (join_seq y)
  | SAtomic, SAtomic => true
  | SAggregator x i, SAggregator y j => (x =? y) && leqb i j
  | SCommunity x, SCommunity y | SExtended x, SExtended y | SLarge x, SLarge y => leqb (setz x) (setz y)
  | SOriginator x, SOriginator y | SCluster x, SCluster y => leqb x y
  | SOther f c d, SOther g e h => (f =? g) && (c =? e) && leqb d h
  | _, _ => false
  end.
Fixpoint insa (x : sattr) (l : list sattr) : list sattr :=
  match l with [] => [x] | y :: r => if akey x <? akey y then x :: l else y :: insa x r end.
Fixpoint attrs_eqb (a b : list sattr) : bool :=
  match a, b with [], [] => true | x :: a', y :: b' => sattr_eqb x y && attrs_eqb a' b' | _, _ => false end.
(* what a 2-byte peer must see in AS_PATH: AS_TRANS in every slot of an ASN above 65535 *)
Definition as_trans_of (l : list sattr) : list (Z * list Z) :=
  flat_map (fun a => match a with SAsPath p => map (fun sg => (fst sg, map (fun v => if 65535 <? v then 23456 else v) (snd sg))) p | _ => [] end) l.
(* the property judged on the bytes the implementation sent *)
Definition judge (rs : rsess) (e : expect) (body : list Z) : Z :=
  match ref_decode rs body with
  | None => 1                                            (* not decodable under the RFC wire rules *)
  | Some u =>
    if e_wd e then
      match u_withdrawn u, u_announced u with
      | [(f, r)], [] => if negb ((fst f =? fst (e_fam e)) && (snd f =? snd (e_fam e))) then 2
                        else if rr_eqb r (e_nlri e) then 0 else 3
      | _, _ => 4
      end
    else
      match u_withdrawn u, u_announced u with
      | [], [(f, r, nh)] =>
        if negb ((fst f =? fst (e_fam e)) && (snd f =? snd (e_fam e))) then 2
        else if negb (rr_eqb r (e_nlri e)) then 3
        else if negb (leqb nh (e_nh e)) then 5
        else if negb (attrs_eqb (fold_right insa [] (u_attrs u)) (e_attrs e)) then 6
        else match (if e_2byte e then Some (as_trans_of (e_attrs e)) else None) with
             | None => match u_raw_as4path u with None => 0 | Some _ => 8 end
             | Some p2 => if negb (osegs_eqb (u_raw_aspath u) (Some p2)) then 7
                          else if negb (Bool.eqb (match u_raw_as4path u with Some _ => true | None => false end) (e_large e)) then 8
                          else 0
             end
      | _, _ => 4
      end
  end.
Definition judge_all (l : list (rsess * expect * list Z)) : list Z :=
  map (fun c => match c with (rs, e, b) => judge rs e b end) l.
"""

VERDICT = {1: 'not-decodable', 2: 'wrong-family', 3: 'wrong-nlri', 4: 'wrong-route-count', 5: 'wrong-next-hop',
           6: 'wrong-attributes', 7: 'as-path-not-as-trans', 8: 'as4-path-presence'}


def coq_rsess(sd, extnh_all=False):
    ext = [(1, 1), (1, 2), (1, 4), (1, 128)] if (sd['extnh'] or extnh_all) else []
    return (f'(mkRS {"true" if sd["peer_asn4"] else "false"} (famf {coq_fams(sd["addpath"])}) (famf {coq_fams(ext)}))')


def self_addrs(sess):
    from exabgp.protocol.family import AFI

    out = []
    for afi in (AFI.ipv4, AFI.ipv6):
        try:
            out.append(list(bytes(sess.neighbor.ip_self(afi).pack_ip())))
        except Exception:
            out.append([])
    return out


# ------------------------------------------------------------------------------- check


def shrink(route):
    """candidates with one part removed / simplified"""
    for i in range(len(route['attrs'])):
        c = dict(route, attrs=route['attrs'][:i] + route['attrs'][i + 1:])
        yield c
    if route['pid'] is not None:
        yield dict(route, pid=None)
    if len(route['labels']) > 1:
        yield dict(route, labels=route['labels'][:1])
    for i, (kind, v) in enumerate(route['attrs']):
        if kind == 'as-path' and (len(v) > 1 or len(v[0][1]) > 1):
            for cand in ([v[0]], [[v[0][0], v[0][1][:1]]], [[sg[0], [a for a in sg[1] if a > 65535][:1] or sg[1][:1]] for sg in v[:1]]):
                yield dict(route, attrs=route['attrs'][:i] + [(kind, cand)] + route['attrs'][i + 1:])
        if kind in ('community', 'extended-community', 'large-community', 'cluster-list') and len(v) > 1:
            yield dict(route, attrs=route['attrs'][:i] + [(kind, v[:1])] + route['attrs'][i + 1:])


def evaluate(cases, mc, tag):
    """cases: list of dict(sd, sess, route, text, impl); mc = (multicast in plain field, v4 next hop mapped).
    -> (ran, corr_bad, verdicts{index: code}, logs)"""
    live = [k for k, c in enumerate(cases) if c['impl'][0] == 'ok']
    weight = lambda k: 400 + sum(len(b) for b in cases[k]['impl'][1]) * 2 + len(cases[k]['text'])  # noqa: E731
    shards, cur, cur_w = [], [], 0
    for k in live:
        if cur and cur_w + weight(k) > 45000:
            shards.append(cur)
            cur, cur_w = [], 0
        cur.append(k)
        cur_w += weight(k)
    if cur:
        shards.append(cur)

    def body_of(c):
        bodies = c['impl'][1]
        return bodies[0] if len(bodies) == 1 else None

    def defs(idx):
        b_defs, m_items, j_items = [], [], []
        for k in idx:
            c = cases[k]
            s4, s6 = c['self']
            b = body_of(c)
            if b is not None:
                b_defs.append(f'Definition b{k} : list Z := {common.zbytes(b)}.')
            m_items.append(f'({"true" if mc[0] else "false"}, {"true" if mc[1] else "false"}, {coq_sess(c["sd"], c["sess"].seen, s4, s6)}, '
                           f'{"true" if c["route"]["withdraw"] else "false"}, {coq_route(c["route"])}, '
                           f'{"None" if b is None else f"(Some b{k})"})')
            if b is not None:
                j_items.append(f'({coq_rsess(c["sd"])}, {coq_expect(c["sd"], c["route"])}, b{k})')
        return ('\n'.join(b_defs) + '\n'
                'Definition mcases : list (bool * bool * sess * bool * route * option (list Z)) := [' + ';\n'.join(m_items) + '].\n'
                'Eval vm_compute in (bad corr_ok mcases 0).\n'
                'Definition jcases : list (rsess * expect * list Z) := [' + ';\n'.join(j_items) + '].\n'
                'Eval vm_compute in (judge_all jcases).\n')

    res = common.eval_cases(HEADER, defs, shards, tag)
    ran = all(rc == 0 for rc, _, _ in res)
    corr_bad, verdicts, logs = [], {}, []
    for shard, (rc, out, parsed) in zip(shards, res):
        if rc != 0 or len(parsed) < 2:
            logs.append(out[-1500:])
            continue
        corr_bad += [shard[j] for j in common.nat_list_of(parsed[0])]
        judged = [k for k in shard if body_of(cases[k]) is not None]
        codes = common.nat_list_of(parsed[1])
        if len(codes) != len(judged):
            logs.append(f'judge output length {len(codes)} != {len(judged)}: {parsed[1][:300]}')
            ran = False
            continue
        for k, code in zip(judged, codes):
            verdicts[k] = code
    return ran, corr_bad, verdicts, logs


def make_case(sd, route):
    sess = session(sd)
    text = render(route)
    return {'sd': sd, 'sess': sess, 'route': route, 'text': text, 'impl': run_impl(sess, route, text), 'self': self_addrs(sess)}


def family_matches(sd, route):
    """next-hop self is refused (TypeError, by design) when the route is not of the transport's family"""
    return route['nh'] != 'self' or (route['afi'] == 2) == (':' in sd['local'])


def make_group_cases(group_sds, route):
    """ONE parsed Route object, resolved and encoded for every session of the group in the given order (what the API
    does with `announce route ... next-hop self` sent to several peers).  Each session's bytes are a case of their own,
    judged against THAT session's local address; `fresh` = the bytes of a fresh parse for the same session."""
    text = render(route)
    first = session(group_sds[0])
    parsed = parse_once(first, text)
    out = []
    for gi, sd in enumerate(group_sds):
        sess = session(sd)
        if not isinstance(parsed, list):
            impl = parsed
        else:
            impl = encode_parsed(sess, route, parsed[0])
        if not family_matches(sd, route):
            continue  # the refusal is expected; the session still took its turn in the order
        out.append({'sd': sd, 'sess': sess, 'route': route, 'text': text, 'impl': impl, 'self': self_addrs(sess),
                    'group': {'sessions': list(group_sds), 'index': gi}, 'fresh': run_impl(sess, route, text)})
    return out


def sig_of(case, code):
    r = case['route']
    if 'group' in case and code == 5 and r['nh'] == 'self':
        return 'next-hop-self-is-the-address-of-another-session'
    if 'entry' in case and code == 5 and r['nh'] == 'self':
        return 'api-fan-out:next-hop-self-is-the-address-of-another-session'
    if code in (2, 4) and r['afi'] == 1 and r['safi'] == 2:
        return 'ipv4-multicast-sent-as-unicast'
    if code in (1, 3) and r['afi'] == 1 and r['safi'] == 2 and ([1, 2] in case['sd']['addpath']) != ([1, 1] in case['sd']['addpath']):
        return 'ipv4-multicast-sent-as-unicast'  # read with the ADD-PATH setting of ipv4 unicast
    if r['afi'] == 2 and r['nh'] != 'self' and len(r['nh']) == 4 and not r['withdraw']:
        return 'ipv6-route-ipv4-next-hop-sent-as-4-octets'
    base = VERDICT.get(code, f'verdict-{code}')
    fam = f'{AFI_NAME[r["afi"]]}-{SAFI_NAME[r["safi"]]}'
    return f'{base}:{"withdraw" if r["withdraw"] else "announce"}:{fam}'


def replay_of(case, code=None):
    out = {'session': case['sd'], 'route_text': case['text'], 'direction': 'withdraw' if case['route']['withdraw'] else 'announce',
           'route': case['route'], 'sent_hex': [b.hex() for b in case['impl'][1]] if case['impl'][0] == 'ok' else list(case['impl']),
           'verdict': VERDICT.get(code, code), 'expected': expected(case['sd'], case['route'])}
    if 'group' in case:
        g = case['group']
        out['group'] = g
        out['how'] = ('the route text is parsed ONCE; the same Route object is resolved (Neighbor.resolve_self) and encoded for the '
                      f'sessions with local addresses {[sd["local"] for sd in g["sessions"]]} in this order; this is session #{g["index"]} '
                      f'({case["sd"]["local"]})')
    if 'entry' in case:
        e = case['entry']
        out['entry'] = e
        if e.get('config'):
            out['how'] = ('the route is one of the static routes of a configuration-file template inherited by the neighbors with local '
                          f'addresses {[sd["local"] for sd in e["sessions"]]} (Configuration.reload); this is what the Adj-RIB-Out of '
                          f'neighbor #{e["index"]} ({case["sd"]["local"]}) yields for it')
            return out
        out['how'] = ('`' + ('withdraw' if case['route']['withdraw'] else 'announce') + ' route ...` parsed by API.api_route and handed to '
                      'Configuration.' + ('withdraw_route' if case['route']['withdraw'] else 'announce_route') + ' of ONE configuration whose neighbors '
                      f'have local addresses {[sd["local"] for sd in e["sessions"]]}; targets {e["targets"]}, fan-out order {e["fan_out_order"]}; '
                      f'this is what the Adj-RIB-Out of neighbor #{e["index"]} ({case["sd"]["local"]}) yields')
    return out


def case_from_replay(case):
    """rebuild the case(s) of a replay file; -> (cases, index of the judged one)"""
    route = dict(case['route'])
    route['attrs'] = [tuple(a) for a in route['attrs']]
    if 'entry' in case and case['entry'].get('template_routes'):
        trs = [dict(r, attrs=[tuple(a) for a in r['attrs']]) for r in case['entry']['template_routes']]
        cs, _ = make_config_cases(case['entry']['sessions'], trs)
        idx = next((i for i, c in enumerate(cs) if c['entry']['index'] == case['entry'].get('index') and c['text'] == case.get('route_text')), 0)
        return cs, idx
    if 'entry' in case:
        cs, _ = make_entry_cases(case['entry']['sessions'], route, case['entry']['targets'], fresh_conf=True)
        idx = next((i for i, c in enumerate(cs) if c['entry']['index'] == case['entry'].get('index')), 0)
        return cs, idx
    if 'group' in case:
        cs = make_group_cases(case['group']['sessions'], route)
        want = case['group']['index']
        idx = next((i for i, c in enumerate(cs) if c['group']['index'] == want), 0)
        return cs, idx
    return [make_case(case['session'], route)], 0


def check(tier, seed):
    run = Run('C01', tier, seed)
    run.trusted = [
        'Coq 8.16.1 kernel (coqc), vm_compute for case evaluation; no native_compute',
        'translator translate/t10_registry.py (rd_size / ip_length tables regenerated from the imported package)',
        'harness/c01.py: session builder (two OPENs -> real Negotiated), route generator + text renderer, the abstraction '
        'route description -> Model_Encode.route / Model_Attr.item, the expected semantic value written from the property text, '
        'the Coq glue of HEADER (canonical forms: community attributes as sets, adjacent AS_SEQUENCE segments joined, '
        'attribute order ignored)',
        'modelled, not verified: the python encoders (hand models Model_Attr, Model_Encode, Model_Nlri)',
    ]
    run.assumptions = [
        'route domain: ipv4/ipv6 x unicast, multicast (by address range), nlri-mpls, mpls-vpn; next hop of the route family '
        '(or "self" on a session whose transport has the route family), an IPv6 next hop for an IPv4 route only when RFC 8950 is '
        'negotiated, an IPv4 next hop for an IPv6 route (expected IPv4-mapped); every attribute keyword at most once; generic attribute '
        'codes outside the codes ExaBGP knows; community halves <= 65535; link-local next hop capability off',
        'reading decisions: LOCAL_PREF absent on eBGP even when written; COMMUNITY/EXTENDED/LARGE compared as sets; adjacent '
        'AS_SEQUENCE segments compared joined (a sequence > 255 must be cut); attribute order not compared; a NEXT_HOP attribute '
        'next to MP_REACH_NLRI only is ignored by the receiver (RFC 4760 3); attributes carried by a withdraw are not judged',
        'a route whose attributes do not fit the message size yields no message: judged by C09, here only the correspondence',
    ]
    common.standard_build(run, ['T10'])
    rng = random.Random(seed)
    quick = tier == 'quick'
    t0 = time.time()
    try:
        mc = multicast_in_plain_field()
        run.obligation('UpdateCollection.messages IPv4/MP classification is one of the two modelled forms', True, f'multicast in plain field = {mc}')
    except Exception as exc:
        mc = True
        run.obligation('UpdateCollection.messages IPv4/MP classification is one of the two modelled forms', False, str(exc))
    run.coverage['multicast_in_plain_field'] = mc
    try:
        v4m = v4_nexthop_mapped(session(gen_session(random.Random(0), session_kinds()[0], 0)))
        run.obligation('MPNLRICollection._encode_nexthop sends an IPv4 next hop of an IPv6 family in one of the two modelled forms', True,
                       f'IPv4-mapped = {v4m}')
    except Exception as exc:
        v4m = False
        run.obligation('MPNLRICollection._encode_nexthop sends an IPv4 next hop of an IPv6 family in one of the two modelled forms', False, str(exc))
    run.coverage['ipv4_next_hop_of_ipv6_route_sent_mapped'] = v4m
    mc = (mc, v4m)

    kinds = session_kinds()
    n_sessions = 24 if quick else 96
    sds = [gen_session(rng, kinds[i % len(kinds)], i) for i in range(n_sessions)]
    bad_sessions = []
    for sd in sds:
        s = session(sd)
        want_ext = sorted([a, x, 2] for a, x in ((1, 1), (1, 2), (1, 4), (1, 128))) if sd['extnh'] else []
        ok = (s.seen['local_as'] == sd['local_as'] and s.seen['peer_as'] == sd['peer_as'] and s.seen['asn4'] == sd['peer_asn4']
              and s.seen['addpath'] == sorted(sd['addpath']) and s.seen['families'] == sorted(list(f) for f in FAM_TUPLES)
              and not s.seen['llnh'] and s.seen['extnh'] == want_ext)
        if not ok:
            bad_sessions.append({'asked': sd, 'negotiated': s.seen})
            if s.seen['local_as'] != sd['local_as']:
                run.fail_case('negotiated-local-as-not-true-local-as', 'Negotiated.local_as differs from the configured local AS',
                              {'session': sd, 'negotiated': s.seen})
    run.obligation('every generated session kind negotiates as described (true local AS, ASN4, ADD-PATH send, families)',
                   not bad_sessions, json.dumps(bad_sessions[:2])[:1500])

    n_routes = 1000 if quick else 40000
    streams = ['mixed'] * 6 + ['plain', 'aspath', 'aspath', 'big', 'extnh', 'cross']
    cases = []
    for i in range(n_routes):
        sd = sds[rng.randrange(len(sds))]
        stream = streams[i % len(streams)]
        if stream == 'extnh' and not sd['extnh']:
            stream = 'mixed'
        cases.append(make_case(sd, gen_route(rng, sd, stream)))
    # one parsed route for several sessions (every tier): 3-4 sessions with different local addresses, ipv4 and ipv6
    # transports in both orders; "next-hop self" routes, explicit next hops as controls, and the same session twice
    v4s = [sd for sd in sds if ':' not in sd['local']]
    v6s = [sd for sd in sds if ':' in sd['local']]
    n_groups = 40 if quick else 600
    group_cases = 0
    for gi in range(n_groups):
        a, b, c4 = rng.sample(v4s, 3)
        x, y = rng.sample(v6s, 2) if len(v6s) >= 2 else (v6s[0], v6s[0])
        group = [[a, x, b, y], [x, a, y, b], [a, b, c4], [x, y, a], [a, b, a], [y, x, a, b]][gi % 6]
        r = gen_route(rng, group[0], ['plain', 'mixed'][gi % 2])
        r['withdraw'] = gi % 7 == 6
        if gi % 4 != 3:
            r['nh'] = 'self'  # resolvable only by the sessions whose transport has the route's family
        else:
            r['nh'] = rand_ip4(rng) if r['afi'] == 1 else rand_ip6(rng)  # control: nothing to resolve
        r['stream'] = 'shared'
        if r['nh'] == 'self' and not any(family_matches(sd, r) for sd in group):
            continue
        new = make_group_cases(group, r)
        group_cases += len(new)
        cases.extend(new)
    # entry-point pass (every tier): ONE Configuration with 2-4 neighbors of different local address and session kind;
    # route texts go through API.api_route + Configuration.announce_route / withdraw_route; every neighbor's Adj-RIB-Out
    # is drained and judged against ITS session.  Emphasis on next-hop self; literal next hops, `neighbor <one>`
    # selections and unresolvable commands (nothing may change) as controls.
    n_entry = 60 if quick else 900
    entry_cases, entry_problems = 0, []
    fan_groups = []
    for gi in range(6 if quick else 24):
        k = [3, 4, 2, 4, 3, 4][gi % 6]
        pool4 = rng.sample(v4s, min(len(v4s), k))
        grp = pool4 if gi % 3 == 0 else (pool4[: k - 1] + [rng.choice(v6s)] if gi % 3 == 1 else [rng.choice(v6s)] + pool4[: k - 2] + [rng.choice([x for x in v6s])])
        seen_local, uniq = set(), []
        for sd in grp:
            if sd['local'] not in seen_local:
                seen_local.add(sd['local'])
                uniq.append(sd)
        if len(uniq) >= 2:
            fan_groups.append(uniq)
    for ei in range(n_entry):
        grp = fan_groups[ei % len(fan_groups)]
        r = gen_route(rng, grp[0], ['plain', 'mixed', 'mixed'][ei % 3])
        r['withdraw'] = ei % 6 == 5
        r['stream'] = 'entry'
        mode = ei % 5
        if mode != 4:
            r['nh'] = 'self'
        else:
            r['nh'] = rand_ip4(rng) if r['afi'] == 1 else rand_ip6(rng)
        everyone = list(range(len(grp)))
        matching = [i for i in everyone if family_matches(grp[i], r)]
        if mode == 0 and len(matching) != len(everyone):
            targets = everyone            # must be refused as a whole
        elif mode == 3 and matching:
            targets = [rng.choice(matching)]   # `neighbor <ip> announce route ...`
        elif mode == 2 and len(matching) >= 2:
            targets = sorted(rng.sample(matching, 2))
        else:
            targets = matching            # `peer * announce route ...` (the neighbors that can resolve it)
        if not targets:
            continue
        new, problems = make_entry_cases(grp, r, targets)
        entry_cases += len(new)
        entry_problems += problems
        cases.extend(new)
    # configuration-file pass: a template of static routes inherited by 2-4 neighbors of one transport
    config_cases = 0
    for ci in range(4 if quick else 40):
        pool = v4s if ci % 2 == 0 or len(v6s) < 2 else v6s
        grp = rng.sample(pool, min(len(pool), [2, 3, 4][ci % 3]))
        v6t = ':' in grp[0]['local']
        trs, keys = [], set()
        for ri in range(5 if quick else 8):
            r = gen_route(rng, grp[0], ['plain', 'mixed'][ri % 2])
            r['withdraw'] = False
            r['stream'] = 'entry'
            if (r['afi'] == 2) == v6t and ri % 4 != 3:
                r['nh'] = 'self'
            else:
                r['nh'] = rand_ip4(rng) if r['afi'] == 1 else rand_ip6(rng)
            k = (r['afi'], r['safi'], tuple(r['ip']), r['mask'])
            if k in keys:
                continue
            keys.add(k)
            trs.append(r)
        new, problems = make_config_cases(grp, trs)
        config_cases += len(new)
        entry_problems += problems
        cases.extend(new)
    for sig, what, detail in entry_problems[:5]:
        run.fail_case(sig, what, detail)
    run.obligation('fan-out entry points: a command that cannot be resolved for one target changes no Adj-RIB-Out, neighbors outside '
                   'the selection are sent nothing, no route of the domain is refused', not entry_problems,
                   json.dumps([[p[0], p[2].get('route_text')] for p in entry_problems[:4]])[:1500])
    # replays of earlier failures run with everything else (each is one more case)
    import glob as _glob
    import os as _os
    replayed = 0
    for path in sorted(_glob.glob(_os.path.join(common.VERIF, 'replays', 'C01', '*.json'))):
        try:
            data = json.load(open(path))
            if data.get('kind') != 'failing-input':
                continue
            if 'route' not in data['case']:  # a replay of a session that did not negotiate as described
                sd_r = data['case']['session']
                seen_r = session(sd_r).seen
                if seen_r['local_as'] != sd_r['local_as']:
                    run.fail_case('negotiated-local-as-not-true-local-as', 'Negotiated.local_as differs from the configured local AS',
                                  {'session': sd_r, 'negotiated': seen_r})
                replayed += 1
                continue
            rc, _ = case_from_replay(data['case'])
            for c in rc:
                c['route'] = dict(c['route'], stream='replay')
            cases.extend(rc)
            replayed += 1
        except Exception as exc:  # a replay that can no longer be rebuilt is reported, not ignored
            run.notes.append(f'replay {path} could not be rebuilt: {type(exc).__name__}: {exc}')
    # boundary: attribute value length 255/256, AS_PATH 255/256 ASNs, each family x ADD-PATH x direction with fixed values
    for sd in sds[:8]:
        for ln in (254, 255, 256, 257):
            r = gen_route(rng, sd, 'plain')
            r['attrs'] = [('attribute', [153, 0xC0, [ln % 256] * ln])]
            r['withdraw'] = False
            cases.append(make_case(sd, r))
        for n in (255, 256):
            r = gen_route(rng, sd, 'plain')
            r['attrs'] = [('as-path', [[2, [70000 + j for j in range(n)]]])]
            r['withdraw'] = False
            cases.append(make_case(sd, r))
    # boundary: the UPDATE is exactly as long as the session allows, one octet less, one and two more (nothing sent)
    near_limit = 0
    for sd in [sd for sd in sds if sd['msg'] == 4096][:4]:
        for wd in (False, True):
            r = gen_route(rng, sd, 'plain')
            r['withdraw'] = wd
            r['attrs'] = [('attribute', [153, 0xC0, [7] * 600])]
            probe = make_case(sd, r)
            if probe['impl'][0] != 'ok' or len(probe['impl'][1]) != 1:
                continue
            if wd and r['safi'] in (1, 2):
                continue  # no attribute is sent with such a withdraw: its size does not depend on the attribute
            slack = sd['msg'] - 19 - len(probe['impl'][1][0])
            for d in (-1, 0, 1, 2):
                r2 = dict(r, attrs=[('attribute', [153, 0xC0, [7] * (600 + slack + d)])], stream='big')
                cases.append(make_case(sd, r2))
                near_limit += 1
    t_impl = time.time() - t0

    # observation, not judged (the property quantifies over negotiated sessions; whether a route whose next hop needs
    # a capability the session lacks should be sent at all is C18's question): IPv6 next hop for an IPv4 route, no RFC 8950
    try:
        sd0 = next(sd for sd in sds if not sd['extnh'])
        r0 = {'afi': 1, 'safi': 1, 'ip': [10, 0, 0, 0], 'mask': 24, 'pid': None, 'labels': [], 'rd': None, 'stream': 'observe',
              'nh': [0x20, 1, 0xd, 0xb8] + [0] * 11 + [1], 'attrs': [], 'withdraw': False}
        c0 = make_case(sd0, r0)
        run.notes.append('observation (not judged): "' + c0['text'] + '" on a session without the RFC 8950 capability -> '
                         + (('sent: ' + c0['impl'][1][0].hex()) if c0['impl'][0] == 'ok' and c0['impl'][1] else str(c0['impl'])[:200]))
    except StopIteration:
        pass

    # outcomes of the implementation
    hist = collections.Counter()
    for c in cases:
        kind = c['impl'][0]
        if kind == 'ok':
            kind = f'ok:{len(c["impl"][1])}msg'
        hist[kind] += 1
    refused = [c for c in cases if c['impl'][0] != 'ok']
    for c in refused[:5]:
        run.fail_case('route-refused:' + str(c['impl'][1])[:40], 'a route of the modelled domain was not encoded', replay_of(c))
    run.obligation('every generated route is accepted and encoded without exception', not refused,
                   json.dumps([[c['text'][:200], list(c['impl'])] for c in refused[:3]])[:1500])

    t1 = time.time()
    ran, corr_bad, verdicts, logs = evaluate(cases, mc, 'c01')
    t_eval = time.time() - t1
    run.obligation('model and reference decoder evaluated in Coq on every case', ran, '\n'.join(logs)[:3000])
    run.obligation('correspondence: UpdateCollection.messages bytes = Model_Encode on every case', not corr_bad,
                   json.dumps([replay_of(cases[k]) for k in corr_bad[:2]], default=str)[:3000])
    for k in corr_bad[:3]:
        run.notes.append('correspondence mismatch: ' + json.dumps(replay_of(cases[k]), default=str)[:1200])

    # one parsed route, several sessions: what a session is sent must not depend on the sessions served before it
    dep = [k for k, c in enumerate(cases) if 'fresh' in c and c['impl'] != c['fresh']]
    for k in dep[:3]:
        rp = replay_of(cases[k])
        rp['fresh_parse_sent_hex'] = [b.hex() for b in cases[k]['fresh'][1]] if cases[k]['fresh'][0] == 'ok' else list(cases[k]['fresh'])
        run.fail_case(('api-fan-out' if 'entry' in cases[k] else 'shared-parsed-route') + ':bytes-depend-on-sessions-served-before',
                      'the same parsed route gives a session other bytes than a fresh parse of the same text', rp)
    run.obligation('a route fanned out to several sessions (one parsed route / Configuration.announce_route) gives each session the '
                   'bytes of a fresh parse for that session alone', not dep, json.dumps([replay_of(cases[k]).get('how') for k in dep[:3]])[:1500])

    # nothing sent for a route that fits easily
    silent = [k for k, c in enumerate(cases) if c['impl'][0] == 'ok' and len(c['impl'][1]) != 1
              and c['route']['stream'] not in ('big', 'aspath') and len(c['text']) < 1200]
    for k in silent[:3]:
        run.fail_case('route-not-sent-or-split', 'a single small route did not yield exactly one UPDATE', replay_of(cases[k]))

    failing = {k: v for k, v in verdicts.items() if v != 0}
    # shrink one representative per signature
    by_sig = collections.OrderedDict()
    for k, code in sorted(failing.items()):
        by_sig.setdefault(sig_of(cases[k], code), []).append(k)
    for sig, ks in by_sig.items():
        k = min(ks, key=lambda j: len(cases[j]['text']))
        best, code = cases[k], failing[k]
        for _round in range(6):
            if 'entry' in best and best['entry'].get('config'):
                cands = []  # the whole template is the input; it is kept as it is
            elif 'entry' in best:  # keep the configuration and the targets; shrink the route only
                cands = []
                for r in shrink(best['route']):
                    cs_, _pb = make_entry_cases(best['entry']['sessions'], r, best['entry']['targets'], fresh_conf=True)
                    cands += [c for c in cs_ if c['entry']['index'] == best['entry']['index']]
            elif 'group' in best:  # keep the shared parse and the order of the sessions; shrink the route only
                cands = []
                for r in shrink(best['route']):
                    cands += [c for c in make_group_cases(best['group']['sessions'], r) if c['group']['index'] == best['group']['index']]
            else:
                cands = [make_case(best['sd'], r) for r in shrink(best['route'])]
            cands = [c for c in cands if c['impl'][0] == 'ok' and len(c['impl'][1]) == 1]
            if not cands:
                break
            _, _, v, _ = evaluate(cands, mc, f'c01_shrink_{abs(hash(sig)) % 10000}_{_round}')
            keep = [(j, v[j]) for j in range(len(cands)) if v.get(j, 0) != 0 and sig_of(cands[j], v[j]) == sig]
            if not keep:
                break
            j, code = min(keep, key=lambda t: len(cands[t[0]]['text']))
            best = cands[j]
        run.fail_case(sig, f'sent UPDATE does not decode to the request ({VERDICT.get(code, code)}); {len(ks)} generated cases', replay_of(best, code))
    run.obligation('property oracle: every sent UPDATE decodes (Spec_Update.ref_decode) to exactly the requested route, next hop, '
                   'path id and attribute values with the RFC defaults', not failing,
                   json.dumps({s: len(v) for s, v in by_sig.items()})[:1500])

    # coverage
    judged = len(verdicts)
    fam_hist = collections.Counter(f'{AFI_NAME[c["route"]["afi"]]}/{SAFI_NAME[c["route"]["safi"]]}' for c in cases)
    attr_hist = collections.Counter(k for c in cases for k, _ in c['route']['attrs'])
    sess_hist = collections.Counter(
        f'{"iBGP" if c["sd"]["local_as"] == c["sd"]["peer_as"] else "eBGP"}/{"asn4" if c["sd"]["peer_asn4"] else "2byte-peer"}/'
        f'{"las4" if c["sd"]["local_as"] > 65535 else "las2"}/{"ap" if c["sd"]["addpath"] else "noap"}/{c["sd"]["msg"]}' for c in cases)
    distinct = len({(c['text'], json.dumps(c['sd'], sort_keys=True), c['route']['withdraw']) for c in cases})
    run.coverage.update({
        'evaluations': len(cases) + judged,
        'distinct_nontrivial': distinct,
        'rule': 'distinct (session description, route text, direction) triples whose bytes were compared with the model and judged by the reference decoder',
        'implementation_outcomes': dict(hist),
        'judged_by_reference_decoder': judged,
        'families': dict(fam_hist), 'attribute_keywords': dict(attr_hist), 'session_kinds': dict(sess_hist),
        'withdraw_cases': sum(1 for c in cases if c['route']['withdraw']),
        'next_hop_self': sum(1 for c in cases if c['route']['nh'] == 'self'),
        'ipv6_route_with_ipv4_next_hop': sum(1 for c in cases if c['route']['afi'] == 2 and c['route']['nh'] != 'self' and len(c['route']['nh']) == 4),
        'large_asn_to_2byte_peer': sum(1 for c in cases if not c['sd']['peer_asn4'] and expected(c['sd'], c['route'])['large_asn']),
        'near_message_size_limit': near_limit,
        'shared_parsed_route_cases': group_cases, 'replays_rerun': replayed, 'fan_out_entry_point_cases': entry_cases, 'configuration_template_cases': config_cases,
        'extended_length_attributes': sum(1 for c in cases for k, v in c['route']['attrs'] if k == 'attribute' and len(v[2]) > 255),
        'timing_s': {'implementation': round(t_impl, 1), 'coq_eval': round(t_eval, 1)},
    })
    run.samples = [{'session': c['sd'], 'text': c['text'][:300], 'direction': 'withdraw' if c['route']['withdraw'] else 'announce',
                    'sent': [b.hex()[:200] for b in c['impl'][1]] if c['impl'][0] == 'ok' else list(c['impl'])} for c in cases[:6]]
    return run.finish(checker_cmd='coqc -Q coq ExaV coq/props/Prop_C01.v (Print Assumptions) + vm_compute case files: '
                                  'Model_Encode.encode_* = implementation bytes; Spec_Update.ref_decode judged against the request')


def replay(path):
    data = json.load(open(path))
    case = data.get('case', data)
    run = Run('C01', 'replay', 0)
    common.standard_build(run, ['T10'])
    cs, idx = case_from_replay(case)
    c = cs[idx]
    mc = (multicast_in_plain_field(), v4_nexthop_mapped(c['sess']))
    _, corr_bad, verdicts, _ = evaluate(cs, mc, 'c01_replay')
    same = c.get('fresh', c['impl']) == c['impl']
    print(json.dumps({'text': c['text'], 'session_local': c['sd']['local'], 'how': replay_of(c).get('how'),
                      'impl': [b.hex() for b in c['impl'][1]] if c['impl'][0] == 'ok' else list(c['impl']),
                      'correspondence_ok': idx not in corr_bad, 'same_as_fresh_parse': same,
                      'verdict': VERDICT.get(verdicts.get(idx), verdicts.get(idx))}, indent=1))
    common.cleanup()
    return 0 if idx not in corr_bad and verdicts.get(idx, 0) == 0 and same else 1
