"""C13 - API events stay well-formed whatever a peer sends.

(A) correspondence (Coq `vm_compute` vs the real functions):
      escape            vs json.dumps(text)[1:-1]                     (random + hostile Unicode strings)
      oneline           vs reactor/api/response/text.py oneline       (code points < 256, regenerated Latin-1 table)
      json_object/...   vs JSON._kv + the f'{{ {...} }}' wrapping     (random keys / str, int, bool values)
      wf_json           vs a strict python parse (json.loads, no NaN/Infinity) on real event lines, on mutants
                           of them and on texts of a small random JSON grammar
      attr_keys_ok      of the regenerated attribute key table (the finite check of C13_no_duplicate_keys)
(B) property oracle, python only, on EVERY event the real encoders produce - Response.JSON(v6), Response.Text(v6),
    Response.V4.JSON, Response.V4.Text - for messages decoded from bytes:
      UPDATEs (every route of etc/exabgp/*.conf re-encoded, announce and withdraw; qa/decoding corpus; EOR; both
      aggregators; unknown attributes; BGP-LS attribute TLVs with names / opaque values / unknown TLVs; prefix-SID with
      SRv6 service TLVs and unknown sub-(sub-)TLVs; byte-mutants of all of these that still decode), OPENs with hostile
      host name / domain name / software version / unknown capabilities, NOTIFICATIONs (shutdown communication and
      plain data), ROUTE-REFRESH, OPERATIONAL (advisory / query / counter / unknown), KEEPALIVE, raw packets, and the
      state events (up, connected, down, shutdown, fsm, signal, negotiated).
    Judged: the call does not raise; JSON = one line, strict parse, no duplicate key at any level, documented envelope,
    and (differential) the same event rendered with a benign string has the same tree but for string leaves holding
    the string; text = expected number of lines, no control character / line break; then `Processes.write` (the real
    method, async queue) must be able to encode the event.
"""

from __future__ import annotations

import collections
import copy
import glob
import json
import os
import random
import time
import traceback
import unicodedata

from harness import common
from harness.common import Run, zlist

PID = 'C13'

# ------------------------------------------------------------------------------- strict checks (trusted glue)


class StrictError(Exception):
    pass


def strict_parse(line):
    """-> (tree | None, [problem strings]).  Duplicate keys at every object level, no NaN/Infinity."""
    problems = []
    dups = {}  # id(object built by the hook) -> (the object, its repeated keys)

    def hook(pairs):
        keys = [k for k, _ in pairs]
        d = dict(pairs)
        if len(set(keys)) != len(keys):
            dups[id(d)] = (d, sorted({k for k in keys if keys.count(k) > 1}))
        return d

    def const(name):
        raise StrictError(f'non-JSON constant {name}')

    try:
        tree = json.loads(line, object_pairs_hook=hook, parse_constant=const)
    except (ValueError, StrictError, RecursionError) as exc:
        return None, [f'unparseable:{type(exc).__name__}: {exc}'[:200]]
    if dups:
        # where each object with a repeated key sits: `duplicate-key:<keys>@<path of the object>`
        def walk(node, path):
            if isinstance(node, dict):
                if id(node) in dups:
                    problems.append('duplicate-key:' + ','.join(dups[id(node)][1]) + '@' + path)
                for k, v in node.items():
                    walk(v, path + '/' + k)
            elif isinstance(node, list):
                for v in node:
                    walk(v, path + '/[]')

        walk(tree, '')
        if not any(p.startswith('duplicate-key:') for p in problems):  # the object itself was shadowed by its twin key
            problems.extend('duplicate-key:' + ','.join(k) + '@?' for _, k in dups.values())
    return tree, problems


def strict_accepts(text):
    """RFC 8259 acceptance of a text, by python's parser made strict (the oracle wf_json is compared with)."""

    def const(name):
        raise StrictError(name)

    try:
        json.loads(text, parse_constant=const)
        return True
    except (ValueError, StrictError, RecursionError):
        return False


LINE_BREAKS = set('\n\r\x0b\x0c\x1c\x1d\x1e\x85\u2028\u2029')


def control_chars(text):
    """characters a line-oriented or terminal consumer must never get from peer data"""
    return sorted({c for c in text if ord(c) < 32 or ord(c) == 127 or c in LINE_BREAKS or unicodedata.category(c) == 'Cc'})


def check_envelope(tree, version, etype, neighbor, direction):
    """documented envelope of a JSON event -> list of problems"""
    p = []
    if not isinstance(tree, dict):
        return ['envelope:not-an-object']
    if tree.get('exabgp') != version:
        p.append(f'envelope:exabgp={tree.get("exabgp")!r}')
    if not isinstance(tree.get('time'), (int, float)) or isinstance(tree.get('time'), bool):
        p.append('envelope:time')
    if not isinstance(tree.get('host'), str):
        p.append('envelope:host')
    for k in ('pid', 'ppid'):
        if not isinstance(tree.get(k), int) or isinstance(tree.get(k), bool):
            p.append('envelope:' + k)
    if tree.get('type') != etype:
        p.append(f'envelope:type={tree.get("type")!r}')
    if neighbor is None:
        if 'neighbor' in tree or 'counter' in tree:
            p.append('envelope:neighbor-in-global-event')
        return p
    if not isinstance(tree.get('counter'), int) or isinstance(tree.get('counter'), bool):
        p.append('envelope:counter')
    nb = tree.get('neighbor')
    if not isinstance(nb, dict):
        return p + ['envelope:neighbor']
    addr, asn = nb.get('address'), nb.get('asn')
    if not (isinstance(addr, dict) and addr.get('local') == str(neighbor.session.local_address)
            and addr.get('peer') == str(neighbor.session.peer_address)):
        p.append('envelope:neighbor.address')
    if not (isinstance(asn, dict) and asn.get('local') == int(neighbor.session.local_as) and asn.get('peer') == int(neighbor.session.peer_as)):
        p.append('envelope:neighbor.asn')
    if direction is not None and nb.get('direction') != direction:
        p.append('envelope:neighbor.direction')
    if direction is None and 'direction' in nb:
        p.append('envelope:neighbor.direction-unexpected')
    return p


def normalise(tree):
    if isinstance(tree, dict):
        tree = dict(tree)
        for k in ('time', 'counter'):
            if k in tree:
                tree[k] = 0
    return tree


def tree_diff(h, b, path, pairs, out):
    """hostile tree h against benign tree b: same keys (and order), same lengths, same non-string leaves; a string leaf
    may differ only where the benign one holds the marker, and then by exactly one of the expected renderings."""
    if type(h) is not type(b):
        out.append(('type', path, repr(h)[:80], repr(b)[:80]))
        return
    if isinstance(h, dict):
        if list(h) != list(b):
            out.append(('keys', path, list(h), list(b)))
            return
        for k in h:
            tree_diff(h[k], b[k], path + '/' + k, pairs, out)
    elif isinstance(h, list):
        if len(h) != len(b):
            out.append(('length', path, len(h), len(b)))
            return
        for i, (x, y) in enumerate(zip(h, b)):
            tree_diff(x, y, f'{path}/{i}', pairs, out)
    elif isinstance(h, str):
        if h == b:
            return
        if pairs is None:
            return  # value comparison not applicable (other decoding branch): any string is acceptable
        ok = any(bm in b and b.replace(bm, hm) == h for bm, hm in pairs)
        if not ok:
            out.append(('value', path, h[:120], b[:120]))
    elif h != b:
        out.append(('leaf', path, h, b))


# ------------------------------------------------------------------------------- implementation side

CONF_AS4 = """
neighbor 127.0.0.1 {
  router-id 1.2.3.4;
  local-address 127.0.0.2;
  local-as 65000;
  peer-as 65001;
  capability { asn4 enable; operational enable; route-refresh enable; add-path disable; }
  family { all; }
}
"""
CONF_AS2 = CONF_AS4.replace('asn4 enable', 'asn4 disable')
CONF_AP = CONF_AS4.replace('add-path disable', 'add-path send/receive').replace('local-as 65000', 'local-as 4200000001')

MARKER = b'qzBENIGNzq'
# parametric events whose peer bytes are rendered as hex whatever they are
HEX_RENDERED = {'notification-shutdown-trailing', 'update-bgpls-node-opaque', 'update-bgpls-link-opaque', 'update-bgpls-prefix-opaque',
                'update-bgpls-unknown-tlv', 'update-unknown-transitive', 'update-unknown-partial', 'update-unknown-nontransitive',
                'update-unknown-withdraw-only', 'open-unknown-capability', 'operational-unknown-type'}


class Impl:
    def __init__(self):
        from exabgp.configuration.configuration import Configuration
        from exabgp.configuration.check import _negotiated
        from exabgp.reactor.api.response import Response
        from exabgp.reactor.api.processes import Processes
        from exabgp.version import json as jv, json_v4, text_v4

        self.neighbors = {}
        for key, text in (('as4', CONF_AS4), ('as2', CONF_AS2), ('ap', CONF_AP)):
            c = Configuration([text], text=True)
            if not c.reload():
                raise RuntimeError(f'harness configuration {key} refused: {getattr(c, "error", "")}')
            n = next(iter(c.neighbors.values()))
            self.neighbors[key] = (n, _negotiated(n)[0])
        self.versions = {'json6': jv, 'text6': jv, 'json4': json_v4, 'text4': text_v4}
        self.encoders = {
            'json6': Response.JSON(jv), 'text6': Response.Text(jv),
            'json4': Response.V4.JSON(json_v4), 'text4': Response.V4.Text(text_v4),
        }
        p = Processes.__new__(Processes)
        p._process = {'svc': object()}
        p._async_mode = True
        p._write_queue = {}
        self.processes = p

    def write(self, string):
        """the real Processes.write, async queueing branch -> queued bytes (or raises)"""
        self.processes._write_queue.clear()
        self.processes.write('svc', string)
        q = self.processes._write_queue.get('svc')
        return b''.join(q) if q else b''


def header_of(code, body):
    return b'\xff' * 16 + (19 + len(body)).to_bytes(2, 'big') + bytes([code])


def attr(flag, code, data):
    if len(data) > 255 or flag & 0x10:
        return bytes([flag | 0x10, code]) + len(data).to_bytes(2, 'big') + data
    return bytes([flag, code, len(data)]) + data


def tlv16(t, v):
    return t.to_bytes(2, 'big') + len(v).to_bytes(2, 'big') + v


def update_body(attrs, nlri=b'', withdrawn=b''):
    return len(withdrawn).to_bytes(2, 'big') + withdrawn + len(attrs).to_bytes(2, 'big') + attrs + nlri


BASE_ATTRS = attr(0x40, 1, b'\x00') + attr(0x40, 2, b'') + attr(0x40, 3, bytes([10, 0, 0, 1])) + attr(0x40, 5, (100).to_bytes(4, 'big'))


def open_body(asn, caps, hold=180, rid=bytes([9, 9, 9, 9])):
    capb = b''.join(bytes([c, len(v)]) + v for c, v in caps)
    params = b''
    while capb:
        # one capability per parameter keeps every parameter below 255 octets
        c_len = 2 + capb[1]
        chunk, capb = capb[:c_len], capb[c_len:]
        params += bytes([2, len(chunk)]) + chunk
    if len(params) > 255:
        raise ValueError('optional parameters too long for the harness builder')
    return bytes([4]) + asn.to_bytes(2, 'big') + hold.to_bytes(2, 'big') + rid + bytes([len(params)]) + params


def hostname_cap(host, domain):
    return (73, bytes([len(host)]) + host + bytes([len(domain)]) + domain)


def software_cap(text):
    return (75, bytes([len(text)]) + text)


STD_CAPS = [(1, bytes([0, 1, 0, 1])), (65, (65001).to_bytes(4, 'big')), (2, b'')]


class Event:
    """one renderable event: call(enc_name, enc) -> str | None ; meta for the checks and the replay"""

    def __init__(self, kind, etype, call, neighbor=None, direction=None, text_lines=1, case=None, peer=True):
        self.kind, self.etype, self.call = kind, etype, call
        self.neighbor, self.direction, self.text_lines = neighbor, direction, text_lines
        self.case = case or {}
        self.peer = peer  # does the event hold peer-chosen data


def message_events(impl, nk, code, body, kind, case_extra=None, variants=((True, True), (False, False))):
    """decode one message with the real decoder; -> (list of Event, outcome) outcome in decoded / refused / crashed"""
    from exabgp.bgp.message import Message
    from exabgp.bgp.message.notification import Notify
    from exabgp.bgp.message.open.capability.negotiated import Negotiated

    neighbor, nin = impl.neighbors[nk]
    case = {'event': kind, 'neighbor': nk, 'message_type': code, 'body': body.hex()}
    case.update(case_extra or {})
    try:
        msg = Message.unpack(code, body, nin)
        target = msg
        lines = 1
        if code == 2:
            if getattr(msg, 'IS_EOR', False):
                lines = 2 + len(msg.nlris)
            else:
                target = msg.data
                lines = 2 + len(target.announces) + len(target.withdraws)
    except Notify as exc:
        return [], ('refused', int(exc.code), int(exc.subcode))
    except Exception as exc:  # a crash of the decoder belongs to C03; nothing is rendered
        return [], ('crashed', type(exc).__name__)
    events = []
    for with_packets, with_neg in variants:
        hdr = header_of(code, body) if with_packets else b''
        bdy = body if with_packets else b''
        neg = nin if with_neg else Negotiated.UNSET

        def call(name, enc, code=code, target=target, hdr=hdr, bdy=bdy, neg=neg, msg=msg):
            if code == 1:
                return enc.open(neighbor, 'receive', target, hdr, bdy, neg)
            if code == 2:
                return enc.update(neighbor, 'receive', target, hdr, bdy, neg)
            if code == 3:
                return enc.notification(neighbor, 'receive', target, hdr, bdy, neg)
            if code == 4:
                return enc.keepalive(neighbor, 'receive', hdr, bdy, neg)
            if code == 5:
                return enc.refresh(neighbor, 'receive', target, hdr, bdy, neg)
            if code == 6:
                return enc.operational(neighbor, 'receive', msg.category, target, hdr, bdy, neg)
            raise ValueError(code)

        etype = {1: 'open', 2: 'update', 3: 'notification', 4: 'keepalive', 5: 'refresh', 6: 'operational'}[code]
        tl = lines + (1 if (code == 2 and (hdr or bdy)) else 0)
        events.append(Event(kind, etype, call, neighbor, 'receive', tl, dict(case, packets=with_packets, negotiated=with_neg)))
    return events, ('decoded',)


# ------------------------------------------------------------------------------- hostile material

def hostile_strings(rng, n_random):
    fixed = [
        b'a"b', b'a\\b', b'\\', b'"', b'\\"', b'a\nb', b'\r\n', b'\x00', bytes(range(1, 32)), b'\x7f', b'\t', b' ', b'',
        'h\u00e9llo'.encode(), '\u65e5\u672c\u8a9e'.encode(), '\U0001F600'.encode(), b'\xff\xfe', b'\xc3', b'\xed\xa0\x80',
        b'", "forged": "x', b'" }, { "x": "', b'"} }\n{ "exabgp": "6.0.0", "type": "state", "neighbor": { "state": "down" } }',
        b'\nneighbor 1.2.3.4 down - forged', b'x\r\nneighbor 10.0.0.1 receive update start', '\u2028x\u2029'.encode(), b'\xc2\x85next',
        '\u00a0\u00ad'.encode(), b'\\u0000', b'\\n', b'%s %d {0} {}', b'}', b'{', b'[ ]', b']', b',', b':', b'null', b'NaN',
        b'\x1b[31mred', b'\x0b\x0c\x1c\x1d\x1e', b'e\xcc\x81', '\ufeffbom'.encode(), '\ufffd'.encode(), b'a' * 64,
        b'"' * 20, b'\\' * 21, b'\xf0\x9f\x98', b'\xf4\x90\x80\x80', '\U0010FFFF'.encode(), b'\x80', b'</script>',
    ]
    out = list(fixed)
    for _ in range(n_random):
        k = rng.choice(['bytes', 'ascii', 'unicode', 'mix'])
        ln = rng.choice([1, 2, 3, 5, 8, 13, 21, 40, 63])
        if k == 'bytes':
            out.append(bytes(rng.getrandbits(8) for _ in range(ln)))
        elif k == 'ascii':
            out.append(bytes(rng.choice(b'"\\\n\r\t {}[]:,ab0\x00\x7f\x1f/') for _ in range(ln)))
        elif k == 'unicode':
            s = ''.join(chr(rng.choice([rng.randint(0, 0x7f), rng.randint(0x80, 0x2ff), rng.randint(0x2000, 0x206f), rng.randint(0x3040, 0x30ff),
                                        rng.randint(0x10000, 0x10ffff)])) for _ in range(max(1, ln // 3)))
            out.append(s.encode('utf-8', 'replace')[:64])
        else:
            s = bytearray(rng.choice(fixed)[:30])
            for _ in range(3):
                if s:
                    s[rng.randrange(len(s))] = rng.getrandbits(8)
            out.append(bytes(s))
    return out


def is_utf8(b):
    try:
        b.decode('utf-8')
        return True
    except UnicodeDecodeError:
        return False


def value_pairs(hostile, marker=MARKER, hex_only=False):
    """(benign rendering, hostile rendering) pairs accepted for a string leaf that depends on the peer bytes"""
    if hex_only:
        up = lambda b: b.hex().upper()
        return [(up(marker), up(hostile)), (marker.hex(), hostile.hex()), (up(('0x' + up(marker)).encode()), up(('0x' + up(hostile)).encode()))]
    if not is_utf8(hostile):
        return None
    m, h = marker.decode(), hostile.decode('utf-8')
    flat = h.replace('\r', ' ').replace('\n', ' ')

    def hx(b):
        return b.hex().upper()

    return [(m, h), (m, flat), (m.lower(), h.lower()), (hx(marker), hx(hostile)), (marker.hex(), hostile.hex()),
            (hx(marker), hx(flat.encode())),  # hex of a text in which CR / LF were replaced by spaces (shutdown communication)
            (hx(('0x' + hx(marker)).encode()), hx(('0x' + hx(hostile)).encode()))]  # hex of a text that holds the hex of the bytes


# ------------------------------------------------------------------------------- event generation

def state_events(impl, rng, hostiles):
    from exabgp.bgp.fsm import FSM

    events = []
    for nk, (neighbor, nin) in impl.neighbors.items():
        base = {'neighbor': nk}
        events.append(Event('state-up', 'state', lambda name, enc, n=neighbor: enc.up(n), neighbor, None, 1, dict(base, event='up'), peer=False))
        events.append(Event('state-connected', 'state', lambda name, enc, n=neighbor: enc.connected(n), neighbor, None, 1,
                            dict(base, event='connected'), peer=False))
        events.append(Event('negotiated', 'negotiated', lambda name, enc, n=neighbor, g=nin: enc.negotiated(n, g), neighbor, None, 0,
                            dict(base, event='negotiated'), peer=False))
        for st in list(FSM.STATE):
            events.append(Event('fsm', 'fsm', lambda name, enc, n=neighbor, s=st: enc.fsm(n, FSM(None, s)), neighbor, None, 0,
                                dict(base, event='fsm', state=str(st)), peer=False))
        for sig in (1, 2, 10, 12, 15, 99):
            events.append(Event('signal', 'signal', lambda name, enc, n=neighbor, s=sig: enc.signal(n, s), neighbor, None, 0,
                                dict(base, event='signal', signal=sig), peer=False))
    events.append(Event('shutdown', 'notification', lambda name, enc: enc.shutdown(), None, None, 1, {'event': 'shutdown'}, peer=False))
    return events


def down_event(impl, nk, reason_bytes):
    neighbor, _ = impl.neighbors[nk]
    reason = reason_bytes.decode('utf-8', 'replace')
    return Event('state-down', 'state', lambda name, enc: enc.down(neighbor, reason), neighbor, None, 1,
                 {'event': 'down', 'neighbor': nk, 'reason_hex': reason_bytes.hex()})


def parametric_builders(rng):
    """name -> (neighbor key, message code, function(peer bytes) -> message body).  Each embeds the peer-chosen
    bytes at one place; rendered once with the hostile bytes and once with the benign marker."""
    b = {}
    b['open-hostname'] = ('as4', 1, lambda s: open_body(65001, STD_CAPS + [hostname_cap(s[:64], b'example.net')]))
    b['open-domainname'] = ('as4', 1, lambda s: open_body(65001, STD_CAPS + [hostname_cap(b'router', s[:64])]))
    b['open-software'] = ('as4', 1, lambda s: open_body(65001, STD_CAPS + [software_cap(s[:64])]))
    b['open-both'] = ('as4', 1, lambda s: open_body(65001, STD_CAPS + [hostname_cap(s[:64], s[:64]), software_cap(s[:64])]))
    b['open-unknown-capability'] = ('as4', 1, lambda s: open_body(65001, STD_CAPS + [(199, s[:200])]))
    b['notification-shutdown-6-2'] = ('as4', 3, lambda s: bytes([6, 2, len(s[:128])]) + s[:128])
    b['notification-reset-6-4'] = ('as4', 3, lambda s: bytes([6, 4, len(s[:128])]) + s[:128])
    b['notification-shutdown-trailing'] = ('as4', 3, lambda s: bytes([6, 2, 2]) + b'ok' + s)
    b['notification-data-2-0'] = ('as4', 3, lambda s: bytes([2, 0]) + s)
    b['notification-data-unknown-code'] = ('as4', 3, lambda s: bytes([99, 77]) + s)
    b['update-bgpls-node-name'] = ('as4', 2, lambda s: update_body(BASE_ATTRS + attr(0x80, 29, tlv16(1026, s[:255])), bytes([24, 10, 0, 0])))
    b['update-bgpls-link-name'] = ('as4', 2, lambda s: update_body(BASE_ATTRS + attr(0x80, 29, tlv16(1098, s[:255])), bytes([24, 10, 0, 0])))
    b['update-bgpls-node-opaque'] = ('as4', 2, lambda s: update_body(BASE_ATTRS + attr(0x80, 29, tlv16(1025, s)), bytes([24, 10, 0, 0])))
    b['update-bgpls-link-opaque'] = ('as4', 2, lambda s: update_body(BASE_ATTRS + attr(0x80, 29, tlv16(1097, s)), bytes([24, 10, 0, 0])))
    b['update-bgpls-prefix-opaque'] = ('as4', 2, lambda s: update_body(BASE_ATTRS + attr(0x80, 29, tlv16(1157, s)), bytes([24, 10, 0, 0])))
    b['update-bgpls-unknown-tlv'] = ('as4', 2, lambda s: update_body(BASE_ATTRS + attr(0x80, 29, tlv16(4242, s) + tlv16(1026, b'n1')), bytes([24, 10, 0, 0])))
    b['update-bgpls-names-and-metrics'] = ('as4', 2, lambda s: update_body(
        BASE_ATTRS + attr(0x80, 29, tlv16(1026, s[:200]) + tlv16(1095, b'\x00\x00\x0a') + tlv16(1098, s[:200]) + tlv16(1028, bytes([1, 1, 1, 1]))),
        bytes([24, 10, 0, 0])))
    b['update-unknown-transitive'] = ('as4', 2, lambda s: update_body(BASE_ATTRS + attr(0xC0, 99, s), bytes([24, 10, 0, 0])))
    b['update-unknown-partial'] = ('as2', 2, lambda s: update_body(BASE_ATTRS + attr(0xE0, 200, s), bytes([24, 10, 0, 0])))
    b['update-unknown-nontransitive'] = ('as4', 2, lambda s: update_body(BASE_ATTRS + attr(0x80, 255, s), bytes([24, 10, 0, 0])))
    b['update-unknown-withdraw-only'] = ('as4', 2, lambda s: update_body(attr(0xC0, 99, s), b'', bytes([24, 10, 0, 0])))
    b['operational-advisory-adm'] = ('as4', 6, lambda s: (1).to_bytes(2, 'big') + (3 + len(s)).to_bytes(2, 'big') + bytes([0, 1, 1]) + s)
    b['operational-advisory-asm'] = ('as4', 6, lambda s: (2).to_bytes(2, 'big') + (3 + len(s)).to_bytes(2, 'big') + bytes([0, 2, 1]) + s)
    b['operational-unknown-type'] = ('as4', 6, lambda s: (4660).to_bytes(2, 'big') + len(s).to_bytes(2, 'big') + s)
    return b


def prefix_sid_attr(rng, hostile):
    """BGP prefix-SID (40) with an SRv6 L3 service TLV holding a SID information sub-TLV, a structure sub-sub-TLV and
    unknown sub-/sub-sub-TLVs carrying peer bytes"""
    def tlv8(t, v):
        return bytes([t]) + len(v).to_bytes(2, 'big') + v

    subsub = tlv8(1, bytes([40, 24, 16, 0, 16, 64]))
    if rng.random() < 0.8:
        subsub += tlv8(rng.choice([2, 7, 200, 255]), hostile[: rng.choice([0, 1, 7, 40])])
    sid_info = b'\x00' + bytes(rng.getrandbits(8) for _ in range(16)) + bytes([0]) + rng.choice([17, 18, 19, 65535]).to_bytes(2, 'big') + b'\x00' + subsub
    if rng.random() < 0.25:
        sid_info += tlv8(1, bytes([32, 16, 16, 0, 0, 0]))  # a second SID structure sub-sub-TLV
    sub = tlv8(1, sid_info)
    if rng.random() < 0.25:
        sub += sub  # the SID information sub-TLV twice
    if rng.random() < 0.7:
        sub += tlv8(rng.choice([2, 9, 250]), hostile[: rng.choice([0, 3, 30])])
    service = tlv8(rng.choice([5, 6]), b'\x00' + sub)
    extra = b''
    if rng.random() < 0.5:
        extra += tlv8(1, b'\x00' + b'\x00\x00' + (rng.getrandbits(32)).to_bytes(4, 'big'))  # label index
    if rng.random() < 0.5:
        extra += tlv8(rng.choice([4, 77, 254]), hostile[: rng.choice([0, 2, 20])])  # unknown top-level TLV
    if rng.random() < 0.25:
        service += service  # the same service TLV twice
    if rng.random() < 0.25:
        extra += extra  # label index / unknown TLV twice
    return attr(0xC0, 40, extra + service)


def fixed_updates(rng, hostiles):
    """(kind, neighbor key, body) of deliberately built UPDATEs"""
    out = []
    agg2 = attr(0xC0, 7, bytes([0x5B, 0xA0, 1, 2, 3, 4]))
    agg4 = attr(0xC0, 18, bytes([0, 1, 0, 0, 1, 2, 3, 4]))
    agg8 = attr(0xC0, 7, bytes([0, 1, 0, 0, 1, 2, 3, 4]))
    nl = bytes([24, 10, 0, 0])
    out.append(('update-aggregator-and-as4-aggregator', 'as2', update_body(BASE_ATTRS + agg2 + agg4, nl)))
    out.append(('update-aggregator-and-as4-aggregator', 'as4', update_body(BASE_ATTRS + agg8 + agg4, nl)))
    out.append(('update-aggregator-only', 'as2', update_body(BASE_ATTRS + agg2, nl)))
    out.append(('update-as4-aggregator-only', 'as2', update_body(BASE_ATTRS + agg4, nl)))
    out.append(('update-as-path-and-as4-path', 'as2', update_body(
        attr(0x40, 1, b'\x00') + attr(0x40, 2, bytes([2, 2, 0x5B, 0xA0, 0, 100])) + attr(0x40, 3, bytes([10, 0, 0, 1]))
        + attr(0xC0, 17, bytes([2, 1, 0, 1, 0, 0])), nl)))
    out.append(('update-eor-ipv4', 'as4', b'\x00\x00\x00\x00'))
    for afi, safi in ((2, 1), (1, 128), (25, 70), (16388, 71), (1, 133)):
        out.append(('update-eor-mp', 'as4', update_body(attr(0x80, 15, afi.to_bytes(2, 'big') + bytes([safi])))))
    out.append(('update-withdraw-only', 'as4', update_body(b'', b'', bytes([24, 10, 0, 0, 16, 10, 1]))))
    out.append(('update-withdraw-with-nexthop', 'as4', update_body(BASE_ATTRS, b'', bytes([24, 10, 0, 0]))))
    out.append(('update-announce-and-withdraw', 'as4', update_body(BASE_ATTRS, bytes([24, 10, 0, 0, 32, 10, 0, 0, 1]), bytes([24, 10, 9, 0]))))
    out.append(('update-attributes-only', 'as4', update_body(BASE_ATTRS)))
    out.append(('update-addpath', 'ap', update_body(BASE_ATTRS, bytes([0, 0, 0, 7, 24, 10, 0, 0]))))
    # every core attribute with plausible and boundary payloads
    core = (BASE_ATTRS + attr(0x80, 4, (4294967295).to_bytes(4, 'big')) + attr(0x40, 6, b'') + attr(0xC0, 8, bytes([255, 255, 255, 1, 0, 0, 0, 0, 255, 255, 0, 0]))
            + attr(0x80, 9, bytes([1, 1, 1, 1])) + attr(0x80, 10, bytes([2, 2, 2, 2, 3, 3, 3, 3]))
            + attr(0xC0, 16, bytes([0, 2, 253, 232, 0, 0, 0, 1, 0x80, 6, 0, 0, 0, 0, 0, 0, 99, 99, 1, 2, 3, 4, 5, 6]))
            + attr(0xC0, 32, bytes(range(12)) + b'\xff' * 12) + attr(0x80, 26, bytes([1, 0, 11]) + (2 ** 63 + 5).to_bytes(8, 'big'))
            + attr(0xC0, 22, bytes([0, 6]) + bytes([0, 0, 0x10]) + bytes([9, 9, 9, 9])) + attr(0xC0, 25, bytes([0, 2]) + bytes(range(16)) + bytes([0, 1])))
    out.append(('update-all-core-attributes', 'as4', update_body(core, nl)))
    for _ in range(24):
        h = rng.choice(hostiles)
        out.append(('update-prefix-sid-srv6', 'as4', update_body(BASE_ATTRS + prefix_sid_attr(rng, h), nl)))
    return out


def corpus_updates():
    """qa/decoding: `update <afi> <safi>` entries hold UPDATE bodies, `nlri` entries one NLRI to be wrapped in MP_REACH"""
    from exabgp.protocol.family import AFI, SAFI

    out = []
    for path in sorted(glob.glob(os.path.join(common.REPO, 'qa', 'decoding', '*'))):
        try:
            lines = open(path).read().splitlines()
        except OSError:
            continue
        if len(lines) < 2:
            continue
        head = lines[0].split()
        try:
            raw = bytes.fromhex(lines[1].replace(' ', '').replace(':', ''))
        except ValueError:
            continue
        name = os.path.basename(path)
        if head and head[0] == 'update':
            if raw.startswith(b'\xff' * 16):
                raw = raw[19:]
            out.append(('corpus-update:' + name, 'as4', raw))
        elif head and head[0] == 'nlri' and len(head) == 3:
            try:
                afi, safi = AFI.from_string(head[1]), SAFI.from_string(head[2])
            except Exception:
                continue
            nh = bytes([4, 10, 0, 0, 1]) if int(afi) != 2 else bytes([16]) + bytes(15) + b'\x01'
            mp = int(afi).to_bytes(2, 'big') + bytes([int(safi)]) + nh + b'\x00' + raw
            out.append(('corpus-nlri:' + name, 'as4', update_body(attr(0x40, 1, b'\x00') + attr(0x40, 2, b'') + attr(0x40, 5, bytes(4)) + attr(0x80, 14, mp))))
        elif head and head[0] == 'open':
            if raw.startswith(b'\xff' * 16):
                out.append(('corpus-open:' + name, 'as4', raw[19:], 1))
    return out


def conf_updates(impl_negotiated):
    """every route of etc/exabgp/*.conf, encoded by the real encoder for its own session: (kind, neighbor, negotiated, body)"""
    from exabgp.configuration.configuration import Configuration
    from exabgp.configuration.check import _negotiated
    from exabgp.bgp.message.update.collection import UpdateCollection, RoutedNLRI

    out, skipped = [], {}
    for path in sorted(glob.glob(os.path.join(common.REPO, 'etc', 'exabgp', '*.conf'))):
        base = os.path.basename(path)
        try:
            conf = Configuration([path])
            ok = conf.reload()
        except BaseException as exc:
            skipped[base] = type(exc).__name__
            continue
        if not ok:
            skipped[base] = 'refused'
            continue
        for name in sorted(conf.neighbors):
            try:
                neighbor = copy.deepcopy(conf.neighbors[name])
                if not neighbor.rib.enabled:
                    continue
                neg_in, neg_out = _negotiated(neighbor)
                for _ in neighbor.rib.outgoing.updates(False):
                    pass
                routes = list(neighbor.rib.outgoing.cached_routes())
            except BaseException as exc:
                skipped[base + ':' + name] = f'{type(exc).__name__}'
                continue
            for i, route in enumerate(routes):
                for mode in ('announce', 'withdraw'):
                    try:
                        if mode == 'announce':
                            coll = UpdateCollection([RoutedNLRI(route.nlri, route.nexthop)], [], route.attributes)
                        else:
                            coll = UpdateCollection([], [route.nlri], route.attributes)
                        msgs = list(coll.messages(neg_out))
                    except Exception as exc:
                        skipped[f'{base}:{name}:{i}:{mode}'] = type(exc).__name__
                        continue
                    for m in msgs:
                        out.append((f'conf-{mode}:{base}', neighbor, neg_in, bytes(m[19:])))
    return out, skipped


def with_repeated_tunnel_subtlv(body):
    """an UPDATE body whose TUNNEL_ENCAP (23) attribute holds one tunnel TLV: the same with an unknown sub-TLV (type 100,
    one octet) appended twice -> new body | None"""
    wl = int.from_bytes(body[0:2], 'big')
    al = int.from_bytes(body[2 + wl:4 + wl], 'big')
    start = 4 + wl
    attrs, out, i, done = body[start:start + al], b'', 0, False
    while i < len(attrs):
        flag, code = attrs[i], attrs[i + 1]
        if flag & 0x10:
            ln, hd = int.from_bytes(attrs[i + 2:i + 4], 'big'), 4
        else:
            ln, hd = attrs[i + 2], 3
        val = attrs[i + hd:i + hd + ln]
        if code == 23 and len(val) >= 4 and int.from_bytes(val[2:4], 'big') == len(val) - 4 and not done:
            sub = val[4:] + bytes([100, 1, 0xAA, 100, 1, 0xBB])
            val = val[:2] + len(sub).to_bytes(2, 'big') + sub
            done = True
        out += attr(flag & ~0x10, code, val)
        i += hd + ln
    if not done:
        return None
    return body[:2 + wl] + len(out).to_bytes(2, 'big') + out + body[start + al:]


def with_repeated_tunnel_tlv(body):
    """an UPDATE body whose TUNNEL_ENCAP (23) attribute holds tunnel TLVs: the same with its first tunnel TLV written
    twice (RFC 9012 section 2 allows several TLVs of one tunnel type); a body without the attribute gets one made of
    two TLVs of the unassigned tunnel type 99 -> new body"""
    wl = int.from_bytes(body[0:2], 'big')
    al = int.from_bytes(body[2 + wl:4 + wl], 'big')
    start = 4 + wl
    attrs, out, i, done = body[start:start + al], b'', 0, False
    while i < len(attrs):
        flag, code = attrs[i], attrs[i + 1]
        if flag & 0x10:
            ln, hd = int.from_bytes(attrs[i + 2:i + 4], 'big'), 4
        else:
            ln, hd = attrs[i + 2], 3
        val = attrs[i + hd:i + hd + ln]
        if code == 23 and len(val) >= 4 and not done:
            first = val[:4 + int.from_bytes(val[2:4], 'big')]
            val = first + val
            done = True
        out += attr(flag & ~0x10, code, val)
        i += hd + ln
    if not done:
        out += attr(0xC0, 23, bytes([0, 99, 0, 1, 0xAA, 0, 99, 0, 1, 0xBB]))
    return body[:2 + wl] + len(out).to_bytes(2, 'big') + out + body[start + al:]


def mutate_body(rng, body):
    b = bytearray(body)
    k = rng.choice(['flip', 'flip', 'byte', 'byte', 'insert', 'delete', 'swap'])
    if not b:
        return bytes(b)
    i = rng.randrange(len(b))
    if k == 'flip':
        b[i] ^= 1 << rng.randrange(8)
    elif k == 'byte':
        b[i] = rng.choice([0, 1, 0x22, 0x5C, 0x0A, 0x0D, 0x7F, 0x80, 0xC3, 0xFF, rng.getrandbits(8)])
    elif k == 'insert':
        b[i:i] = bytes([rng.getrandbits(8)])
    elif k == 'delete':
        del b[i]
    else:
        j = rng.randrange(len(b))
        b[i], b[j] = b[j], b[i]
    # keep the two length fields consistent so that most mutants reach the attribute / NLRI decoders
    return bytes(b)


# ------------------------------------------------------------------------------- judging one event

class Judge:
    def __init__(self, run, impl):
        self.run, self.impl = run, impl
        self.counts = collections.Counter()
        self.fail_counts = collections.Counter()
        self.json_lines = []  # (text) sample of real JSON event lines for the wf_json correspondence
        self.rendered = 0
        self.seen_sigs = set()

    def fail(self, sig, what, case):
        sig = sig.replace('mutant-of-', '').replace(':json6:', ':json:').replace(':json4:', ':json:').replace(':text6:', ':text:').replace(':text4:', ':text:')
        self.fail_counts[sig] += 1
        if sig in self.seen_sigs:
            return
        self.seen_sigs.add(sig)
        self.run.fail_case(sig, what, case)

    def render(self, ev):
        """-> {encoder: string | None} ; failures recorded"""
        out = {}
        for name, enc in self.impl.encoders.items():
            try:
                out[name] = ev.call(name, enc)
            except Exception as exc:
                out[name] = exc
                self.fail(f'render-raises:{name}:{ev.kind.split(":")[0]}:{type(exc).__name__}',
                          f'{name} encoder raised {type(exc).__name__}: {exc}'[:300] + ' while rendering a decoded event',
                          dict(ev.case, encoder=name, traceback=traceback.format_exc()[-800:]))
            self.rendered += 1
        return out

    def judge(self, ev, benign=None, pairs=None):
        """render ev under the four encoders and apply every check; `benign` = the same event built with the marker"""
        kind = ev.kind.split(':')[0]
        self.counts[kind] += 1
        res = self.render(ev)
        bres = self.render(benign) if benign is not None else None
        for name, text in res.items():
            if isinstance(text, Exception):
                continue
            case = dict(ev.case, encoder=name)
            if text is None:
                if name.startswith('json'):
                    self.fail(f'json-event-missing:{name}:{kind}', 'the JSON encoder returned nothing for an event', case)
                continue
            case['rendered'] = text[:1500]
            if name.startswith('json'):
                trees = self.judge_json(name, kind, ev, text, case)
                if trees is not None and bres is not None and isinstance(bres.get(name), str):
                    btree, bprob = strict_parse(bres[name])
                    if btree is not None:
                        diffs = []
                        tree_diff(normalise(trees), normalise(btree), '', pairs, diffs)
                        for d in diffs[:3]:
                            self.fail(f'json-tree-forged:{d[0]}:{name}:{kind}',
                                      f'the event rendered with the peer bytes differs from the same event rendered with a benign string '
                                      f'other than in the string value that holds them: {d}'[:400], dict(case, benign=bres[name][:1500], diff=str(d)[:300]))
            else:
                self.judge_text(name, kind, ev, text, case)
                if bres is not None and isinstance(bres.get(name), str):
                    if text.count('\n') != bres[name].count('\n'):
                        self.fail(f'text-line-count-changed:{name}:{kind}', 'peer bytes changed the number of lines of a text event',
                                  dict(case, benign=bres[name][:800]))
            # Processes.write
            try:
                data = self.impl.write(text)
                if data != (text + '\n').encode('ascii'):
                    self.fail(f'write-bytes-differ:{name}:{kind}', 'Processes.write queued bytes that are not the event followed by a newline', case)
            except UnicodeEncodeError as exc:
                self.fail(f'write-cannot-encode:{name}:{kind}', f'Processes.write cannot encode the event: {exc}'[:300], case)
            except Exception as exc:
                self.fail(f'write-raises:{name}:{kind}:{type(exc).__name__}', f'Processes.write raised {exc}'[:300], case)
        return res

    def judge_json(self, name, kind, ev, text, case):
        if '\n' in text or '\r' in text:
            self.fail(f'json-not-one-line:{name}:{kind}', 'a JSON event holds a line break', case)
        cc = control_chars(text)
        if cc:
            self.fail(f'json-raw-control-char:{name}:{kind}', f'a JSON event holds raw control characters {[hex(ord(c)) for c in cc]}', case)
        tree, problems = strict_parse(text)
        for p in problems:
            tag = p.split(':', 1)
            if tag[0] == 'duplicate-key':
                keys, _, where = tag[1].partition('@')
                # one finding, one name: a repeated key inside the TUNNEL_ENCAP attribute object is the repeated sub-TLV
                # defect whatever message drew it (built case, configured route, byte mutant); elsewhere the event kind names it
                if where.rstrip('/').endswith('/attribute/tunnel-encap'):
                    # members of the attribute object itself: one per tunnel TLV (RFC 9012 2: several TLVs of one
                    # tunnel type are legal)
                    dkind = 'update-tunnel-encap-repeated-tunnel'
                elif '/attribute/tunnel-encap' in where:
                    dkind = 'update-tunnel-encap-repeated-subtlv'
                elif kind in ('update-tunnel-encap-repeated-subtlv', 'update-tunnel-encap-repeated-tunnel'):
                    dkind = 'update-tunnel-encap-case-elsewhere'
                else:
                    dkind = kind
                self.fail(f'duplicate-key:{dkind}:{keys}', f'a JSON event holds an object with a repeated key ({keys}) at {where}', case)
            else:
                self.fail(f'json-unparseable:{name}:{kind}', f'a JSON event does not parse: {p}', case)
        if tree is None:
            return None
        for p in check_envelope(tree, self.impl.versions[name], ev.etype, ev.neighbor, ev.direction):
            self.fail(f'json-{p}:{name}:{kind}', f'documented envelope field missing or wrong: {p}', case)
        if len(self.json_lines) < 4000:
            self.json_lines.append(text)
        return tree

    def judge_text(self, name, kind, ev, text, case):
        lines = text.split('\n')
        body_lines = lines[:-1] if text.endswith('\n') else lines
        if ev.text_lines and len(body_lines) != ev.text_lines:
            self.fail(f'text-line-count:{name}:{kind}', f'a text event has {len(body_lines)} lines, {ev.text_lines} expected', case)
        if any(ln == '' for ln in body_lines):
            self.fail(f'text-empty-line:{name}:{kind}', 'a text event holds an empty line', case)
        cc = control_chars(text.replace('\n', ''))
        if cc:
            self.fail(f'text-control-char:{name}:{kind}', f'a text event holds control characters {[hex(ord(c)) for c in cc]}', case)


# ------------------------------------------------------------------------------- abstraction of UPDATEs and events (model inputs)

def copt(x, f):
    return 'None' if x is None else f'(Some {f(x)})'


def cstr(s):
    return zlist(cps(s))


def abstract_update(enc, uc):
    """a real UpdateCollection / EOR -> the model's `upd` (fragments = what the per-class json() methods return)"""
    if getattr(uc, 'IS_EOR', False):
        return {'eor': enc._nlri_to_json(uc.nlris[0]), 'ann': [], 'wd': [], 'attr': None}
    ann = []
    for routed in uc.announces:
        fam = routed.nlri.family().afi_safi()
        ann.append((f'{fam[0]} {fam[1]}', str(routed.nexthop), enc._nlri_to_json(routed.nlri, routed.nexthop)))
    wd = []
    for nlri in uc.withdraws:
        fam = nlri.family().afi_safi()
        wd.append((f'{fam[0]} {fam[1]}', enc._nlri_to_json(nlri)))
    attr = None if not uc.attributes else uc.attributes.json(include_nexthop=bool(wd), generic=enc.generic_attribute_format)
    return {'eor': None, 'ann': ann, 'wd': wd, 'attr': attr}


def coq_upd(a):
    ann = '[' + '; '.join(f'({cstr(f)}, ({cstr(n)}, {cstr(j)}))' for f, n, j in a['ann']) + ']'
    wd = '[' + '; '.join(f'({cstr(f)}, {cstr(j)})' for f, j in a['wd']) + ']'
    return f'(mkUpd {copt(a["eor"], cstr)} {ann} {wd} {copt(a["attr"], cstr)})'


def upd_size(a):
    return sum(len(f) + len(n) + len(j) for f, n, j in a['ann']) + sum(len(f) + len(j) for f, j in a['wd']) + len(a['attr'] or '') + len(a['eor'] or '')


class _StubFamily:
    def __init__(self, fam):
        self.fam = fam

    def afi_safi(self):
        return self.fam


class StubNlri:
    """an NLRI reduced to what JSON._update reads: its family and its json fragment"""

    def __init__(self, fam, frag):
        self.fam, self.frag = fam, frag

    def family(self):
        return _StubFamily(self.fam)

    def json(self, compact=None):
        return self.frag

    def v4_json(self, compact=None, nexthop=None):
        return self.frag


class StubRouted:
    def __init__(self, nlri, nexthop):
        self.nlri, self.nexthop = nlri, nexthop


class StubAttributes:
    def __init__(self, content, empty):
        self.content, self.empty = content, empty

    def __bool__(self):
        return not self.empty

    def json(self, include_nexthop=False, generic=False):
        return self.content


class StubUpdate:
    IS_EOR = False

    def __init__(self, announces, withdraws, attributes):
        self.announces, self.withdraws, self.attributes = announces, withdraws, attributes
        self.nlris = [r.nlri for r in announces] + list(withdraws)


def stub_updates(rng, n):
    """abstract messages: any number of families / next hops / routes in any interleaving, with and without attributes"""
    from exabgp.protocol.family import AFI, SAFI

    fams = [(AFI.ipv4, SAFI.unicast), (AFI.ipv6, SAFI.unicast), (AFI.ipv4, SAFI.mpls_vpn), (AFI.l2vpn, SAFI.evpn), (AFI.ipv4, SAFI.flow_ip),
            (AFI.ipv6, SAFI.nlri_mpls)]
    nhs = ['10.0.0.1', '10.0.0.2', '2001:db8::1', '', 'self', '0.0.0.0']
    out = []
    for i in range(n):
        k_f, k_n = rng.choice([1, 1, 2, 3, 6]), rng.choice([1, 1, 2, 3, 6])
        n_a = rng.choice([0, 0, 1, 2, 3, 5, 9])
        n_w = rng.choice([0, 0, 1, 2, 4])
        ann = []
        for j in range(n_a):
            fam = rng.choice(fams[:k_f])
            frag = rng.choice(['{ "nlri": "10.%d.0.0/16" }' % j, '{ "nlri": "10.%d.0.0/16", "path-information": "0.0.0.%d" }' % (j, j), '"x%d"' % j, '%d' % j,
                               '[ %d, { "a": null } ]' % j, '{  }'])
            ann.append(StubRouted(StubNlri(fam, frag), rng.choice(nhs[:k_n])))
        wd = [StubNlri(rng.choice(fams[:k_f]), '{ "nlri": "192.168.%d.0/24" }' % j) for j in range(n_w)]
        mode = rng.choice(['none', 'empty-content', 'one', 'two'])
        attrs = StubAttributes({'none': '', 'empty-content': '', 'one': '"origin": "igp"', 'two': '"origin": "igp", "med": 5'}[mode], mode == 'none')
        out.append(StubUpdate(ann, wd, attrs))
    # the corner cases, always present
    a = StubAttributes('"origin": "igp"', False)
    none = StubAttributes('', True)
    r1 = StubRouted(StubNlri(fams[0], '{ "nlri": "10.0.0.0/8" }'), '10.0.0.1')
    out += [StubUpdate([], [], a), StubUpdate([], [], none), StubUpdate([r1], [], none), StubUpdate([], [r1.nlri], none), StubUpdate([r1], [r1.nlri], a),
            StubUpdate([r1, StubRouted(StubNlri(fams[1], '1'), '10.0.0.1'), StubRouted(StubNlri(fams[0], '2'), '10.0.0.1')], [], a)]
    return out


def fragment_cases(target):
    """real INET NLRIs and real attribute objects of one decoded UPDATE -> (Coq expression of the model, real json text, kind)"""
    from struct import unpack
    from exabgp.bgp.message.update.nlri.inet import INET
    from exabgp.bgp.message.update.attribute.collection import AttributeCollection

    out = []
    nlris = [r.nlri for r in getattr(target, 'announces', [])] + list(getattr(target, 'withdraws', []))
    for nlri in nlris[:3]:
        if type(nlri) is not INET:
            continue
        pi = nlri.path_info
        if pi._disabled:
            pathinfo = None
        else:
            pathinfo = '.'.join(str(b) for b in pi._packed) if pi._packed else '0.0.0.0'
        for compact in (False, True):
            out.append((f'inet_json {cstr(nlri.cidr.prefix())} {copt(pathinfo, cstr)} {"true" if compact else "false"}', nlri.json(compact=compact), 'inet'))
    attrs = getattr(target, 'attributes', None)
    if attrs:
        ac = AttributeCollection()
        items = []
        for code in sorted(attrs.keys()):
            a = attrs[code]
            name = type(a).__name__
            if code == 1 and name == 'Origin':
                items.append(f'AOrigin {cstr(str(a))}')
            elif code == 3 and name in ('NextHop', 'NextHopSelf'):
                items.append(f'ANextHop {cstr(str(a))}')
            elif code == 4 and name == 'MED':
                items.append(f'AMed {int(str(a))}')
            elif code == 5 and name == 'LocalPreference':
                items.append(f'ALocalPref {int(str(a))}')
            elif code == 6 and name == 'AtomicAggregate':
                items.append('AAtomic')
            elif code == 7 and name == 'Aggregator':
                items.append(f'AAggregator {cstr(str(a))}')
            elif code == 8 and name == 'Communities':
                items.append('ACommunity [' + '; '.join('(%d, %d)' % unpack('!HH', bytes(c._packed)) for c in a.communities) + ']')
            elif code == 9 and name == 'OriginatorID':
                items.append(f'AOriginator {cstr(str(a))}')
            elif code == 10 and name == 'ClusterList':
                items.append('AClusterList [' + '; '.join(cstr(str(c)) for c in a.clusters) + ']')
            else:
                continue
            ac[code] = a
        if items:
            out.append(('attr_content [' + '; '.join(items) + ']', ac.json(include_nexthop=True), 'attributes'))
    return out


def coq_peer(neighbor):
    rid = neighbor.session.router_id
    return (f'(mkPeer {cstr(str(neighbor.session.local_address))} {cstr(str(neighbor.session.peer_address))} {int(neighbor.session.local_as)} '
            f'{int(neighbor.session.peer_as)} {copt(str(rid) if rid else None, cstr)})')


def event_cases(impl, rng, hostiles, updates, n_updates, thorough=False):
    """(Coq expression of the model's event line, the real encoder's line) for the event kinds the model builds"""
    import socket
    from exabgp.bgp.message import Message
    from exabgp.bgp.message.open.capability.negotiated import Negotiated
    from exabgp.reactor.api.response.json import JSON
    from exabgp.util import hexstring
    from exabgp.bgp.fsm import FSM

    fixed_time = 1700000000.25
    cases = []
    for label in ('json6', 'json4'):
        enc = impl.encoders[label]
        inner = enc._v6 if hasattr(enc, '_v6') else enc
        saved = inner.time
        inner.time = lambda t: fixed_time
        env = f'(mkEnv {cstr(impl.versions[label])} {cstr(str(fixed_time))} {cstr(socket.gethostname())} {os.getpid()} {os.getppid()})'
        try:
            for nk in (('as4', 'as2', 'ap') if thorough else (('as4', 'as2') if label == 'json6' else ('ap',))):
                neighbor, nin = impl.neighbors[nk]
                peer = coq_peer(neighbor)

                def counter():
                    return JSON._count.get(neighbor.uid, 0)

                def opt_hex(b):
                    return copt(hexstring(b) if b else None, cstr)

                real = enc.up(neighbor)
                cases.append((f'ev_state {env} {counter()} t_state {peer} {cstr("up")}', real, 'up'))
                real = enc.connected(neighbor)
                cases.append((f'ev_state {env} {counter()} t_state {peer} {cstr("connected")}', real, 'connected'))
                for st in list(FSM.STATE)[: (3 if thorough else 1)]:
                    fsm = FSM(None, st)
                    real = enc.fsm(neighbor, fsm)
                    cases.append((f'ev_state {env} {counter()} {cstr("fsm")} {peer} {cstr(fsm.name())}', real, 'fsm'))
                for h in rng.sample(hostiles, 6 if thorough else 3):
                    reason = h.decode('utf-8', 'replace')
                    real = enc.down(neighbor, reason)
                    cases.append((f'ev_down {env} {counter()} {peer} {cstr(reason)}', real, 'down'))
                for hdr, bdy in ((b'', b''), (header_of(4, b''), b''), (header_of(4, b'x'), b'x')):
                    real = enc.keepalive(neighbor, 'receive', hdr, bdy, nin)
                    cases.append((f'ev_keepalive {env} {counter()} {opt_hex(hdr)} {opt_hex(bdy)} {peer} {cstr("receive")}', real, 'keepalive'))
                for h in rng.sample(hostiles, 6 if thorough else 3):
                    body = rng.choice([bytes([6, 2, len(h[:100])]) + h[:100], bytes([2, 0]) + h, bytes([6, 4, 0])])
                    try:
                        msg = Message.unpack(3, body, nin)
                    except Exception:
                        continue
                    hdr = rng.choice([b'', header_of(3, body)])
                    bdy = body if hdr else b''
                    real = enc.notification(neighbor, 'send', msg, hdr, bdy, nin)
                    text = msg.data.decode('utf-8', 'replace')
                    cases.append((f'ev_notification {env} {counter()} {opt_hex(hdr)} {opt_hex(bdy)} {peer} {cstr("send")} {int(msg.code)} {int(msg.subcode)} '
                                  f'{cstr(hexstring(msg.data))} {cstr(text)}', real, 'notification'))
            # update events on decoded messages (their own session)
            for nk, code, body in updates[:n_updates]:
                neighbor, nin = nk if isinstance(nk, tuple) else impl.neighbors[nk]
                try:
                    msg = Message.unpack(2, body, nin)
                    target = msg if getattr(msg, 'IS_EOR', False) else msg.data
                except Exception:
                    continue
                with_neg = rng.random() < 0.5
                hdr = rng.choice([b'', header_of(2, body)])
                bdy = body if hdr else b''
                real = enc.update(neighbor, 'receive', target, hdr, bdy, nin if with_neg else Negotiated.UNSET)
                a = abstract_update(inner, target)
                negf = inner._negotiated(nin)['negotiated'] if with_neg else None
                cnt = JSON._count.get(neighbor.uid, 0)
                cases.append((f'ev_update {env} {cnt} {copt(hexstring(hdr) if hdr else None, cstr)} {copt(hexstring(bdy) if bdy else None, cstr)} '
                              f'{coq_peer(neighbor)} {cstr("receive")} {coq_upd(a)} {copt(negf, cstr)}', real, 'update'))
            real = enc.shutdown()
            cases.append((f'global_event {env} k_notification [(k_notification, json_string {cstr("shutdown")})]', real, 'shutdown'))
        finally:
            inner.time = saved
    return cases


# ------------------------------------------------------------------------------- Coq side

HEADER = """From Coq Require Import ZArith Bool List.
From ExaV Require Import gen.Gen_JsonKeys model.Model_Json proofs.Proofs_Json model.Model_JsonEvent model.Model_JsonFrag.
Import ListNotations. Open Scope Z_scope.
Definition upd_ok (c : upd * list Z) : bool := list_eqb (update_message (fst c)) (snd c).
Definition ev_ok (c : list Z * list Z) : bool := list_eqb (fst c) (snd c).
Fixpoint bad {A} (f : A -> bool) (l : list A) (i : nat) : list nat :=
  match l with [] => [] | c :: l' => if f c then bad f l' (S i) else i :: bad f l' (S i) end.
Definition esc_ok (c : list Z * list Z) : bool := list_eqb (escape (fst c)) (snd c).
Definition one_ok (c : list Z * list Z) : bool := list_eqb (oneline (in_table oneline_kept_latin1) (fst c)) (snd c).
Inductive val := VS (s : list Z) | VI (n : Z) | VB (b : bool).
Definition rv (v : val) : list Z := match v with VS s => json_string s | VI n => json_int n | VB b => json_bool b end.
Definition obj_ok (c : list (list Z * val) * list Z) : bool :=
  list_eqb (json_object (map (fun kv => (fst kv, rv (snd kv))) (fst c))) (snd c)
  && wf_json (snd c) && single_line (snd c).
Definition wf_ok (c : list Z * bool) : bool := Bool.eqb (wf_json (fst c)) (snd c).
Definition b2n (b : bool) : nat := if b then 1%nat else 0%nat.
"""


def cps(s):
    return [ord(c) for c in s]


def eval_coq(esc_cases, one_cases, obj_cases, wf_cases, tag, upd_cases=(), ev_cases=()):
    """-> dict(ran, esc_bad, one_bad, obj_bad, wf_bad, table, logs)"""
    def budget(items, size, limit=45000):
        shards, cur, tot = [], [], 0
        for i, it in enumerate(items):
            s = size(it)
            if cur and tot + s > limit:
                shards.append(cur)
                cur, tot = [], 0
            cur.append(i)
            tot += s
        if cur:
            shards.append(cur)
        return shards

    res = {'logs': []}

    def run_group(cases, render, fn, ty, size, name):
        shards = budget(cases, size)

        def defs(idx):
            return (f'Definition cases : list ({ty}) := [' + ';\n'.join(render(cases[i]) for i in idx) + f'].\nEval vm_compute in (bad {fn} cases 0).\n')

        out = common.eval_cases(HEADER, defs, shards, f'{tag}_{name}')
        bad = []
        ran = True
        for shard, (rc, raw, parsed) in zip(shards, out):
            if rc != 0 or not parsed:
                ran = False
                res['logs'].append(raw[-1500:])
                continue
            bad += [shard[j] for j in common.nat_list_of(parsed[0])]
        return ran, bad

    def val(v):
        if isinstance(v, bool):
            return f'VB {"true" if v else "false"}'
        if isinstance(v, int):
            return f'VI ({v})'
        return f'VS {zlist(cps(v))}'

    r1, res['esc_bad'] = run_group(esc_cases, lambda c: f'({zlist(cps(c[0]))}, {zlist(cps(c[1]))})', 'esc_ok', 'list Z * list Z',
                                   lambda c: len(c[0]) + len(c[1]) + 4, 'esc')
    r2, res['one_bad'] = run_group(one_cases, lambda c: f'({zlist(cps(c[0]))}, {zlist(cps(c[1]))})', 'one_ok', 'list Z * list Z',
                                   lambda c: len(c[0]) + len(c[1]) + 4, 'one')
    r3, res['obj_bad'] = run_group(
        obj_cases, lambda c: '([' + '; '.join(f'({zlist(cps(k))}, {val(v)})' for k, v in c[0]) + f'], {zlist(cps(c[1]))})', 'obj_ok',
        'list (list Z * val) * list Z', lambda c: 2 * len(c[1]) + 8, 'obj')
    r4, res['wf_bad'] = run_group(wf_cases, lambda c: f'({zlist(cps(c[0]))}, {"true" if c[1] else "false"})', 'wf_ok', 'list Z * bool',
                                  lambda c: len(c[0]) + 4, 'wf')
    r5, res['upd_bad'] = run_group(list(upd_cases), lambda c: f'({coq_upd(c[0])}, {cstr(c[1])})', 'upd_ok', 'upd * list Z',
                                   lambda c: upd_size(c[0]) * 2 + len(c[1]) + 20, 'upd')
    r6, res['ev_bad'] = run_group(list(ev_cases), lambda c: f'({c[0]}, {cstr(c[1])})', 'ev_ok', 'list Z * list Z',
                                  lambda c: len(c[0]) // 3 + 2 * len(c[1]) + 20, 'ev')
    rc, raw = common.coq_eval_file(
        HEADER,
        'Eval vm_compute in [b2n (attr_keys_ok attr_key_table); b2n (same_rows attr_key_table pinned_attr_key_table); '
        'b2n (match oneline_kept_latin1 with [] => true | _ => false end); '
        'b2n (ascii_encodable (oneline (in_table oneline_kept_latin1) latin1_range))].', f'{tag}_table')
    parsed = common.parse_eval(raw) if rc == 0 else []
    res['table'] = common.nat_list_of(parsed[0]) if parsed else None
    if rc != 0:
        res['logs'].append(raw[-1500:])
    res['ran'] = r1 and r2 and r3 and r4 and r5 and r6 and res['table'] is not None and len(res['table']) == 4
    return res


def rand_unicode(rng, n):
    pools = [lambda: rng.randint(0, 31), lambda: rng.randint(32, 126), lambda: 127, lambda: rng.randint(128, 255), lambda: rng.randint(256, 0xD7FF),
             lambda: rng.randint(0xD800, 0xDFFF), lambda: rng.randint(0xE000, 0xFFFF), lambda: rng.randint(0x10000, 0x10FFFF),
             lambda: rng.choice([34, 92, 47, 8, 9, 10, 12, 13, 0x2028, 0x2029, 0x85, 0xFFFF, 0x10000, 0x10FFFF, 0xFFFE, 0xD800, 0xDFFF])]
    return ''.join(chr(rng.choice(pools)()) for _ in range(n))


def rand_json_text(rng, depth=0):
    """texts of a small JSON grammar, mostly valid; invalid ones come from mutation"""
    k = rng.random()
    ws = lambda: rng.choice(['', '', ' ', '  ', '\t', '\n'])
    if depth > 3 or k < 0.35:
        return rng.choice(['0', '-0', '1', '12', '-3', '1.5', '0.0', '1e5', '1E+5', '2e-3', '-1.25e10', 'true', 'false', 'null', '""', '"a"', '"\\n"',
                           '"\\u00e9"', '"\\ud83d\\ude00"', '"a\\"b"', '"\\\\"', '"\\/"', '"\x7f"', '"\xe9"', '01', '1.', '.5', '-', '+1', '1e', '1e+',
                           'tru', 'nul', 'True', 'NaN', 'Infinity', '-Infinity', '"\\x41"', '"\\u12"', '"\\u12G4"', '"a', '"\t"', '"\x00"', "'a'", '0x10', '1 2'])
    if k < 0.7:
        n = rng.randint(0, 3)
        members = [ws() + json.dumps(rng.choice(['a', 'b', 'k"q', 'x y', ''])) + ws() + ':' + ws() + rand_json_text(rng, depth + 1) for _ in range(n)]
        return '{' + ws() + (',' + ws()).join(members) + ws() + '}'
    n = rng.randint(0, 3)
    return '[' + ws() + (ws() + ',').join(rand_json_text(rng, depth + 1) for _ in range(n)) + ws() + ']'


def mutate_text(rng, s):
    if not s:
        return s
    i = rng.randrange(len(s))
    k = rng.choice(['del', 'ins', 'rep', 'trunc', 'dup', 'swap'])
    ch = rng.choice('"\\{}[],: \n\t0-e.ntf\x00\x1fu')
    if k == 'del':
        return s[:i] + s[i + 1:]
    if k == 'ins':
        return s[:i] + ch + s[i:]
    if k == 'rep':
        return s[:i] + ch + s[i + 1:]
    if k == 'trunc':
        return s[:i]
    if k == 'dup':
        return s[:i] + s[i] + s[i:]
    j = rng.randrange(len(s))
    l = list(s)
    l[i], l[j] = l[j], l[i]
    return ''.join(l)


# ------------------------------------------------------------------------------- main

def check(tier, seed):
    run = Run(PID, tier, seed)
    thorough = tier == 'thorough'
    run.trusted = [
        'coqc 8.16.1 kernel and vm_compute',
        'translate/t11_jsonkeys.py (reflection of AttributeCollection.representation / INTERNAL / NO_GENERATION and of oneline on Latin-1)',
        'harness/c13.py: strict checker built on python json.loads (object_pairs_hook, parse_constant), envelope and tree comparison, '
        'message builders (OPEN / NOTIFICATION / UPDATE / OPERATIONAL bytes), event drivers',
        'python json.dumps as the reference for `escape`; python json.loads (made strict) as the reference for `wf_json`',
    ]
    run.assumptions = [
        'the theorems are about Model_Json (escape, oneline, envelope combinators, recogniser); the bodies of the per-class json()/__str__ '
        'methods (NLRI, attribute, capability, BGP-LS TLV classes) are NOT modelled: that their output is one well-formed fragment is '
        'checked only by the strict parser on the events generated here',
        'str.isprintable() above Latin-1 is a function parameter of the model of oneline (Unicode database not modelled)',
        'events are produced by calling the encoder methods the way reactor/api/processes.py does; the reactor loop itself is not run',
    ]
    t_start = time.time()
    common.standard_build(run, ['T11', 'T14'])
    rng = random.Random(seed)

    try:
        impl = Impl()
    except Exception:
        run.obligation('implementation rig (neighbors, four encoders, Processes.write) built', False, traceback.format_exc()[-1500:])
        return run.finish(checker_cmd='coqc -Q coq ExaV coq/props/Prop_C13.v')
    judge = Judge(run, impl)
    hostiles = hostile_strings(rng, 400 if thorough else 60)
    outcomes = collections.Counter()
    families, attributes = collections.Counter(), collections.Counter()

    def note_update(events):
        """coverage: families / attribute codes of a decoded UPDATE"""
        try:
            tree, _ = strict_parse(events[0].call('json6', impl.encoders['json6']))
            upd = tree['neighbor']['message'].get('update', {}) if tree else {}
            for sect in ('announce', 'withdraw'):
                for fam in upd.get(sect, {}):
                    families[fam] += 1
            for k in upd.get('attribute', {}):
                attributes[k] += 1
            if tree and 'eor' in tree['neighbor']['message']:
                families['eor'] += 1
        except Exception:
            pass

    t0 = time.time()
    try:
        # ---- state events, keepalive, refresh, packets
        for ev in state_events(impl, rng, hostiles):
            judge.judge(ev)
        for nk in impl.neighbors:
            evs, oc = message_events(impl, nk, 4, b'', 'keepalive', variants=((True, True), (False, False), (True, False)))
            outcomes['keepalive:' + oc[0]] += 1
            for ev in evs:
                judge.judge(ev)
        for afi, safi, sub in [(1, 1, 0), (2, 1, 1), (1, 128, 2), (25, 70, 0), (16388, 71, 0), (0, 0, 0), (65535, 255, 2), (7, 9, 1), (1, 1, 3)]:
            evs, oc = message_events(impl, 'as4', 5, afi.to_bytes(2, 'big') + bytes([sub, safi]), 'refresh')
            outcomes['refresh:' + oc[0]] += 1
            for ev in evs:
                judge.judge(ev)
        neighbor, nin = impl.neighbors['as4']
        for cat in (1, 2, 3, 4, 5, 6, 0, 7, 255):
            for h in (b'', rng.choice(hostiles)):
                hdr, bdy = header_of(cat & 255, h), h
                from exabgp.bgp.message import Message as _M

                try:
                    etype = _M.string(cat)
                except Exception:
                    etype = None
                if etype is None:
                    continue
                judge.judge(Event('packets', etype, lambda name, enc, cat=cat, hdr=hdr, bdy=bdy: enc.packets(neighbor, 'receive', cat, hdr, bdy, nin),
                                  neighbor, 'receive', 1, {'event': 'packets', 'category': cat, 'body': bdy.hex()}))
        # operational: query / counter with fixed layout
        for what in (3, 5, 7):
            body = what.to_bytes(2, 'big') + (11).to_bytes(2, 'big') + bytes([0, 1, 1]) + bytes([1, 2, 3, 4]) + (77).to_bytes(4, 'big')
            evs, oc = message_events(impl, 'as4', 6, body, 'operational-query')
            outcomes['operational:' + oc[0]] += 1
            for ev in evs:
                judge.judge(ev)
        for what in (4, 6, 8):
            body = what.to_bytes(2, 'big') + (15).to_bytes(2, 'big') + bytes([0, 1, 1]) + bytes([1, 2, 3, 4]) + (77).to_bytes(4, 'big') + (4294967295).to_bytes(4, 'big')
            evs, oc = message_events(impl, 'as4', 6, body, 'operational-counter')
            outcomes['operational:' + oc[0]] += 1
            for ev in evs:
                judge.judge(ev)

        # ---- parametric events: hostile bytes against the benign marker
        builders = parametric_builders(rng)
        for bname, (nk, code, build) in builders.items():
            bev, boc = message_events(impl, nk, code, build(MARKER), bname, variants=((False, False),))
            if not bev:
                run.obligation(f'benign twin of {bname} decodes', False, str(boc))
                continue
            pool = hostiles if thorough else (hostiles[:52] + rng.sample(hostiles[52:], min(12, len(hostiles) - 52)))
            for h in pool:
                try:
                    body = build(h)
                except (ValueError, OverflowError):
                    continue
                evs, oc = message_events(impl, nk, code, body, bname, {'peer_bytes': h.hex()}, variants=((False, False), (True, True)))
                outcomes[f'{bname.split("-")[0]}:{oc[0]}'] += 1
                if not evs:
                    continue
                embedded = h[:64] if bname.startswith('open-') and 'unknown' not in bname else (h[:128] if 'notification-shutdown-6' in bname or 'reset' in bname else h)
                embedded = embedded[:255] if 'name' in bname and 'names' not in bname else embedded
                pairs = value_pairs(embedded) if embedded == h else None
                if bname in HEX_RENDERED:
                    pairs = value_pairs(h, hex_only=True)  # rendered as hex whatever the bytes
                if bname in ('update-bgpls-names-and-metrics', 'open-both'):
                    pairs = value_pairs(h[:64] if bname == 'open-both' else h[:200]) if len(h) <= 64 else None
                if not h:
                    pairs = None  # no peer bytes: another (legitimate) branch of the renderer, only the shape is compared
                if code == 2:
                    note_update(evs)
                judge.judge(evs[0], benign=bev[0], pairs=pairs)
                for ev in evs[1:]:
                    judge.judge(ev)
        for h in hostiles[: (len(hostiles) if thorough else 60)]:
            judge.judge(down_event(impl, 'as4', h), benign=down_event(impl, 'as4', MARKER), pairs=value_pairs(h))

        # ---- deliberately built UPDATEs, corpus, configured routes, and mutants of all of them
        bodies = []
        for kind, nk, body in fixed_updates(rng, hostiles):
            bodies.append((kind, nk, body, 2))
        for item in corpus_updates():
            kind, nk, body = item[:3]
            bodies.append((kind, nk, body, item[3] if len(item) > 3 else 2))
        for bi, (kind, nk, body, code) in enumerate(bodies):
            evs, oc = message_events(impl, nk, code, body, kind)
            if not evs and kind.startswith('corpus-'):
                for alt in ('ap', 'as2'):
                    evs, oc = message_events(impl, alt, code, body, kind)
                    if evs:
                        bodies[bi] = (kind, alt, body, code)
                        break
            outcomes[f'{kind.split(":")[0]}:{oc[0]}'] += 1
            if evs and code == 2:
                note_update(evs)
            for ev in evs:
                judge.judge(ev)
        confs, skipped = conf_updates(impl)
        run.coverage['conf_skipped'] = skipped
        for kind, nb, neg_in, body in confs:
            impl.neighbors['_conf'] = (nb, neg_in)
            evs, oc = message_events(impl, '_conf', 2, body, kind, {'neighbor': 'from ' + kind.split(':', 1)[1]})
            outcomes[f'{kind.split(":")[0]}:{oc[0]}'] += 1
            if evs:
                note_update(evs)
            for ev in evs:
                judge.judge(ev)
        n_rep = 0
        for kind, nb, neg_in, body in confs:
            if 'announce' not in kind:
                continue
            try:
                rep = with_repeated_tunnel_subtlv(body)
            except Exception:
                rep = None
            if rep is None or n_rep >= 6:
                continue
            n_rep += 1
            impl.neighbors['_conf'] = (nb, neg_in)
            evs, oc = message_events(impl, '_conf', 2, rep, 'update-tunnel-encap-repeated-subtlv', {'neighbor': 'from ' + kind.split(':', 1)[1]})
            outcomes[f'update-tunnel-encap-repeated-subtlv:{oc[0]}'] += 1
            for ev in evs:
                judge.judge(ev)
        n_rep = 0
        for kind, nb, neg_in, body in confs:
            if 'announce' not in kind or n_rep >= 8:
                continue
            try:
                rep = with_repeated_tunnel_tlv(body)
            except Exception:
                continue
            n_rep += 1
            impl.neighbors['_conf'] = (nb, neg_in)
            evs, oc = message_events(impl, '_conf', 2, rep, 'update-tunnel-encap-repeated-tunnel', {'neighbor': 'from ' + kind.split(':', 1)[1]})
            outcomes[f'update-tunnel-encap-repeated-tunnel:{oc[0]}'] += 1
            for ev in evs:
                judge.judge(ev)
        n_mut = (40 if thorough else 6)
        mut_pool = [(k, nk, b, c) for k, nk, b, c in bodies] + [(k, ('_c', nb, ng), b, 2) for k, nb, ng, b in confs]
        for kind, nk, body, code in mut_pool:
            for _ in range(n_mut):
                m = mutate_body(rng, body)
                if isinstance(nk, tuple):
                    impl.neighbors['_conf'] = (nk[1], nk[2])
                    key = '_conf'
                else:
                    key = nk
                evs, oc = message_events(impl, key, code, m, 'mutant-of-' + kind.split(':')[0], {'mutant_of': kind}, variants=((False, True),))
                outcomes[f'mutant:{oc[0]}'] += 1
                if evs and code == 2:
                    note_update(evs)
                for ev in evs:
                    judge.judge(ev)
        impl.neighbors.pop('_conf', None)
        run.obligation('event generation and rendering pass ran to completion', True)
    except Exception:
        run.obligation('event generation and rendering pass ran to completion', False, traceback.format_exc()[-2500:])
    t_impl = time.time() - t0

    total_fail = sum(judge.fail_counts.values())
    run.obligation(
        f'property oracle on {judge.rendered} renderings of {sum(judge.counts.values())} decoded events (4 encoders): no exception, JSON strict '
        f'(one line, parses, no duplicate key, envelope, tree unchanged but for the string value), text (line count, no control character), '
        f'Processes.write encodes', total_fail == 0, f'{total_fail} failing checks: {dict(judge.fail_counts.most_common(30))}')

    # ---------------------------------------------------------------- (A) correspondence with the Coq model
    t0 = time.time()
    from exabgp.reactor.api.response.text import oneline as real_oneline

    n_str = 1500 if thorough else 300
    strings = [h.decode('utf-8', 'replace') for h in hostiles] + [rand_unicode(rng, rng.choice([1, 2, 5, 12, 30])) for _ in range(n_str)]
    strings += [chr(c) for c in list(range(0, 160)) + [0xFFFF, 0x10000, 0x10FFFF, 0xD800, 0xDBFF, 0xDC00, 0xDFFF, 0x2028]]
    esc_cases = [(s, json.dumps(s)[1:-1]) for s in strings]
    lat = [''.join(chr(rng.randint(0, 255)) for _ in range(rng.choice([1, 3, 10, 25]))) for _ in range(n_str)] + [chr(c) for c in range(256)]
    lat += [s for s in strings if all(ord(c) < 256 for c in s)]
    one_cases = [(s, real_oneline(s)) for s in lat]
    jenc = impl.encoders['json6']
    obj_cases = []
    for _ in range(400 if thorough else 120):
        n = rng.randint(0, 4)
        kvs = {}
        for _ in range(n):
            k = ''.join(rng.choice('abcxyz-_09 :') for _ in range(rng.randint(1, 6)))
            kvs[k] = rng.choice([rng.choice(strings)[:20], rng.choice([0, 1, -1, 9, 10, 99, 100, 65535, 4294967295, -4200000001, 10 ** 18 + 7, rng.getrandbits(40)]),
                                 rng.random() < 0.5])
        obj_cases.append((list(kvs.items()), '{ ' + jenc._kv(kvs) + ' }'))
    real = judge.json_lines
    rng.shuffle(real)
    short = sorted(real, key=len)[: (120 if thorough else 30)]
    sample = real[: (150 if thorough else 30)]
    wf_cases = [(s, strict_accepts(s)) for s in sample]
    for s in short:
        for _ in range(6 if thorough else 3):
            m = mutate_text(rng, s)
            wf_cases.append((m, strict_accepts(m)))
    for _ in range(3000 if thorough else 600):
        s = rand_json_text(rng)
        if rng.random() < 0.4:
            s = mutate_text(rng, s)
        wf_cases.append((s, strict_accepts(s)))
    # JSON._update against Model_JsonEvent.update_message: abstract (stub) messages, then real decoded UPDATEs
    upd_cases, ev_cases, frag_cases, upd_notes = [], [], [], collections.Counter()
    try:
        inners = [impl.encoders['json6'], impl.encoders['json4']._v6]
        for stub in stub_updates(rng, 400 if thorough else 70):
            for enc in inners:
                upd_cases.append((abstract_update(enc, stub), enc._update(stub)['message']))
                upd_notes['stub'] += 1
        pool = []
        try:
            pool = [(nk, c, b) for _, nk, b, c in bodies if c == 2] + [((nb, ng), 2, b) for _, nb, ng, b in confs]
        except NameError:
            pass
        rng.shuffle(pool)
        from exabgp.bgp.message import Message as _Msg

        for nk, code, body in pool[: (400 if thorough else 50)]:
            nb_, nin_ = nk if isinstance(nk, tuple) else impl.neighbors[nk]
            try:
                msg = _Msg.unpack(2, body, nin_)
                target = msg if getattr(msg, 'IS_EOR', False) else msg.data
            except Exception:
                continue
            enc = rng.choice(inners)
            upd_cases.append((abstract_update(enc, target), enc._update(target)['message']))
            upd_notes['decoded'] += 1
            frag_cases.extend(fragment_cases(target))
        ev_cases = event_cases(impl, rng, hostiles, pool[::-1], 60 if thorough else 8, thorough)
        run.obligation('abstraction of UPDATEs and events for the model ran', True)
    except Exception:
        run.obligation('abstraction of UPDATEs and events for the model ran', False, traceback.format_exc()[-2000:])
    seen_frag = set()
    frag_cases = [c for c in frag_cases if not ((c[0], c[1]) in seen_frag or seen_frag.add((c[0], c[1])))]
    n_ev = len(ev_cases)
    ev_cases = ev_cases + frag_cases
    coq = eval_coq(esc_cases, one_cases, obj_cases, wf_cases, 'c13', upd_cases, [(e, r) for e, r, _ in ev_cases])
    t_coq = time.time() - t0
    run.obligation('Coq evaluation of the model (vm_compute) ran on every shard', coq['ran'], '\n'.join(coq['logs'])[-2000:])
    if coq['ran']:
        for i in coq['esc_bad'][:5]:
            run.fail_case('model-disagrees:escape', 'Model_Json.escape differs from json.dumps', {'string': cps(esc_cases[i][0]), 'dumps': esc_cases[i][1]})
        for i in coq['one_bad'][:5]:
            run.fail_case('model-disagrees:oneline', 'Model_Json.oneline differs from response/text.py oneline', {'string': cps(one_cases[i][0]), 'oneline': one_cases[i][1]})
        for i in coq['obj_bad'][:5]:
            run.fail_case('model-disagrees:object', 'Model_Json.json_object differs from JSON._kv wrapped in braces (or is not wf / single line)',
                          {'kvs': [[k, v] for k, v in obj_cases[i][0]], 'impl': obj_cases[i][1]})
        for i in coq['wf_bad'][:5]:
            run.fail_case('model-disagrees:wf_json', 'Model_Json.wf_json differs from the strict python parser', {'text': wf_cases[i][0][:600], 'python': wf_cases[i][1]})
        run.obligation(f'correspondence: escape = json.dumps on {len(esc_cases)} strings', not coq['esc_bad'], f'{len(coq["esc_bad"])} differ')
        run.obligation(f'correspondence: oneline (regenerated Latin-1 table) = text.py oneline on {len(one_cases)} strings', not coq['one_bad'], f'{len(coq["one_bad"])} differ')
        run.obligation(f'correspondence: json_object/json_string/json_int/json_bool = JSON._kv in braces on {len(obj_cases)} dicts, each wf and single line',
                       not coq['obj_bad'], f'{len(coq["obj_bad"])} differ')
        run.obligation(f'correspondence: wf_json = strict python parser on {len(wf_cases)} texts ({len(sample)} real event lines, their mutants, grammar texts)',
                       not coq['wf_bad'], f'{len(coq["wf_bad"])} differ')
        for i in coq['upd_bad'][:5]:
            run.fail_case('model-disagrees:update_message', 'Model_JsonEvent.update_message differs from JSON._update on the same (abstracted) message',
                          {'abstract': upd_cases[i][0], 'impl': upd_cases[i][1][:1500]})
        for i in coq['ev_bad'][:5]:
            run.fail_case(f'model-disagrees:event:{ev_cases[i][2]}', 'the model of the event line / json() body differs from the real output',
                          {'model_expr': ev_cases[i][0][:1500], 'impl': ev_cases[i][1][:1500]})
        run.obligation(f'correspondence: update_message = JSON._update on {len(upd_cases)} messages ({dict(upd_notes)}; grouping by family / next hop, commas, '
                       f'attributes-only, empty, EOR; v6 and v4 fragments)', not coq['upd_bad'], f'{len(coq["upd_bad"])} differ')
        kinds = collections.Counter(k for _, _, k in ev_cases[:n_ev])
        run.obligation(f'correspondence: modelled event lines (_header/_neighbor/_kv + event kinds) = encoder output on {n_ev} events {dict(kinds)}',
                       not [i for i in coq['ev_bad'] if i < n_ev], f'{len([i for i in coq["ev_bad"] if i < n_ev])} differ')
        fkinds = collections.Counter(k for _, _, k in ev_cases[n_ev:])
        run.obligation(f'correspondence: modelled json() bodies (INET NLRI; attribute object of the nine simple attributes) = the real classes on '
                       f'{len(ev_cases) - n_ev} distinct objects {dict(fkinds)}',
                       not [i for i in coq['ev_bad'] if i >= n_ev], f'{len([i for i in coq["ev_bad"] if i >= n_ev])} differ')
        keys_ok, same_pinned, kept_empty, latin1_ok = coq['table']
        run.coverage['regenerated_tables'] = {'attr_keys_ok': bool(keys_ok), 'attribute_key_table_is_the_pinned_one': bool(same_pinned),
                                              'oneline_keeps_no_latin1': bool(kept_empty), 'latin1_ascii_encodable_after_oneline': bool(latin1_ok)}
        from exabgp.bgp.message.update.attribute.collection import AttributeCollection as _AC

        table_names = {v[2] for v in _AC.representation.values()}
        dup_found = any(s.startswith('duplicate-key:') and set(s.rsplit(':', 1)[1].split(',')) & table_names for s in judge.seen_sigs)
        run.obligation('finite check C13_no_duplicate_keys on the regenerated table: attr_keys_ok attr_key_table = true (names of co-present codes distinct)',
                       bool(keys_ok), 'attr_keys_ok attr_key_table = false: two attribute codes that can be present together share a JSON key; '
                       + ('witness UPDATE found by the event pass (duplicate-key failing case)' if dup_found else 'no witness UPDATE found by the event pass'))
        enc_found = any(s.startswith('write-cannot-encode:text') for s in judge.seen_sigs)
        run.obligation('finite check on the regenerated Latin-1 table: every Latin-1 text is ASCII-encodable after oneline (C13_text_ascii_latin1_iff)',
                       bool(latin1_ok), 'oneline keeps printable non-ASCII characters which bytes(..., "ascii") in Processes.write refuses; '
                       + ('witness event found (write-cannot-encode failing case)' if enc_found else 'no witness event found'))
        if bool(keys_ok) != (not dup_found):
            run.notes.append(f'attr_keys_ok={bool(keys_ok)} but duplicate key witness found={dup_found}')

    # ---------------------------------------------------------------- coverage
    n_events = sum(judge.counts.values())
    run.coverage.update({
        'evaluations': judge.rendered + len(esc_cases) + len(one_cases) + len(obj_cases) + len(wf_cases),
        'distinct_nontrivial': len(set(judge.json_lines)) + len({c[0] for c in wf_cases}) + len(set(strings)),
        'rule': 'events = messages built as bytes, decoded by Message.unpack under three sessions (asn4, 2-byte AS, add-path) or the own session of '
                'each etc/exabgp/*.conf neighbor, rendered by the four encoders with and without packets/negotiated; parametric events embed each '
                'hostile byte string (quotes, backslashes, CR/LF, C0/C1 controls, DEL, UTF-8 multi-byte, invalid UTF-8, U+2028/2029/0085, forged '
                'JSON/text fragments, random) at one place and are compared with the benign twin; byte mutants of every UPDATE that still decode. '
                'non-trivial = distinct JSON event lines + distinct recogniser inputs + distinct strings',
        'events_by_kind': dict(sorted(judge.counts.items())),
        'decode_outcomes': dict(sorted(outcomes.items())),
        'families_rendered': dict(sorted(families.items())),
        'attribute_keys_rendered': dict(sorted(attributes.items())),
        'hostile_strings': len(hostiles),
        'failing_checks': dict(judge.fail_counts),
        'timing_s': {'build': round(t_start and (t0 - t_start - t_impl), 1), 'implementation': round(t_impl, 1), 'coq_evaluation': round(t_coq, 1)},
        'exhaustive_parts': 'escape/oneline on every code point 0..159 and 0..255 resp.; attribute key table: all pairs',
    })
    for text in judge.json_lines[:3]:
        run.samples.append({'json_event': text[:400]})
    from harness import wqueue
    wqueue.run_pass(run, tier, seed)  # "written to the pipe ... exactly one record": the API write queue under partial writes
    if run.broken() and not run.failing:
        run.coverage['search'] = f'{n_events} events x 4 encoders judged by the strict checker; none failed'
    return run.finish(level='proof-partial', checker_cmd='make -C coq props/Prop_C13.vo && coqc -Q coq ExaV coq/props/Prop_C13.v (Print Assumptions)')
