"""C03 - no peer input can crash or wedge the speaker.

Implementation side: every message type is decoded by the REAL decoder the way the property's observe_at says:
`Message.unpack(type, body, negotiated)`, then every lazy part is forced (Update.data, NLRIs, attributes, the API
encoders), under several negotiated parameter sets, and whole framed messages are read through the real
`Protocol.read_message` on a scripted socket (adj-rib-in on/off, API consumers on/off).
Oracle (independent of the code): decoded, or Notify with a (code, subcode) the RFCs define; nothing else; valid
messages are never refused; decode time grows linearly; no RecursionError.
Model side: Model_Robust (UPDATE section split, attribute TLV walk with steps/depth, IPv4 NLRI walk, the fixed parts
of OPEN / NOTIFICATION / ROUTE-REFRESH / KEEPALIVE / OPERATIONAL) evaluated by vm_compute on the same bodies."""

from __future__ import annotations

import collections
import random
import struct
import sys
import time

from harness import common
from harness.common import Run, zbytes

MARKER = bytes([0xFF] * 16)
TYPE_NAME = {1: 'OPEN', 2: 'UPDATE', 3: 'NOTIFICATION', 4: 'KEEPALIVE', 5: 'REFRESH', 6: 'OPERATIONAL'}


def tname(ty):
    return TYPE_NAME.get(ty, f'TYPE{ty}')


# ------------------------------------------------------------------------------- the RFC table (not from the code)

# (code, subcode) pairs a NOTIFICATION may carry.  Sources: RFC 4271 4.5 and 6.1-6.8 (subcode 0 "Unspecific" is what
# 4.5 prescribes when no subcode fits, for every code), RFC 5492 (2/7), RFC 6608 (5/1-3), RFC 4486 + RFC 8538 +
# RFC 9384 (6/1-10), RFC 7313 (7/1; the IANA registry has no other ROUTE-REFRESH subcode), RFC 7606 (reuses 3/x).
RFC_CODES = {
    1: {0, 1, 2, 3},
    2: {0, 1, 2, 3, 4, 5, 6, 7},
    3: {0, 1, 2, 3, 4, 5, 6, 7, 8, 9, 10, 11},
    4: {0},
    5: {0, 1, 2, 3},
    6: {0, 1, 2, 3, 4, 5, 6, 7, 8, 9, 10},
    7: {0, 1},
}
# what a decoder of each message type may answer with (the error code must be about that message or its header)
CODES_FOR_TYPE = {1: {1, 2}, 2: {1, 3}, 3: set(), 4: {1}, 5: {1, 7}, 6: {1, 5}}


def defined_code(code, sub):
    return sub in RFC_CODES.get(code, ())


# ------------------------------------------------------------------------------- negotiated parameter sets

CONF = """
neighbor 127.0.0.1 {{
  router-id 1.2.3.4;
  local-address 127.0.0.2;
  local-as {las};
  peer-as {pas};
  adj-rib-in {ribin};
  capability {{ asn4 {asn4}; operational enable; route-refresh enable; add-path {ap}; extended-message {ext}; {extra} }}
  family {{ {fam} }}
}}
"""
FEW = 'ipv4 unicast; ipv6 unicast;'
CTX_SPEC = {
    # name: (asn4, add-path, extended-message, families, extra capability text)
    'as4-all': ('enable', 'disable', 'disable', 'all;', ''),
    'as2-few': ('disable', 'disable', 'disable', FEW, ''),
    'ap-all': ('enable', 'send/receive', 'disable', 'all;', ''),
    'ext-all': ('enable', 'disable', 'enable', 'all;', ''),
    'ext-ap-as2': ('disable', 'send/receive', 'enable', FEW, ''),
    'ms-few': ('enable', 'disable', 'disable', FEW, 'multi-session enable;'),
}


class Ctx:
    def __init__(self, name, ribin=True):
        from exabgp.configuration.configuration import Configuration
        from exabgp.configuration.check import _negotiated

        asn4, ap, ext, fam, extra = CTX_SPEC[name]
        text = CONF.format(las=65000, pas=65001, ribin='true' if ribin else 'false', asn4=asn4, ap=ap, ext=ext, fam=fam, extra=extra)
        c = Configuration([text], text=True)
        if not c.reload():
            raise RuntimeError(f'harness configuration {name} refused: {getattr(c, "error", "")}')
        self.name = name
        self.neighbor = next(iter(c.neighbors.values()))
        self.neg = _negotiated(self.neighbor)[0]
        self.asn4 = bool(self.neg.asn4)
        self.msg_size = int(self.neg.msg_size)
        from exabgp.protocol.family import AFI, SAFI

        self.addpath = bool(self.neg.required(AFI.ipv4, SAFI.unicast))
        self.params = {'ctx': name, 'asn4': self.asn4, 'msg_size': self.msg_size, 'addpath_ipv4_unicast': self.addpath,
                       'families': 'all' if fam == 'all;' else 'ipv4+ipv6 unicast'}


_CTX = {}


def ctx(name):
    if name not in _CTX:
        _CTX[name] = Ctx(name)
    return _CTX[name]


_ENC = {}


def encoders():
    if not _ENC:
        from exabgp.reactor.api.response import Response
        from exabgp.version import json as jv, json_v4, text_v4

        _ENC['json6'] = Response.JSON(jv)
        _ENC['text6'] = Response.Text(jv)
        _ENC['json4'] = Response.V4.JSON(json_v4)
        _ENC['text4'] = Response.V4.Text(text_v4)
    return _ENC


def header_of(ty, body):
    return MARKER + struct.pack('!HB', 19 + len(body), ty)


# ------------------------------------------------------------------------------- forcing the lazy parts


def force(ty, msg, body, c, stage):
    """Touch everything a consumer of the decoded message touches.  `stage` is a one-element list naming where we are
    (for the failure signature).  Returns a short description of what was decoded."""
    neighbor, neg = c.neighbor, c.neg
    hdr = header_of(ty, body)
    enc = encoders()
    if ty == 2:
        if getattr(msg, 'IS_EOR', False):
            stage[0] = 'force-eor'
            for n in msg.nlris:
                str(n), n.extensive(), n.json()
            target, what = msg, 'eor'
        else:
            stage[0] = 'force-data'
            target = msg.data
            stage[0] = 'force-nlri'
            for r in target.announces:
                n = getattr(r, 'nlri', r)
                str(n), n.extensive(), n.json(), str(getattr(r, 'nexthop', ''))
                n.index()
            for n in target.withdraws:
                str(n), n.extensive(), n.json()
                n.index()
            stage[0] = 'force-attributes'
            attrs = target.attributes
            for code in list(attrs):
                a = attrs[code]
                str(a), repr(a)
            str(attrs), attrs.json(), attrs.index()
            what = f'update a{len(target.announces)} w{len(target.withdraws)} attrs{len(attrs)}'
        for name, e in enc.items():
            stage[0] = 'api-' + name
            e.update(neighbor, 'receive', target, hdr, body, neg)
            e.update(neighbor, 'receive', target, b'', b'', neg)
        return what
    if ty == 1:
        stage[0] = 'force-open'
        str(msg), int(msg.version), int(msg.asn), int(msg.hold_time), str(msg.router_id)
        for k, v in msg.capabilities.items():
            str(v)
            if hasattr(v, 'json'):
                v.json()
            if hasattr(v, 'extract_capability_bytes'):
                v.extract_capability_bytes()
        for name, e in enc.items():
            stage[0] = 'api-' + name
            e.open(neighbor, 'receive', msg, hdr, body, neg)
        return 'open'
    if ty == 3:
        stage[0] = 'force-notification'
        str(msg), msg.code, msg.subcode, msg.data, msg.raw_data
        for name, e in enc.items():
            stage[0] = 'api-' + name
            e.notification(neighbor, 'receive', msg, hdr, body, neg)
        return 'notification'
    if ty == 4:
        str(msg)
        for name, e in enc.items():
            stage[0] = 'api-' + name
            e.keepalive(neighbor, 'receive', hdr, body, neg)
        return 'keepalive'
    if ty == 5:
        stage[0] = 'force-refresh'
        str(msg), msg.extensive(), int(msg.afi), int(msg.safi), int(msg.reserved)
        for name, e in enc.items():
            stage[0] = 'api-' + name
            e.refresh(neighbor, 'receive', msg, hdr, body, neg)
        return 'refresh'
    if ty == 6:
        stage[0] = 'force-operational'
        str(msg), msg.extensive()
        for name, e in enc.items():
            stage[0] = 'api-' + name
            e.operational(neighbor, 'receive', msg.category, msg, hdr, body, neg)
        return 'operational'
    return 'other'


def reset_caches():
    """The attribute-collection cache of the previous UPDATE is C19's subject; every observation starts without it."""
    from exabgp.bgp.message.update.attribute import AttributeCollection

    AttributeCollection.cached = None
    AttributeCollection.previous = b''


def observe(ty, body, c):
    """-> ('D', what) | ('N', code, sub, stage) | ('X', stage, exception class, text)"""
    from exabgp.bgp.message import Message
    from exabgp.bgp.message.notification import Notify

    reset_caches()
    stage = ['unpack']
    try:
        msg = Message.unpack(ty, bytes(body), c.neg)
        what = force(ty, msg, bytes(body), c, stage)
        return ('D', what)
    except Notify as exc:
        return ('N', int(exc.code), int(exc.subcode), stage[0])
    except RecursionError as exc:
        return ('X', stage[0], 'RecursionError', str(exc)[:80])
    except Exception as exc:  # noqa: BLE001 - this is the finding
        return ('X', stage[0], type(exc).__name__, str(exc)[:160])


# ------------------------------------------------------------------------------- OPEN: the negotiation that follows


def observe_negotiation(body, c):
    """What Protocol.read_open / Peer do with a decoded peer OPEN: Negotiated.sent/received/validate.
    -> ('D',) | ('N', code, sub) | ('X', stage, class, text) | None when the OPEN itself is refused"""
    from exabgp.bgp.message import Message
    from exabgp.bgp.message.direction import Direction
    from exabgp.bgp.message.notification import Notify
    from exabgp.bgp.message.open import Open, Version
    from exabgp.bgp.message.open.capability import Capabilities
    from exabgp.bgp.message.open.capability.negotiated import Negotiated

    neighbor = c.neighbor
    neg = Negotiated(neighbor, Direction.IN)
    try:
        peer = Message.unpack(1, bytes(body), neg)
    except Exception:  # noqa: BLE001 - judged by observe()
        return None
    ours = Open.make_open(Version(4), neighbor.session.local_as, neighbor.hold_time, neighbor.session.router_id,
                          Capabilities().new(neighbor, False))
    try:
        neg.sent(ours)
        neg.received(peer)
        err = neg.validate(neighbor)
        if err is not None:
            return ('N', int(err[0]), int(err[1]), 'negotiate')
        for e in encoders().values():
            e.negotiated(neighbor, neg)
        return ('D', 'negotiated')
    except Notify as exc:
        return ('N', int(exc.code), int(exc.subcode), 'negotiate')
    except Exception as exc:  # noqa: BLE001
        return ('X', 'negotiate', type(exc).__name__, str(exc)[:160])


# ------------------------------------------------------------------------------- Protocol.read_message


class Sink:
    """reactor.processes: the real Processes message methods writing to a list instead of a pipe"""

    def __init__(self):
        from exabgp.reactor.api.processes import Processes
        from exabgp.reactor.api.response import Response
        from exabgp.version import json as jv

        p = Processes.__new__(Processes)
        p.silence = False
        p._encoder = {'svc': Response.JSON(jv)}
        self.lines = []
        p.write = lambda process, string, peer=None: self.lines.append(string) or True
        self.p = p


_PROTO = {}


def protocol_for(ctx_name, ribin, api):
    """A real Protocol whose neighbor/negotiated are those of the context; api: '' | 'parsed' | 'consolidate' | 'packets'"""
    key = (ctx_name, ribin, api)
    if key in _PROTO:
        return _PROTO[key]
    from exabgp.configuration.neighbor.api import ParseAPI
    from exabgp.reactor.protocol import Protocol

    c = Ctx(ctx_name, ribin=ribin)
    if api:
        recv = {'open': True, 'update': True, 'notification': True, 'keepalive': True, 'refresh': True, 'operational': True, api: True}
        c.neighbor.api = ParseAPI.flatten({'svc': {'processes': ['svc'], 'receive': recv}})
    else:
        c.neighbor.api = ParseAPI.flatten({})

    class Stats(dict):
        def __missing__(self, k):
            return 0

    class Reactor:
        pass

    class Peer:
        pass

    peer = Peer()
    peer.neighbor = c.neighbor
    peer.stats = Stats()
    peer.reactor = Reactor()
    sink = Sink()
    peer.reactor.processes = sink.p
    proto = Protocol(peer)
    proto.negotiated = c.neg
    _PROTO[key] = (proto, c, sink)
    return _PROTO[key]


def observe_read_message(ty, body, ctx_name, ribin, api):
    """One framed message through the real Protocol.read_message on a scripted socket.
    -> ('D', what) | ('N', code, sub, text) | ('RN', code, sub) received NOTIFICATION raised | ('X', 'read_message', class, text)"""
    from harness.c06 import FakeSock, FakeLoop, drive
    from exabgp.reactor.network import connection as connmod
    from exabgp.reactor.network.connection import Connection
    from exabgp.reactor.network.error import LostConnection
    from exabgp.bgp.message import Notify, Notification
    from exabgp.protocol.family import AFI

    proto, c, sink = protocol_for(ctx_name, ribin, api)
    reset_caches()
    del sink.lines[:]
    conn = Connection(AFI.ipv4, '127.0.0.1', '127.0.0.1')
    conn.msg_size = c.msg_size
    conn.defensive = False
    conn.io = FakeSock(header_of(ty, body) + bytes(body), [])
    proto.connection = conn
    saved = connmod.asyncio.get_event_loop
    connmod.asyncio.get_event_loop = lambda: FakeLoop()
    try:
        try:
            m = drive(proto.read_message())
            # what the caller (Peer / UpdateHandler) touches first
            if int(m.ID) == 2 and not getattr(m, 'SCHEDULING', 0) and hasattr(m, 'data'):
                m.data
            return ('D', type(m).__name__)
        except LostConnection:
            return ('D', 'lost')
        except Notify as n:
            return ('N', int(n.code), int(n.subcode), str(n.raw_data[:60]))
        except Notification as n:
            return ('RN', int(n.code), int(n.subcode))
        except RecursionError as exc:
            return ('X', 'read_message', 'RecursionError', str(exc)[:80])
        except Exception as exc:  # noqa: BLE001
            return ('X', 'read_message', type(exc).__name__, str(exc)[:160])
    finally:
        connmod.asyncio.get_event_loop = saved
        conn.io = None
        proto.connection = None
